package gen
import ("testing"; "pgregory.net/rapid"; "go/parser"; "go/token"; "fmt"; "go/printer"; "bytes")
func norm(src string) (string, error) {
	fset := token.NewFileSet()
	f, err := parser.ParseFile(fset, "p.go", src, 0)
	if err != nil { return "", err }
	var b bytes.Buffer
	printer.Fprint(&b, fset, f)
	return b.String(), nil
}
func TestRelayoutKeepsProgram(t *testing.T) {
	shown := 0
	rapid.Check(t, func(rt *rapid.T) {
		p := Profiles[rapid.IntRange(0, 3).Draw(rt, "profile")]
		prog, _ := Program(rt, p)
		src := prog.Files["prog.go"]
		out := Relayout(rt, src, 1, 2)
		a, err := norm(src)
		if err != nil { t.Fatalf("orig: %v", err) }
		b, err := norm(out)
		if err != nil { t.Fatalf("relayout does not parse: %v\n%s", err, out) }
		// compare token streams via go/ast printing with positions stripped is hard; compare scanner tokens instead
		if toks(src) != toks(out) { t.Fatalf("token streams differ\n%s", out) }
		_ = a; _ = b
		if shown < 1 { shown++; fmt.Println(out[:min(len(out), 2500)]) }
	})
}
func toks(s string) string {
	fset := token.NewFileSet()
	f, _ := parser.ParseFile(fset, "p.go", s, 0)
	var b bytes.Buffer
	printer.Fprint(&b, token.NewFileSet(), f)
	// printer output depends on original line breaks a little; normalise white space
	out := bytes.Fields(b.Bytes())
	return string(bytes.Join(out, []byte(" ")))
}
