// Package gen is the shared typed program generator: it builds Go programs inside goatlang's documented
// subset that are well-typed by construction, terminate by construction, and print what they compute.
// The same source text is given to the Go toolchain (GOARCH=386) and to goatlang.
package gen

import (
	"fmt"
	"sort"
	"strings"

	"pgregory.net/rapid"

	"verif/internal/oracle"
	"verif/internal/rx"
)

// Profile weights the kinds of code a program contains.
type Profile struct {
	Name      string
	Expr      int // expression-heavy statements
	Control   int // control flow
	Container int // slices, maps, strings
	Struct    int // struct references, methods, interfaces, function values
	MultiPkg  bool
	Panics    bool // may end in a planted run-time panic
	MaxStmts  int
	// Avoid lists feature names the generator must not use (regions covered by open known findings).
	Avoid map[string]bool
}

var Profiles = []Profile{
	{Name: "expr", Expr: 10, Control: 3, Container: 2, Struct: 1, MaxStmts: 40},
	{Name: "control", Expr: 3, Control: 10, Container: 2, Struct: 1, MaxStmts: 40},
	{Name: "container", Expr: 3, Control: 3, Container: 10, Struct: 1, MaxStmts: 40},
	{Name: "struct", Expr: 3, Control: 3, Container: 3, Struct: 10, MaxStmts: 40},
	{Name: "multipkg", Expr: 3, Control: 3, Container: 3, Struct: 4, MultiPkg: true, MaxStmts: 30},
}

// Ty is a type of the subset.
type Ty struct {
	K    string // int int8 uint8 uint32 float64 bool string slice map ptr
	Elem *Ty    // slice element / map value
	Key  string // map key kind (int or string)
	S    int    // ptr: struct index
}

var (
	tInt    = &Ty{K: "int"}
	tI8     = &Ty{K: "int8"}
	tU8     = &Ty{K: "uint8"}
	tU32    = &Ty{K: "uint32"}
	tF64    = &Ty{K: "float64"}
	tBool   = &Ty{K: "bool"}
	tString = &Ty{K: "string"}
)

func (t *Ty) String() string {
	switch t.K {
	case "slice":
		return "[]" + t.Elem.String()
	case "map":
		return "map[" + t.Key + "]" + t.Elem.String()
	case "ptr":
		return fmt.Sprintf("*S%d", t.S)
	}
	return t.K
}

func (t *Ty) eq(o *Ty) bool { return t.String() == o.String() }

func (t *Ty) numeric() bool {
	switch t.K {
	case "int", "int8", "uint8", "uint32", "float64":
		return true
	}
	return false
}

func (t *Ty) integer() bool { return t.numeric() && t.K != "float64" }

// printable: fmt.Println of the value is the same in Go and goatlang by documentation.
func (t *Ty) printable() bool {
	switch t.K {
	case "ptr":
		return false
	case "slice":
		return !t.Elem.container()
	case "map":
		return false // multi-entry maps print in random order: print len and selected entries instead
	}
	return true
}

func (t *Ty) container() bool { return t.K == "slice" || t.K == "map" || t.K == "ptr" }

type Var struct {
	Name     string
	T        *Ty
	MinLen   int  // slices and strings: a lower bound of the length that holds whenever the variable is read
	ReadOnly bool // loop counters and range variables are never assigned
	Global   bool
}

type StructDef struct {
	Fields []*Var
}

type FuncDef struct {
	Name    string
	Recv    int // -1 = plain function, else struct index
	Params  []*Var
	Results []*Ty
	Level   int // a function calls only functions of lower level: no unbounded recursion
	Variadic *Ty // element type of a trailing `vs ...T` parameter, nil if none
}

// Meta describes what a generated program contains.
type Meta struct {
	Profile  string
	Stmts    int
	Features map[string]int
	Panics   string // "" or the kind of planted panic
}

func (m *Meta) feat(name string) { m.Features[name]++ }

// FeatureGroups returns the sorted feature names.
func (m *Meta) FeatureList() []string {
	var out []string
	for k := range m.Features {
		out = append(out, k)
	}
	sort.Strings(out)
	return out
}

type G struct {
	rt            *rapid.T
	p             Profile
	meta          *Meta
	structs       []*StructDef
	funcs         []*FuncDef
	globals       []*Var
	scopes        [][]*Var
	sb            *strings.Builder
	id            int
	budget        int
	depth         int
	inLoop        int
	curFn         *FuncDef
	libFns        []string // exported functions of the library package (multi-package profile)
	shadowedNames map[string]bool
}

func (g *G) avoid(f string) bool { return g.p.Avoid != nil && g.p.Avoid[f] }

func (g *G) fresh(prefix string) string { g.id++; return fmt.Sprintf("%s%d", prefix, g.id) }

func (g *G) line(format string, a ...any) {
	g.sb.WriteString(strings.Repeat("\t", g.depth+1))
	fmt.Fprintf(g.sb, format, a...)
	g.sb.WriteString("\n")
}

func (g *G) push()          { g.scopes = append(g.scopes, nil) }
func (g *G) pop()           { g.scopes = g.scopes[:len(g.scopes)-1] }
func (g *G) declare(v *Var) { g.scopes[len(g.scopes)-1] = append(g.scopes[len(g.scopes)-1], v) }

// vars returns the visible variables (innermost first) matching the filter.
func (g *G) vars(ok func(*Var) bool) []*Var {
	var out []*Var
	seen := map[string]bool{}
	for i := len(g.scopes) - 1; i >= 0; i-- {
		for j := len(g.scopes[i]) - 1; j >= 0; j-- {
			v := g.scopes[i][j]
			if !seen[v.Name] {
				seen[v.Name] = true
				if ok(v) {
					out = append(out, v)
				}
			}
		}
	}
	for _, v := range g.globals {
		if !seen[v.Name] && ok(v) {
			out = append(out, v)
		}
	}
	return out
}

func (g *G) pickVar(label string, ok func(*Var) bool) *Var {
	vs := g.vars(ok)
	if len(vs) == 0 {
		return nil
	}
	return vs[rx.Uniform(g.rt, len(vs), label)]
}

// ---- types ------------------------------------------------------------------------------------

var scalarTys = []*Ty{tInt, tInt, tInt, tF64, tString, tBool, tU8, tI8, tU32}

func (g *G) scalarTy() *Ty { return scalarTys[rx.Uniform(g.rt, len(scalarTys), "sty")] }

func (g *G) anyTy(allowPtr bool) *Ty {
	w := []int{g.p.Expr + 4, g.p.Container, g.p.Container, 0}
	if allowPtr && len(g.structs) > 0 {
		w[3] = g.p.Struct
	}
	switch rx.Weighted(g.rt, "tykind", w...) {
	case 0:
		return g.scalarTy()
	case 1:
		return &Ty{K: "slice", Elem: rx.Pick(g.rt, "elem", tInt, tInt, tString, tF64, tU8, tBool)}
	case 2:
		return &Ty{K: "map", Key: rx.Pick(g.rt, "mapkey", "string", "int"), Elem: rx.Pick(g.rt, "mapval", tInt, tString, tF64)}
	default:
		return &Ty{K: "ptr", S: rx.Uniform(g.rt, len(g.structs), "sidx")}
	}
}

// ---- expressions ------------------------------------------------------------------------------

func intLit(g *G) string {
	return rx.Pick(g.rt, "ilit", "0", "1", "2", "3", "5", "7", "10", "13", "100", "255", "1000", "65535", "-1", "-4", "1234567")
}

func (g *G) lit(t *Ty) string {
	switch t.K {
	case "int":
		return intLit(g)
	case "int8":
		return rx.Pick(g.rt, "i8lit", "0", "1", "-1", "100", "-128", "127", "7")
	case "uint8":
		return rx.Pick(g.rt, "u8lit", "0", "1", "200", "255", "7", "'a'")
	case "uint32":
		return rx.Pick(g.rt, "u32lit", "0", "1", "7", "4000000000", "65536")
	case "float64":
		return rx.Pick(g.rt, "flit", "0.5", "1.5", "2.25", "0.1", "3", "100", "-0.75", "1e6", "0.001")
	case "bool":
		return rx.Pick(g.rt, "blit", "true", "false")
	case "string":
		return rx.Pick(g.rt, "slit", `""`, `"a"`, `"go"`, `"hello"`, `"x,y,z"`, `" pad "`, `"héllo"`, `"a,,b,"`, `",lead"`, `"€uro"`, `"日本"`)
	case "slice":
		n := rx.Range(g.rt, "nelems", 0, 4)
		var parts []string
		for i := 0; i < n; i++ {
			parts = append(parts, g.lit(t.Elem))
		}
		return t.String() + "{" + strings.Join(parts, ", ") + "}"
	case "map":
		n := rx.Range(g.rt, "nentries", 0, 3)
		var parts []string
		for i := 0; i < n; i++ {
			k := fmt.Sprintf("%d", i+1)
			if t.Key == "string" {
				k = fmt.Sprintf("%q", fmt.Sprintf("k%d", i+1))
			}
			parts = append(parts, k+": "+g.lit(t.Elem))
		}
		return t.String() + "{" + strings.Join(parts, ", ") + "}"
	case "ptr":
		sd := g.structs[t.S]
		var parts []string
		for _, f := range sd.Fields {
			if f.T.K != "ptr" && rx.Chance(g.rt, "initfield", 1, 2) {
				parts = append(parts, f.Name+": "+g.lit(f.T))
			}
		}
		return fmt.Sprintf("&S%d{%s}", t.S, strings.Join(parts, ", "))
	}
	panic("lit " + t.K)
}

// smallConst returns a constant expression over small literals whose value (and every prefix of it) is a small
// non-negative number: Go folds it exactly, so does any correct implementation, and no operand type can overflow.
func (g *G) smallConst(t *Ty) string {
	g.meta.feat("constexpr")
	if t.K == "float64" {
		return rx.Pick(g.rt, "fconst", "0.5 + 1", "1.5*2", "2.5 - 0.5", "1 + 2", "0.25 + 0.25 + 0.5")
	}
	return rx.Pick(g.rt, "iconst", "1 + 2", "2 - 1", "1 + 1", "10 - 1", "2*3", "1 + 2 - 3", "3 - 2 + 1", "1 + 2 + 3", "2*2 + 1", "7 - 3 - 2")
}

func litLen(s string) int {
	// number of elements of a slice literal produced by lit (top-level commas + 1), 0 for {}
	i := strings.Index(s, "{")
	body := s[i+1 : len(s)-1]
	if strings.TrimSpace(body) == "" {
		return 0
	}
	return strings.Count(body, ", ") + 1
}

// leaf returns a variable (or field, element) of type t if one is visible, else a literal.
func (g *G) leaf(t *Ty) string {
	if rx.Chance(g.rt, "uselit", 1, 5) {
		return g.lit(t)
	}
	cands := g.vars(func(v *Var) bool { return v.T.eq(t) })
	var exprs []string
	for _, v := range cands {
		exprs = append(exprs, v.Name)
	}
	// fields of struct references
	for _, v := range g.vars(func(v *Var) bool { return v.T.K == "ptr" && v.MinLen > 0 }) {
		for _, f := range g.structs[v.T.S].Fields {
			if f.T.eq(t) {
				exprs = append(exprs, v.Name+"."+f.Name)
			}
		}
	}
	// elements of non-empty slices, lookups in maps
	for _, v := range g.vars(func(v *Var) bool { return v.T.K == "slice" && v.T.Elem.eq(t) && v.MinLen > 0 }) {
		exprs = append(exprs, fmt.Sprintf("%s[%d]", v.Name, rx.Uniform(g.rt, v.MinLen, "elemidx")))
		if iv := g.pickVar("idxvar", func(x *Var) bool { return x.T.K == "int" }); iv != nil {
			exprs = append(exprs, fmt.Sprintf("%s[idx(%s, len(%s))]", v.Name, iv.Name, v.Name))
		}
	}
	for _, v := range g.vars(func(v *Var) bool { return v.T.K == "map" && v.T.Elem.eq(t) }) {
		if v.T.Key == "string" {
			exprs = append(exprs, fmt.Sprintf("%s[%q]", v.Name, rx.Pick(g.rt, "mk", "k1", "k2", "zz")))
		} else {
			exprs = append(exprs, fmt.Sprintf("%s[%d]", v.Name, rx.Range(g.rt, "mki", 0, 3)))
		}
	}
	if g.p.MultiPkg {
		switch t.K {
		case "int":
			g.meta.feat("pkgcall")
			// util.Next() mutates more.Count: Go leaves the order of a variable read and a call in one expression
			// unspecified, so the call only appears as a statement of its own (declStmt)
			exprs = append(exprs, "util.Scale", "util.State", "more.Count", "util.NewPoint(bi, 2).Sum()")
			if len(exprs) > 5 {
				exprs = append(exprs, fmt.Sprintf("util.Twice(%s)", exprs[0]))
			}
		case "string":
			exprs = append(exprs, "util.Tag(bs)")
		case "float64":
			exprs = append(exprs, "util.Half(bf)")
		}
	}
	if len(exprs) == 0 {
		return g.lit(t)
	}
	return exprs[rx.Uniform(g.rt, len(exprs), "leaf")]
}

// expr returns an expression of type t. At least one operand of every operator is not a constant.
func (g *G) expr(t *Ty, depth int) string {
	if depth <= 0 || rx.Chance(g.rt, "leafnow", 1, 3) {
		return g.leaf(t)
	}
	switch t.K {
	case "int", "int8", "uint8", "uint32":
		switch rx.Weighted(g.rt, "iexpr", 10, 4, 3, 3, 2, 3, 3) {
		case 0:
			op := rx.Pick(g.rt, "iop", "+", "-", "*", "+", "-", "&", "|", "^")
			if g.avoid("op:&^") && op == "&^" {
				op = "&"
			}
			return fmt.Sprintf("%s %s %s", g.nonLit(t, depth-1), op, g.rhs(t, depth-1))
		case 1:
			g.meta.feat("div")
			op := rx.Pick(g.rt, "dop", "/", "%")
			return fmt.Sprintf("%s %s (%s | 1)", g.operand(t, depth-1), op, g.nonLit(t, depth-1))
		case 2:
			g.meta.feat("shift")
			op := rx.Pick(g.rt, "sop", "<<", ">>")
			return fmt.Sprintf("%s %s %d", g.nonLit(t, depth-1), op, rx.Range(g.rt, "shcount", 0, 9))
		case 3:
			return fmt.Sprintf("(%s)", g.expr(t, depth-1))
		case 4:
			return fmt.Sprintf("-%s", g.nonLit(t, 0))
		case 5:
			if t.K == "int" {
				g.meta.feat("len")
				if v := g.pickVar("lenvar", func(v *Var) bool { return v.T.K == "slice" || v.T.K == "map" || v.T.K == "string" }); v != nil {
					return "len(" + v.Name + ")"
				}
			}
			return g.leaf(t)
		default:
			// conversion from another integer type (wraps / sign-extends as Go defines)
			g.meta.feat("conv")
			from := rx.Pick(g.rt, "convfrom", tInt, tU8, tI8, tU32)
			return fmt.Sprintf("%s(%s)", t.K, g.nonLit(from, depth-1))
		}
	case "float64":
		switch rx.Weighted(g.rt, "fexpr", 10, 3, 3, 2) {
		case 0:
			op := rx.Pick(g.rt, "fop", "+", "-", "*", "/")
			r := g.rhs(t, depth-1)
			if op == "/" {
				r = "(" + g.nonLit(t, depth-1) + "*" + g.operand(t, depth-1) + " + 1.5)"
			}
			return fmt.Sprintf("%s %s %s", g.nonLit(t, depth-1), op, r)
		case 1:
			g.meta.feat("conv")
			return fmt.Sprintf("float64(%s)", g.nonLit(rx.Pick(g.rt, "ffrom", tInt, tU8, tI8, tU32), depth-1))
		case 2:
			g.meta.feat("math")
			fn := rx.Pick(g.rt, "mathfn", "math.Floor", "math.Ceil", "math.Abs", "math.Sqrt(math.Abs", "math.Round")
			if strings.HasPrefix(fn, "math.Sqrt") {
				return fmt.Sprintf("%s(%s))", fn, g.nonLit(t, depth-1))
			}
			return fmt.Sprintf("%s(%s)", fn, g.nonLit(t, depth-1))
		default:
			return fmt.Sprintf("(%s)", g.expr(t, depth-1))
		}
	case "bool":
		switch rx.Weighted(g.rt, "bexpr", 8, 4, 2, 2) {
		case 0:
			ct := rx.Pick(g.rt, "cmpty", tInt, tInt, tF64, tString, tU8, tI8, tU32)
			op := rx.Pick(g.rt, "cmpop", "==", "!=", "<", "<=", ">", ">=")
			return fmt.Sprintf("%s %s %s", g.nonLit(ct, depth-1), op, g.rhs(ct, depth-1))
		case 1:
			op := rx.Pick(g.rt, "logop", "&&", "||")
			return fmt.Sprintf("%s %s %s", g.boolOperand(depth-1), op, g.boolOperand(depth-1))
		case 2:
			return "!" + g.boolOperand(0)
		default:
			g.meta.feat("strings")
			return fmt.Sprintf("strings.Contains(%s, %s)", g.operand(tString, depth-1), g.lit(tString))
		}
	case "string":
		switch rx.Weighted(g.rt, "sexpr", 8, 3, 3, 3, 2) {
		case 0:
			return fmt.Sprintf("%s + %s", g.nonLit(tString, depth-1), g.rhs(tString, depth-1))
		case 1:
			g.meta.feat("strconv")
			return fmt.Sprintf("strconv.Itoa(%s)", g.operand(tInt, depth-1))
		case 2:
			g.meta.feat("strings")
			fn := rx.Pick(g.rt, "strfn", "strings.TrimSpace(%s)", "strings.Repeat(%s, 2)", "strings.ReplaceAll(%s, \"l\", \"L\")", "strings.TrimSuffix(%s, \"o\")")
			return fmt.Sprintf(fn, g.operand(tString, depth-1))
		case 3:
			if sv := g.pickVar("joinvar", func(v *Var) bool { return v.T.K == "slice" && v.T.Elem.K == "string" }); sv != nil && rapid.Bool().Draw(g.rt, "join") {
				g.meta.feat("strings")
				return fmt.Sprintf("strings.Join(%s, \"-\")", sv.Name)
			}
			g.meta.feat("sprint")
			st := rx.Pick(g.rt, "sprintty", tInt, tF64, tBool, tString, tU8)
			if rx.Chance(g.rt, "sprintmany", 1, 3) {
				// several operands: Sprint puts a space between two operands when neither is a string
				g.meta.feat("sprintmany")
				ops := []string{g.nonLit(st, depth-1)}
				for k := rx.Range(g.rt, "sprintops", 1, 3); k > 0; k-- {
					ot := rx.Pick(g.rt, "sprintty2", tInt, tString, tString, tBool, tF64)
					if rapid.Bool().Draw(g.rt, "sprintlit") {
						ops = append(ops, g.lit(ot))
					} else {
						ops = append(ops, g.nonLit(ot, 0))
					}
				}
				return fmt.Sprintf("fmt.Sprint(%s)", strings.Join(ops, ", "))
			}
			return fmt.Sprintf("fmt.Sprint(%s)", g.nonLit(st, depth-1))
		default:
			if !g.avoid("sprintf") {
				g.meta.feat("sprintf")
				if !g.avoid("sprintf-verbs") && rapid.Bool().Draw(g.rt, "verbs") {
					g.meta.feat("sprintf-verbs")
					switch rx.Uniform(g.rt, 5, "verbform") {
					case 0:
						return fmt.Sprintf("fmt.Sprintf(\"%%d|%%03d|%%x\", %s, %s, %s)", g.nonLit(tInt, depth-1), g.nonLit(tU8, depth-1), g.nonLit(tU32, depth-1))
					case 1:
						return fmt.Sprintf("fmt.Sprintf(\"%%5.2f|%%g\", %s, %s)", g.nonLit(tF64, depth-1), g.nonLit(tF64, depth-1))
					case 2:
						return fmt.Sprintf("fmt.Sprintf(\"%%q|%%5s|%%-4s|\", %s, %s, %s)", g.operand(tString, depth-1), g.operand(tString, 0), g.operand(tString, 0))
					case 3:
						return fmt.Sprintf("fmt.Sprintf(\"%%t %%v %%d\", %s, %s, %s)", g.boolOperand(depth-1), g.nonLit(tI8, depth-1), g.nonLit(tI8, depth-1))
					default:
						return fmt.Sprintf("fmt.Sprintf(\"%%c%%c|%%T\", %s, 'x', %s)", g.nonLit(tU8, 0), g.nonLit(tF64, 0))
					}
				}
				return fmt.Sprintf("fmt.Sprintf(\"%%v:%%s\", %s, %s)", g.operand(tInt, depth-1), g.operand(tString, depth-1))
			}
			return g.leaf(t)
		}
	case "slice":
		switch rx.Weighted(g.rt, "slexpr", 5, 4, 2) {
		case 0:
			return g.leaf(t)
		case 1:
			g.meta.feat("append")
			return fmt.Sprintf("append(%s, %s)", g.leaf(t), g.operand(t.Elem, depth-1))
		default:
			if t.Elem.K == "string" {
				g.meta.feat("strings")
				return fmt.Sprintf("strings.Split(%s, \",\")", g.operand(tString, depth-1))
			}
			return g.lit(t)
		}
	}
	return g.leaf(t)
}

// nonLit returns an expression of type t that is not a constant expression (it involves a variable): Go folds
// constant expressions exactly and rejects constant overflow, neither of which a dynamically typed VM can mirror.
func (g *G) nonLit(t *Ty, depth int) string {
	for try := 0; try < 6; try++ {
		e := g.operand(t, depth)
		if !isConstExpr(e) {
			return e
		}
	}
	return baseVar[t.K]
}

var baseVar = map[string]string{"int": "bi", "int8": "bi8", "uint8": "bu8", "uint32": "bu32", "float64": "bf", "string": "bs", "bool": "bb"}

// isConstExpr: the expression mentions no identifier except constants and conversion names.
func isConstExpr(e string) bool {
	word := ""
	flush := func() bool {
		w := word
		word = ""
		if w == "" {
			return false
		}
		switch w {
		case "int", "int8", "uint8", "uint32", "float64", "string", "true", "false", "CA", "CB", "CC", "limit", "e", "E", "x":
			return false
		}
		if w[0] >= '0' && w[0] <= '9' {
			return false
		}
		return true
	}
	inStr, inChar := false, false
	for _, ch := range e {
		switch {
		case inStr:
			if ch == '"' {
				inStr = false
			}
		case inChar:
			if ch == '\'' {
				inChar = false
			}
		case ch == '"':
			if flush() {
				return false
			}
			inStr = true
		case ch == '\'':
			if flush() {
				return false
			}
			inChar = true
		case ch == '_' || ch >= '0' && ch <= '9' || ch >= 'a' && ch <= 'z' || ch >= 'A' && ch <= 'Z':
			word += string(ch)
		default:
			if flush() {
				return false
			}
		}
	}
	return !flush()
}

// operand: a sub-expression that can stand next to a binary operator without changing the grouping.
// wrapped reports whether e is one parenthesised expression: "(" ... ")" with the first parenthesis closing at the end.
func wrapped(e string) bool {
	if !strings.HasPrefix(e, "(") || !strings.HasSuffix(e, ")") {
		return false
	}
	depth := 0
	for i, ch := range e {
		switch ch {
		case '(':
			depth++
		case ')':
			depth--
			if depth == 0 && i != len(e)-1 {
				return false
			}
		}
	}
	return true
}

func (g *G) operand(t *Ty, depth int) string {
	e := g.expr(t, depth)
	if strings.ContainsAny(e, " ") && !wrapped(e) && !isCall(e) {
		return "(" + e + ")"
	}
	if strings.HasPrefix(e, "-") {
		return "(" + e + ")"
	}
	return e
}

func isCall(e string) bool {
	// f(...) or pkg.f(...) with balanced parentheses spanning to the end
	i := strings.Index(e, "(")
	if i <= 0 || !strings.HasSuffix(e, ")") {
		return false
	}
	for _, ch := range e[:i] {
		if !(ch == '.' || ch == '_' || ch >= '0' && ch <= '9' || ch >= 'a' && ch <= 'z' || ch >= 'A' && ch <= 'Z' || ch == '[' || ch == ']') {
			return false
		}
	}
	depth := 0
	for j, ch := range e {
		if ch == '(' {
			depth++
		} else if ch == ')' {
			depth--
			if depth == 0 && j != len(e)-1 {
				return false
			}
		}
	}
	return true
}

// rhs: right operand; may be a literal (the left one then is not).
func (g *G) rhs(t *Ty, depth int) string {
	if rx.Chance(g.rt, "rhslit", 1, 3) {
		l := g.lit(t)
		if strings.HasPrefix(l, "-") {
			return "(" + l + ")"
		}
		return l
	}
	return g.operand(t, depth)
}

func (g *G) boolOperand(depth int) string {
	e := g.expr(tBool, depth)
	if e == "true" || e == "false" {
		if v := g.pickVar("boolvar", func(v *Var) bool { return v.T.K == "bool" }); v != nil {
			return v.Name
		}
		return "(" + g.operand(tInt, 0) + " > 2)"
	}
	if strings.ContainsAny(e, " ") && !isCall(e) && !wrapped(e) {
		return "(" + e + ")"
	}
	return e
}

// nonConst makes sure an initialiser is not a bare untyped constant of another default type.
func (g *G) typedInit(t *Ty, e string) string {
	return e
}

// ---- statements -------------------------------------------------------------------------------

func (g *G) show(v *Var) {
	g.id++
	switch {
	case v.T.printable():
		g.line("fmt.Println(\"t%d\", %s)", g.id, v.Name)
	case v.T.K == "map":
		g.meta.feat("maplookup")
		key := `"k1"`
		if v.T.Key == "int" {
			key = "1"
		}
		g.line("fmt.Println(\"t%d\", len(%s), %s[%s])", g.id, v.Name, v.Name, key)
	case v.T.K == "ptr":
		sd := g.structs[v.T.S]
		var parts []string
		for _, f := range sd.Fields {
			if f.T.printable() {
				parts = append(parts, v.Name+"."+f.Name)
			} else if f.T.K == "ptr" && v.MinLen > 0 && rapid.Bool().Draw(g.rt, "nilfield") {
				// reference fields are nil until something is stored: compared with nil on either side
				g.meta.feat("nilfirst")
				parts = append(parts, "nil == "+v.Name+"."+f.Name, v.Name+"."+f.Name+" != nil")
			}
		}
		if len(parts) == 0 || v.MinLen == 0 {
			if rapid.Bool().Draw(g.rt, "nilfirst") {
				g.meta.feat("nilfirst")
				g.line("fmt.Println(\"t%d\", nil == %s, nil != %s)", g.id, v.Name, v.Name)
			} else {
				g.line("fmt.Println(\"t%d\", %s == nil)", g.id, v.Name)
			}
		} else {
			g.line("fmt.Println(\"t%d\", %s)", g.id, strings.Join(parts, ", "))
		}
	default:
		g.line("fmt.Println(\"t%d\", len(%s))", g.id, v.Name)
	}
}

func (g *G) stmts(n int) {
	for i := 0; i < n && g.budget > 0; i++ {
		g.stmt()
	}
}

func (g *G) declStmt() {
	if g.p.MultiPkg && rx.Chance(g.rt, "libnext", 1, 6) {
		v := &Var{Name: g.fresh("v"), T: tInt}
		g.line("%s := util.Next()", v.Name)
		g.declare(v)
		g.show(v)
		return
	}
	// redeclare a name of an enclosing scope (shadowing): the inner variable lives until the block ends
	if len(g.scopes) >= 2 && rx.Chance(g.rt, "shadow", 1, 5) {
		cur := map[string]bool{}
		for _, v := range g.scopes[len(g.scopes)-1] {
			cur[v.Name] = true
		}
		okv := func(v *Var) bool {
			return !cur[v.Name] && !v.ReadOnly && (v.T.K == "int" || v.T.K == "string" || v.T.K == "bool" || v.T.K == "float64" || v.T.K == "uint8")
		}
		// prefer names that are already shadowed once: three and more live bindings of one name
		o := g.pickVar("reshadowed", func(v *Var) bool { return okv(v) && g.shadowedNames[v.Name] })
		if o == nil || rx.Chance(g.rt, "freshshadow", 1, 3) {
			o = g.pickVar("shadowed", okv)
		}
		if o != nil {
			if g.shadowedNames == nil {
				g.shadowedNames = map[string]bool{}
			}
			if g.shadowedNames[o.Name] {
				g.meta.feat("shadow3")
			}
			g.shadowedNames[o.Name] = true
			g.meta.feat("shadow")
			init := g.expr(o.T, 2) // evaluated before the new variable exists: may read the outer one
			nv := &Var{Name: o.Name, T: o.T}
			if o.T.K == "int" && !isConstExpr(init) || o.T.K == "string" || o.T.K == "bool" {
				g.line("%s := %s", o.Name, init)
			} else {
				g.line("var %s %s = %s", o.Name, o.T, init)
			}
			g.declare(nv)
			g.show(nv)
			return
		}
	}
	t := g.anyTy(true)
	name := g.fresh("v")
	v := &Var{Name: name, T: t}
	var init string
	switch t.K {
	case "slice":
		if rx.Chance(g.rt, "make", 1, 4) {
			n := rx.Range(g.rt, "makelen", 0, 4)
			init = fmt.Sprintf("make(%s, %d)", t, n)
			v.MinLen = n
			g.meta.feat("make")
		} else if t.Elem.K == "string" && rx.Chance(g.rt, "split", 1, 2) {
			g.meta.feat("split")
			init = fmt.Sprintf("strings.Split(%s, %s)", g.operand(tString, 1), rx.Pick(g.rt, "sep", `","`, `","`, `"l"`, `""`))
		} else if rx.Chance(g.rt, "sliceexpr", 1, 3) {
			init = g.expr(t, 2) // append(...), strings.Split(...): length unknown
			if !strings.HasPrefix(init, "append(") && !strings.HasPrefix(init, "strings.") && strings.HasPrefix(init, "[]") {
				v.MinLen = litLen(init)
			}
		} else {
			init = g.lit(t)
			v.MinLen = litLen(init)
		}
	case "map":
		if rx.Chance(g.rt, "makemap", 1, 4) {
			init = fmt.Sprintf("make(%s)", t)
			g.meta.feat("make")
		} else {
			init = g.lit(t)
		}
	case "ptr":
		init = g.lit(t)
		v.MinLen = 1 // non-nil
		g.meta.feat("structlit")
	case "string":
		init = g.expr(t, 2)
	default:
		init = g.expr(t, 3)
	}
	switch {
	case t.K == "slice" && rx.Chance(g.rt, "nilslice", 1, 8):
		g.line("var %s %s", name, t)
		v.MinLen = 0
	case t.container() || t.K == "string" || t.K == "bool":
		g.line("%s := %s", name, init)
	case t.K == "int" && rx.Chance(g.rt, "shortint", 1, 2) && !isConstExpr(init):
		g.line("%s := %s", name, init)
	default:
		g.line("var %s %s = %s", name, t, init)
		g.meta.feat("typedvar")
	}
	g.declare(v)
	g.show(v)
}

func (g *G) assignStmt() {
	v := g.pickVar("assignvar", func(v *Var) bool { return !v.ReadOnly })
	if v == nil {
		g.declStmt()
		return
	}
	t := v.T
	switch {
	case t.numeric():
		switch rx.Weighted(g.rt, "assignkind", 5, 5, 3) {
		case 0:
			g.line("%s = %s", v.Name, g.expr(t, 3))
		case 1:
			ops := []string{"+=", "-=", "*=", "+=", "-="}
			if t.integer() {
				ops = append(ops, "|=", "&=", "^=", "<<=", ">>=", "%=", "/=")
			} else {
				ops = append(ops, "/=")
			}
			op := rx.Pick(g.rt, "opassign", ops...)
			g.meta.feat("opassign")
			switch op {
			case "<<=", ">>=":
				g.line("%s %s %d", v.Name, op, rx.Range(g.rt, "sh", 0, 5))
			case "%=", "/=":
				if t.integer() {
					g.line("%s %s (%s | 1)", v.Name, op, g.operand(t, 1))
				} else {
					g.line("%s %s (%s*%s + 1.5)", v.Name, op, g.operand(t, 0), g.operand(t, 0))
				}
			default:
				if (op == "+=" || op == "-=" || op == "*=") && rx.Chance(g.rt, "constrhs", 1, 4) {
					g.line("%s %s %s", v.Name, op, g.smallConst(t))
				} else {
					g.line("%s %s %s", v.Name, op, g.expr(t, 2))
				}
			}
		default:
			g.meta.feat("incdec")
			g.line("%s%s", v.Name, rx.Pick(g.rt, "incdec", "++", "--"))
		}
	case t.K == "string":
		// inside loops and functions (which may be called from loops) a string only grows by literals: s += s
		// repeated a few dozen times is a resource exhaustion no property is about
		grow := g.inLoop == 0 && g.curFn == nil
		switch {
		case rapid.Bool().Draw(g.rt, "strplus") && grow:
			g.line("%s += %s", v.Name, g.expr(t, 1))
		case grow:
			g.line("%s = %s", v.Name, g.expr(t, 2))
		case rapid.Bool().Draw(g.rt, "strlitplus"):
			g.line("%s += %s", v.Name, g.lit(t))
		default:
			g.line("%s = %s", v.Name, g.lit(t))
		}
	case t.K == "bool":
		g.line("%s = %s", v.Name, g.expr(t, 2))
	case t.K == "slice":
		switch rx.Weighted(g.rt, "sliceassign", 5, 3, 2, 2, 2) {
		case 4:
			if v.MinLen < 2 || !t.Elem.printable() {
				g.line("%s = append(%s, %s)", v.Name, v.Name, g.expr(t.Elem, 1))
				break
			}
			// a shortened view of the slice is appended to and the result kept elsewhere: the view keeps its length,
			// the element behind it in the shared array is overwritten, the original keeps its length too
			g.meta.feat("appendalias")
			sa, sb := g.fresh("sa"), g.fresh("sb")
			g.line("%s := %s[:1]", sa, v.Name)
			g.line("%s := append(%s, %s)", sb, sa, g.expr(t.Elem, 1))
			g.line("fmt.Println(\"alias\", len(%s), len(%s), len(%s), %s, %s)", sa, sb, v.Name, sa, sb)
		case 0:
			g.meta.feat("append")
			n := rx.Range(g.rt, "nappend", 1, 3)
			var parts []string
			for i := 0; i < n; i++ {
				parts = append(parts, g.expr(t.Elem, 1))
			}
			g.line("%s = append(%s, %s)", v.Name, v.Name, strings.Join(parts, ", "))
		case 1:
			if v.MinLen > 0 && t.Elem.numeric() && rx.Chance(g.rt, "sideindex", 1, 3) {
				// the index expression has a side effect: it is evaluated once per statement
				g.meta.feat("sideindex")
				// the container may be the result of a call as well, and the index a conversion of a call
				target := v.Name
				if t.Elem.K == "int" && rapid.Bool().Draw(g.rt, "sidecontainer") {
					target = "pickInts(" + v.Name + ")"
				}
				index := fmt.Sprintf("idx(tick(), len(%s))", v.Name)
				if rx.Chance(g.rt, "sideconv", 1, 3) {
					index = "int(tzero())"
				}
				if rapid.Bool().Draw(g.rt, "sideincdec") {
					g.line("%s[%s]%s", target, index, rx.Pick(g.rt, "sideop", "++", "--"))
				} else {
					g.line("%s[%s] %s %s", target, index, rx.Pick(g.rt, "sideopassign", "+=", "-=", "*="), g.operand(t.Elem, 1))
				}
				g.line("fmt.Println(\"ticks\", ticks)")
				break
			}
			if v.MinLen > 0 {
				g.meta.feat("elemset")
				if v.MinLen >= 2 && rx.Chance(g.rt, "constidx", 1, 4) {
					g.meta.feat("constexpr")
					g.line("%s[%s] = %s", v.Name, rx.Pick(g.rt, "cidx", "0 + 1", "2 - 1", "1 + 1 - 1", "1 - 1"), g.expr(t.Elem, 2))
				} else {
					g.line("%s[%d] = %s", v.Name, rx.Uniform(g.rt, v.MinLen, "setidx"), g.expr(t.Elem, 2))
				}
			} else {
				g.line("%s = append(%s, %s)", v.Name, v.Name, g.expr(t.Elem, 1))
			}
		case 2:
			if v.MinLen >= 2 && g.inLoop == 0 && g.curFn == nil {
				g.meta.feat("subslice")
				lo := rx.Range(g.rt, "lo", 0, v.MinLen-1)
				g.line("%s = %s[%d:]", v.Name, v.Name, lo)
				v.MinLen -= lo
			} else {
				g.line("%s = append(%s, %s)", v.Name, v.Name, g.expr(t.Elem, 1))
			}
		default:
			if o := g.pickVar("spreadsrc", func(o *Var) bool { return o.T.eq(t) }); o != nil && g.inLoop == 0 {
				g.meta.feat("appendspread")
				g.line("%s = append(%s, %s...)", v.Name, v.Name, o.Name)
			} else {
				g.line("%s = append(%s, %s)", v.Name, v.Name, g.expr(t.Elem, 1))
			}
		}
	case t.K == "map":
		key := fmt.Sprintf("%q", rx.Pick(g.rt, "setkey", "k1", "k2", "k3", "zz"))
		if t.Key == "int" {
			key = fmt.Sprint(rx.Range(g.rt, "setkeyi", 0, 4))
		}
		switch rx.Weighted(g.rt, "mapassign", 6, 2, 2, 2) {
		case 3:
			if !t.Elem.integer() {
				g.line("delete(%s, %s)", v.Name, key)
				break
			}
			// a sweep whose result does not depend on the iteration order: every entry with an odd value is counted,
			// deleted and re-inserted (or only deleted) with an even value; Go visits every entry that is in the map
			// when the loop starts exactly once, and an entry re-created during the loop, visited again or not, is even
			g.meta.feat("mapsweep")
			n, k, e := g.fresh("sw"), g.fresh("k"), g.fresh("e")
			g.line("%s := 0", n)
			g.line("for %s, %s := range %s {", k, e, v.Name)
			g.line("\tif %s%%2 != 0 {", e)
			g.line("\t\t%s++", n)
			g.line("\t\tdelete(%s, %s)", v.Name, k)
			if rx.Chance(g.rt, "reinsert", 3, 4) {
				g.line("\t\t%s[%s] = %s * 2", v.Name, k, e)
			}
			g.line("\t}")
			g.line("}")
			if t.Key == "int" {
				g.line("fmt.Println(\"sweep\", %s, len(%s), %s[0], %s[1], %s[2], %s[3], %s[4])", n, v.Name, v.Name, v.Name, v.Name, v.Name, v.Name)
			} else {
				g.line("fmt.Println(\"sweep\", %s, len(%s), %s[\"k1\"], %s[\"k2\"], %s[\"k3\"], %s[\"zz\"])", n, v.Name, v.Name, v.Name, v.Name, v.Name)
			}
		case 0:
			g.meta.feat("mapset")
			g.line("%s[%s] = %s", v.Name, key, g.expr(t.Elem, 2))
		case 1:
			g.meta.feat("mapdelete")
			g.line("delete(%s, %s)", v.Name, key)
			if rx.Chance(g.rt, "reinsertsame", 1, 2) {
				// the same key comes back: a range visits it once, and len agrees with the number of visits
				g.meta.feat("mapreinsert")
				cnt, k := g.fresh("cnt"), g.fresh("k")
				g.line("%s[%s] = %s", v.Name, key, g.expr(t.Elem, 1))
				g.line("%s := 0", cnt)
				g.line("for %s := range %s {", k, v.Name)
				g.line("\t_ = %s", k)
				g.line("\t%s++", cnt)
				g.line("}")
				g.line("fmt.Println(\"recount\", %s, len(%s))", cnt, v.Name)
			}
		default:
			if t.Elem.numeric() && rx.Chance(g.rt, "sidekey", 1, 3) {
				g.meta.feat("sideindex")
				kf := "tkey()"
				if t.Key == "int" {
					kf = rx.Pick(g.rt, "ikeyform", "ikey()", "int(ikey())", "int(fkey())")
				} else if rapid.Bool().Draw(g.rt, "skeyconv") {
					kf = "string(tkey())"
				}
				if rapid.Bool().Draw(g.rt, "sideincdec") {
					g.line("%s[%s]++", v.Name, kf)
				} else {
					g.line("%s[%s] += %s", v.Name, kf, g.operand(t.Elem, 1))
				}
				g.line("fmt.Println(\"ticks\", ticks)")
			} else if t.Elem.numeric() {
				g.meta.feat("mapopassign")
				g.line("%s[%s] += %s", v.Name, key, g.expr(t.Elem, 1))
			} else {
				g.line("%s[%s] = %s", v.Name, key, g.expr(t.Elem, 1))
			}
		}
	case t.K == "ptr":
		sd := g.structs[t.S]
		if len(sd.Fields) == 0 || v.MinLen == 0 {
			g.line("%s = %s", v.Name, g.lit(t))
			v.MinLen = 1
			break
		}
		f := sd.Fields[rx.Uniform(g.rt, len(sd.Fields), "fieldidx")]
		g.meta.feat("fieldset")
		switch {
		case f.T.numeric() && rapid.Bool().Draw(g.rt, "fieldop"):
			g.line("%s.%s += %s", v.Name, f.Name, g.expr(f.T, 1))
		case f.T.K == "ptr":
			g.line("%s.%s = %s", v.Name, f.Name, g.lit(f.T))
		case f.T.K == "slice":
			g.line("%s.%s = append(%s.%s, %s)", v.Name, f.Name, v.Name, f.Name, g.expr(f.T.Elem, 1))
		default:
			g.line("%s.%s = %s", v.Name, f.Name, g.expr(f.T, 2))
		}
	}
	g.show(v)
}

func (g *G) cond() string { return g.expr(tBool, 2) }

func (g *G) block(n int) {
	g.depth++
	g.push()
	g.stmts(n)
	g.pop()
	g.depth--
}

func (g *G) ifStmt() {
	g.meta.feat("if")
	if rx.Chance(g.rt, "ifinit", 1, 5) {
		g.meta.feat("ifinit")
		name := g.fresh("c")
		g.push()
		g.line("if %s := %s; %s > %s {", name, g.expr(tInt, 2), name, intLit(g))
		g.declare(&Var{Name: name, T: tInt, ReadOnly: true})
		g.block(rx.Range(g.rt, "nthen", 1, 3))
		if rapid.Bool().Draw(g.rt, "else") {
			g.line("} else {")
			g.block(rx.Range(g.rt, "nelse", 1, 2))
		}
		g.line("}")
		g.pop()
		return
	}
	g.line("if %s {", g.cond())
	g.block(rx.Range(g.rt, "nthen", 1, 3))
	for rx.Chance(g.rt, "elseif", 1, 4) && g.budget > 0 {
		g.meta.feat("elseif")
		g.line("} else if %s {", g.cond())
		g.block(rx.Range(g.rt, "nelif", 1, 2))
	}
	if rapid.Bool().Draw(g.rt, "else") {
		g.line("} else {")
		g.block(rx.Range(g.rt, "nelse", 1, 3))
	}
	g.line("}")
}

func (g *G) forStmt() {
	if g.inLoop >= 2 {
		g.assignStmt()
		return
	}
	g.inLoop++
	defer func() { g.inLoop-- }()
	switch rx.Weighted(g.rt, "forkind", 5, 2, 4, 2, 2) {
	case 0:
		g.meta.feat("for3")
		i := g.fresh("i")
		post := i + "++"
		switch rx.Uniform(g.rt, 6, "post") {
		case 4:
			g.meta.feat("constexpr")
			post = i + " += 2 - 1"
		case 5:
			g.meta.feat("constexpr")
			post = i + " += 1 + 1"
		case 1:
			post = i + " += 2"
		case 2:
			post = i + " = " + i + " + 1"
		}
		g.line("for %s := 0; %s < %d; %s {", i, i, rx.Range(g.rt, "bound", 1, 4), post)
		g.push()
		g.declare(&Var{Name: i, T: tInt, ReadOnly: true})
		g.loopBody()
		g.pop()
		g.line("}")
	case 1:
		g.meta.feat("forcond")
		c := g.fresh("n")
		g.line("%s := 0", c)
		g.declare(&Var{Name: c, T: tInt, ReadOnly: true})
		g.line("for %s < %d {", c, rx.Range(g.rt, "bound", 1, 4))
		g.depth++
		g.line("%s++", c)
		g.depth--
		g.loopBody()
		g.line("}")
	case 2:
		if v := g.pickVar("rangeslice", func(v *Var) bool { return v.T.K == "slice" && v.ReadOnly == false }); v != nil {
			g.meta.feat("rangeslice")
			k, e := g.fresh("k"), g.fresh("e")
			// the ranged slice is evaluated once; the body may append to it without changing the iteration.
			// slices grow in loops: range over at most the first four elements
			orig := v
			rsn := g.fresh("rs")
			g.line("%s := %s", rsn, orig.Name)
			g.line("if len(%s) > 4 {", rsn)
			g.line("\t%s = %s[:4]", rsn, rsn)
			g.line("}")
			v = &Var{Name: rsn, T: orig.T, ReadOnly: true}
			g.declare(v)
			switch rx.Uniform(g.rt, 3, "rangeform") {
			case 0:
				g.line("for %s, %s := range %s {", k, e, v.Name)
				g.push()
				g.declare(&Var{Name: k, T: tInt, ReadOnly: true})
				g.declare(&Var{Name: e, T: v.T.Elem, ReadOnly: true})
				g.depth++
				g.line("fmt.Println(\"r\", %s, %s)", k, e)
				g.depth--
			case 1:
				g.line("for _, %s := range %s {", e, v.Name)
				g.push()
				g.declare(&Var{Name: e, T: v.T.Elem, ReadOnly: true})
				g.depth++
				g.line("fmt.Println(\"r\", %s)", e)
				g.depth--
			default:
				g.line("for %s := range %s {", k, v.Name)
				g.push()
				g.declare(&Var{Name: k, T: tInt, ReadOnly: true})
				g.depth++
				g.line("fmt.Println(\"r\", %s)", k)
				g.depth--
			}
			g.loopBody()
			g.pop()
			g.line("}")
			return
		}
		g.assignStmt()
	case 3:
		g.meta.feat("rangestring")
		k, e := g.fresh("k"), g.fresh("e")
		// the ranged string is held in a variable: `range (a + b)` with a parenthesised operand is read as a call by goatlang's parser
		sv := g.fresh("rs")
		g.line("%s := %s", sv, g.expr(tString, 1))
		// strings grow in loops: bound the iteration count (cutting a rune in half is fine: range then yields U+FFFD)
		if rx.Chance(g.rt, "cutlead", 1, 3) {
			// drop the first bytes as well: what is left may start inside a rune, so that valid text follows bytes that
			// are not valid UTF-8 (each of those is one U+FFFD, one byte wide)
			g.line("if len(%s) > 2 {", sv)
			g.line("\t%s = %s[%d:]", sv, sv, rx.Range(g.rt, "leadcut", 1, 2))
			g.line("}")
		}
		g.line("if len(%s) > 4 {", sv)
		g.line("\t%s = %s[:4]", sv, sv)
		g.line("}")
		g.line("for %s, %s := range %s {", k, e, sv)
		g.push()
		g.declare(&Var{Name: k, T: tInt, ReadOnly: true})
		g.depth++
		g.line("fmt.Println(\"r\", %s, %s, string(%s))", k, e, e)
		g.depth--
		g.loopBody()
		g.pop()
		g.line("}")
	default:
		g.meta.feat("forever")
		c := g.fresh("n")
		g.line("%s := 0", c)
		g.declare(&Var{Name: c, T: tInt, ReadOnly: true})
		g.line("for {")
		g.depth++
		g.line("%s++", c)
		g.line("if %s > %d {", c, rx.Range(g.rt, "bound", 1, 3))
		g.line("\tbreak")
		g.line("}")
		g.depth--
		g.loopBody()
		g.line("}")
	}
}

func (g *G) loopBody() {
	g.depth++
	g.push()
	g.stmts(rx.Range(g.rt, "nbody", 1, 3))
	if rx.Chance(g.rt, "jump", 1, 3) {
		g.meta.feat("breakcontinue")
		g.line("if %s {", g.cond())
		g.line("\t%s", rx.Pick(g.rt, "jumpkind", "break", "continue"))
		g.line("}")
		g.stmts(1)
	}
	g.pop()
	g.depth--
}

func (g *G) switchStmt() {
	g.meta.feat("switch")
	tagless := rapid.Bool().Draw(g.rt, "tagless")
	var tagTy *Ty
	if tagless {
		g.line("switch {")
	} else {
		tagTy = rx.Pick(g.rt, "tagty", tInt, tInt, tString, tU8)
		if tagTy.K == "int" {
			g.line("switch %s %% 4 {", g.operand(tInt, 1))
		} else {
			g.line("switch %s {", g.operand(tagTy, 1))
		}
	}
	n := rx.Pick(g.rt, "ncases", 1, 2, 3, 1, 2, 0)
	defAt := -1
	if rx.Chance(g.rt, "hasdefault", 2, 3) || n == 0 {
		defAt = rx.Uniform(g.rt, n+1, "defpos")
	}
	if n == 0 {
		g.meta.feat("defaultonly") // a switch without case clauses: only the default block
	}
	used := map[string]bool{}
	for i := 0; i <= n; i++ {
		if i == defAt {
			g.line("default:")
			g.block(rx.Range(g.rt, "ndefault", 1, 2))
		}
		if i == n {
			break
		}
		if tagless {
			g.line("case %s:", g.cond())
		} else {
			var vals []string
			k := 1
			if rx.Chance(g.rt, "caselist", 1, 4) && !g.avoid("caselist") {
				k = 2
				g.meta.feat("caselist")
			}
			for j := 0; j < k; j++ {
				var val string
				for try := 0; try < 10; try++ {
					switch tagTy.K {
					case "int":
						val = fmt.Sprint(rx.Range(g.rt, "caseint", -3, 5))
					case "string":
						val = rx.Pick(g.rt, "casestr", `"a"`, `"go"`, `"hello"`, `""`, `"zz"`)
					default:
						val = rx.Pick(g.rt, "caseu8", "0", "1", "200", "255", "7", "97")
					}
					if !used[val] {
						break
					}
				}
				if used[val] {
					continue
				}
				used[val] = true
				vals = append(vals, val)
			}
			if len(vals) == 0 {
				continue
			}
			g.line("case %s:", strings.Join(vals, ", "))
		}
		if rx.Chance(g.rt, "emptycase", 1, 6) {
			continue
		}
		g.block(rx.Range(g.rt, "ncasebody", 1, 2))
	}
	g.line("}")
}

func (g *G) callStmt() {
	// call a generated function of a lower level
	var cands []*FuncDef
	lvl := 1 << 30
	if g.curFn != nil {
		lvl = g.curFn.Level
	}
	for _, f := range g.funcs {
		if f.Level < lvl {
			cands = append(cands, f)
		}
	}
	if len(cands) == 0 {
		g.assignStmt()
		return
	}
	f := cands[rx.Uniform(g.rt, len(cands), "callee")]
	g.meta.feat("call")
	var args []string
	for _, p := range f.Params {
		args = append(args, g.argFor(p.T))
	}
	if f.Variadic != nil {
		vt := &Ty{K: "slice", Elem: f.Variadic}
		switch rx.Uniform(g.rt, 5, "variadicform") {
		case 0: // no surplus argument
		case 1: // a slice is passed through
			if v := g.pickVar("spreadvar", func(v *Var) bool { return v.T.eq(vt) }); v != nil {
				args = append(args, v.Name+"...")
			} else {
				args = append(args, g.lit(vt)+"...")
			}
			g.meta.feat("variadicspread")
		default: // constants (untyped: they take the element type) and typed operands
			for k := rx.Range(g.rt, "nsurplus", 1, 3); k > 0; k-- {
				if rapid.Bool().Draw(g.rt, "surpluslit") {
					args = append(args, g.lit(f.Variadic))
				} else {
					args = append(args, g.expr(f.Variadic, 1))
				}
			}
		}
	}
	target := f.Name
	if f.Recv >= 0 {
		recvT := &Ty{K: "ptr", S: f.Recv}
		rv := g.pickVar("recv", func(v *Var) bool { return v.T.eq(recvT) && v.MinLen > 0 })
		if rv == nil {
			name := g.fresh("o")
			g.line("%s := %s", name, g.lit(recvT))
			rv = &Var{Name: name, T: recvT, MinLen: 1}
			g.declare(rv)
		}
		g.meta.feat("methodcall")
		target = rv.Name + "." + f.Name
		if rx.Chance(g.rt, "methodvalue", 1, 5) {
			g.meta.feat("methodvalue")
			mv := g.fresh("mv")
			g.line("%s := %s", mv, target)
			target = mv
		}
	} else if rx.Chance(g.rt, "funcvalue", 1, 6) {
		g.meta.feat("funcvalue")
		fv := g.fresh("fv")
		g.line("%s := %s", fv, target)
		target = fv
	}
	call := fmt.Sprintf("%s(%s)", target, strings.Join(args, ", "))
	switch len(f.Results) {
	case 0:
		g.line("%s", call)
	case 1:
		v := &Var{Name: g.fresh("r"), T: f.Results[0], MinLen: 0}
		if v.T.K == "ptr" {
			v.MinLen = 1
		}
		g.line("%s := %s", v.Name, call)
		g.declare(v)
		g.show(v)
	default:
		var names []string
		var vs []*Var
		for _, rt := range f.Results {
			v := &Var{Name: g.fresh("r"), T: rt}
			if v.T.K == "ptr" {
				v.MinLen = 1
			}
			names = append(names, v.Name)
			vs = append(vs, v)
		}
		g.meta.feat("multiresult")
		g.line("%s := %s", strings.Join(names, ", "), call)
		for _, v := range vs {
			g.declare(v)
			g.show(v)
		}
	}
}

func (g *G) argFor(t *Ty) string {
	switch t.K {
	case "ptr":
		if v := g.pickVar("ptrarg", func(v *Var) bool { return v.T.eq(t) && v.MinLen > 0 }); v != nil {
			return v.Name
		}
		return g.lit(t)
	case "slice", "map":
		return g.leaf(t)
	}
	return g.expr(t, 2)
}

func (g *G) commaOkStmt() {
	if v := g.pickVar("okmap", func(v *Var) bool { return v.T.K == "map" }); v != nil {
		g.meta.feat("commaok")
		key := fmt.Sprintf("%q", rx.Pick(g.rt, "okkey", "k1", "k2", "zz"))
		if v.T.Key == "int" {
			key = fmt.Sprint(rx.Range(g.rt, "okkeyi", 0, 4))
		}
		val, ok := g.fresh("val"), g.fresh("ok")
		g.line("%s, %s := %s[%s]", val, ok, v.Name, key)
		g.line("fmt.Println(\"t%d\", %s, %s)", g.id, val, ok)
		g.declare(&Var{Name: val, T: v.T.Elem})
		g.declare(&Var{Name: ok, T: tBool})
		return
	}
	g.declStmt()
}

// showAfterBlock prints a local that was declared before the block that just closed: its binding (and value) must
// be the outer one again.
func (g *G) showAfterBlock() {
	if v := g.pickVar("afterblock", func(v *Var) bool { return !v.Global && (g.shadowedNames[v.Name] || v.T.printable()) }); v != nil {
		if sv := g.pickVar("afterblockshadowed", func(v *Var) bool { return !v.Global && g.shadowedNames[v.Name] }); sv != nil {
			v = sv
		}
		g.show(v)
	}
}

func (g *G) stmt() {
	g.budget--
	g.meta.Stmts++
	w := []int{
		4 + g.p.Expr,   // declaration
		4 + g.p.Expr,   // assignment
		g.p.Control,    // if
		g.p.Control,    // for
		g.p.Control,    // switch
		2 + g.p.Struct, // call
		g.p.Container,  // comma-ok
	}
	if g.depth >= 3 {
		w[2], w[3], w[4] = w[2]/3, 0, w[4]/3
	}
	switch rx.Weighted(g.rt, "stmt", w...) {
	case 0:
		g.declStmt()
	case 1:
		g.assignStmt()
	case 2:
		g.ifStmt()
		g.showAfterBlock()
	case 3:
		g.forStmt()
		g.showAfterBlock()
	case 4:
		g.switchStmt()
		g.showAfterBlock()
	case 5:
		g.callStmt()
	default:
		g.commaOkStmt()
	}
}

// tupleBlock emits assignments with several targets, some of them elements of a slice or a map, some of them the
// same place twice, some of them the variable another target's index reads: Go evaluates the index operands on the left
// and the values on the right first, then assigns left to right. Nothing on the right reads ticks (the order of a
// variable read and a call in one statement is not specified), and the index variables stay inside the slice.
func (g *G) tupleBlock() {
	g.meta.feat("tupleblock")
	g.line("ts := []int{1, 2, 3, 4}")
	g.line("tm := map[int]int{0: 10, 1: 11}")
	g.line("ti, tj := 0, 1")
	places := []string{"ti", "tj", "ts[ti]", "ts[tj]", "ts[0]", "ts[1]", "ts[3]", "tm[ti]", "tm[tj]", "tm[0]", "tm[2]",
		"ts[idx(tick(), len(ts))]", "pickInts(ts)[tj]", "pickMap(tm)[ti]", "_"}
	values := []string{"ti", "tj", "ts[0]", "ts[ti]", "tm[0]", "tm[tj]", "tick()", "ti + 1", "ts[tj] * 2", "len(tm)", "7", "-3"}
	for n, k := 0, rx.Range(g.rt, "ntuples", 2, 5); n < k; n++ {
		w := rx.Range(g.rt, "tuplewidth", 1, 3) // one target: a call in the index runs before a call on the right
		var lhs, rhs []string
		blanks := 0
		for i := 0; i < w; i++ {
			pl := places[rx.Uniform(g.rt, len(places), "tupleplace")]
			if i > 0 && rx.Chance(g.rt, "tuplesame", 1, 4) {
				pl = lhs[rx.Uniform(g.rt, len(lhs), "tuplewhich")] // the same place again
			}
			if pl == "_" {
				blanks++
			}
			val := values[rx.Uniform(g.rt, len(values), "tupleval")]
			if pl == "ti" || pl == "tj" {
				val = "idx(" + val + ", len(ts))"
			}
			lhs, rhs = append(lhs, pl), append(rhs, val)
		}
		if blanks == w {
			lhs[0] = "ts[ti]"
		}
		if w == 1 {
			lhs[0], rhs[0] = rx.Pick(g.rt, "singleplace", "ts[idx(tick(), len(ts))]", "pickInts(ts)[tj]", "pickMap(tm)[tick()]", "tm[tick()]"), rx.Pick(g.rt, "singleval", "tick()", "tick() * 10", "ti + tick()")
		}
		g.line("%s = %s", strings.Join(lhs, ", "), strings.Join(rhs, ", "))
		g.line("fmt.Println(\"tuple\", ti, tj, ts, len(tm), tm[0], tm[1], tm[2], tm[3])")
	}
	g.line("fmt.Println(\"tuple ticks\", ticks)")
}

// ---- top level --------------------------------------------------------------------------------

func (g *G) genStruct(i int) {
	sd := &StructDef{}
	n := rx.Range(g.rt, "nfields", 1, 5)
	for j := 0; j < n; j++ {
		var t *Ty
		switch rx.Weighted(g.rt, "fieldty", 8, 2, 1, 1) {
		case 0:
			t = g.scalarTy()
		case 1:
			t = &Ty{K: "slice", Elem: rx.Pick(g.rt, "felem", tInt, tString)}
		case 2:
			t = &Ty{K: "map", Key: "string", Elem: tInt}
		default:
			t = &Ty{K: "ptr", S: rx.Uniform(g.rt, i+1, "fieldstruct")}
		}
		sd.Fields = append(sd.Fields, &Var{Name: fmt.Sprintf("F%d", j), T: t})
	}
	g.structs = append(g.structs, sd)
}

func (g *G) genFunc(out *strings.Builder, level int) {
	f := &FuncDef{Name: fmt.Sprintf("fn%d", level), Recv: -1, Level: level}
	if len(g.structs) > 0 && rx.Weighted(g.rt, "ismethod", 6, g.p.Struct) == 1 {
		f.Recv = rx.Uniform(g.rt, len(g.structs), "recvstruct")
		f.Name = fmt.Sprintf("Meth%d", level)
	}
	np := rx.Range(g.rt, "nparams", 0, 3)
	for i := 0; i < np; i++ {
		t := g.anyTy(true)
		p := &Var{Name: fmt.Sprintf("p%d", i), T: t}
		if t.K == "ptr" {
			p.MinLen = 1 // callers always pass non-nil references
		}
		f.Params = append(f.Params, p)
	}
	if rx.Chance(g.rt, "variadic", 1, 4) {
		f.Variadic = rx.Pick(g.rt, "variadicty", tInt, tF64, tU8, tF64)
		g.meta.feat("variadicfn")
	}
	nr := rx.Weighted(g.rt, "nresults", 2, 5, 2)
	for i := 0; i < nr; i++ {
		f.Results = append(f.Results, g.anyTyResult())
	}
	// body
	save := g.sb
	g.sb = &strings.Builder{}
	g.scopes = nil
	g.push()
	for _, p := range f.Params {
		g.declare(p)
	}
	if f.Recv >= 0 {
		g.declare(&Var{Name: "s", T: &Ty{K: "ptr", S: f.Recv}, MinLen: 1, ReadOnly: true})
	}
	g.curFn = f
	g.depth = 0
	g.line("fmt.Println(\"enter %s\")", f.Name)
	if f.Variadic != nil {
		// the surplus arguments arrive with the declared element type, whatever constants the caller wrote
		g.declare(&Var{Name: "vs", T: &Ty{K: "slice", Elem: f.Variadic}, ReadOnly: true})
		g.line("for _, v := range vs {")
		g.line("\tfmt.Println(\"v\", v, v/2, v+100)")
		g.line("}")
	}
	g.stmts(rx.Range(g.rt, "nfnstmts", 1, 6))
	if nr > 0 {
		var rs []string
		for _, rt := range f.Results {
			rs = append(rs, g.retExpr(rt))
		}
		g.line("return %s", strings.Join(rs, ", "))
	}
	body := g.sb.String()
	g.sb = save
	g.pop()
	g.curFn = nil
	var ps []string
	for _, p := range f.Params {
		ps = append(ps, p.Name+" "+p.T.String())
	}
	if f.Variadic != nil {
		ps = append(ps, "vs ..."+f.Variadic.String())
	}
	var rs []string
	for _, rt := range f.Results {
		rs = append(rs, rt.String())
	}
	res := ""
	if len(rs) == 1 {
		res = " " + rs[0]
	} else if len(rs) > 1 {
		res = " (" + strings.Join(rs, ", ") + ")"
	}
	recv := ""
	if f.Recv >= 0 {
		recv = fmt.Sprintf("(s *S%d) ", f.Recv)
	}
	fmt.Fprintf(out, "func %s%s(%s)%s {\n%s}\n\n", recv, f.Name, strings.Join(ps, ", "), res, body)
	g.funcs = append(g.funcs, f)
}

func (g *G) anyTyResult() *Ty {
	t := g.anyTy(true)
	return t
}

func (g *G) retExpr(t *Ty) string {
	switch t.K {
	case "ptr":
		if v := g.pickVar("retptr", func(v *Var) bool { return v.T.eq(t) && v.MinLen > 0 }); v != nil {
			return v.Name
		}
		return g.lit(t)
	case "slice", "map":
		return g.leaf(t)
	}
	e := g.expr(t, 2)
	return e
}

// Program generates one program.
func Program(rt *rapid.T, p Profile) (*oracle.Program, *Meta) {
	g := &G{rt: rt, p: p, meta: &Meta{Profile: p.Name, Features: map[string]int{}}}
	g.budget = rx.Range(rt, "budget", 8, p.MaxStmts)
	var top strings.Builder
	// struct types
	ns := 0
	if p.Struct > 0 {
		ns = rx.Range(rt, "nstructs", 0, 1+p.Struct/4)
	}
	for i := 0; i < ns; i++ {
		g.genStruct(i)
	}
	for i, sd := range g.structs {
		fmt.Fprintf(&top, "type S%d struct {\n", i)
		for _, f := range sd.Fields {
			fmt.Fprintf(&top, "\t%s %s\n", f.Name, f.T)
		}
		top.WriteString("}\n\n")
	}
	// constants (an iota block) and package-level variables
	top.WriteString("const (\n\tCA = iota\n\tCB\n\tCC\n)\n\nconst limit = 1000\n\n")
	pairs := rx.Chance(rt, "constpairs", 1, 2)
	if pairs {
		// specs with several names: iota counts specs, and a spec without values repeats the whole previous list
		g.meta.feat("constpairs")
		top.WriteString("const (\n\tPA, PB = iota, iota * 10\n\tPC, PD\n\tPE, PF\n\tPG, PH, PI = iota + 1, \"s\", iota << 1\n\tPJ, PK, PL\n)\n\n")
	}
	top.WriteString("var bi, bi8, bu8, bu32, bf, bs, bb = 6, int8(-5), uint8(250), uint32(4000000001), 2.5, \"base\", true\n\n")
	for k, n := range baseVar {
		g.globals = append(g.globals, &Var{Name: n, T: &Ty{K: k}, Global: true})
	}
	sort.Slice(g.globals, func(a, b int) bool { return g.globals[a].Name < g.globals[b].Name })
	g.sb = &strings.Builder{}
	g.scopes = nil
	g.push()
	ng := rx.Range(rt, "nglobals", 1, 4)
	for i := 0; i < ng; i++ {
		t := g.scalarTy()
		name := fmt.Sprintf("g%d", i)
		fmt.Fprintf(&top, "var %s %s = %s\n", name, t, g.lit(t))
		g.globals = append(g.globals, &Var{Name: name, T: t, Global: true})
	}
	g.globals = append(g.globals, &Var{Name: "CB", T: tInt, ReadOnly: true, Global: true}, &Var{Name: "limit", T: tInt, ReadOnly: true, Global: true})
	if rx.Chance(rt, "gslice", 1, 2) {
		fmt.Fprintf(&top, "var gs = []int{4, 5, 6}\n")
		g.globals = append(g.globals, &Var{Name: "gs", T: &Ty{K: "slice", Elem: tInt}, MinLen: 3, Global: true, ReadOnly: true})
	}
	if rx.Chance(rt, "gmap", 1, 2) {
		fmt.Fprintf(&top, "var gm = map[string]int{\"k1\": 1}\n")
		g.globals = append(g.globals, &Var{Name: "gm", T: &Ty{K: "map", Key: "string", Elem: tInt}, Global: true})
	}
	// initialisers whose order is observable: each notes its name in a log as it runs (declaration order, here and in Go:
	// none of them refers to a later one)
	noteLog := false
	if rx.Chance(rt, "initnotes", 1, 2) {
		noteLog = true
		g.meta.feat("initnotes")
		top.WriteString("var initLog string\n")
		for i, k := 0, rx.Range(rt, "nnotes", 2, 4); i < k; i++ {
			fmt.Fprintf(&top, "var n%d int = note(\"n%d\", %d)\n", i, i, rx.Range(rt, "noteval", 1, 9))
			g.globals = append(g.globals, &Var{Name: fmt.Sprintf("n%d", i), T: tInt, Global: true, ReadOnly: true})
		}
		top.WriteString("\nfunc note(s string, v int) int {\n\tinitLog += s + \";\"\n\treturn v + len(initLog)\n}\n")
	}
	top.WriteString("\n")
	top.WriteString("var ticks int\n\nfunc tick() int {\n\tticks++\n\treturn ticks\n}\n\nfunc tkey() string {\n\tticks++\n\treturn \"k1\"\n}\n\nfunc ikey() int {\n\tticks++\n\treturn 1\n}\n\nfunc fkey() float64 {\n\tticks++\n\treturn 1.5\n}\n\nfunc tzero() int {\n\tticks++\n\treturn 0\n}\n\nfunc pickInts(s []int) []int {\n\tticks++\n\treturn s\n}\n\nfunc pickMap(m map[int]int) map[int]int {\n\tticks++\n\treturn m\n}\n\n")
	top.WriteString("func idx(i int, n int) int {\n\tif n <= 0 {\n\t\treturn 0\n\t}\n\ti = i % n\n\tif i < 0 {\n\t\ti += n\n\t}\n\treturn i\n}\n\n")
	// functions of increasing level
	nf := rx.Range(rt, "nfuncs", 0, 4)
	for i := 0; i < nf; i++ {
		g.genFunc(&top, i)
	}
	// a function with a function-local struct type, which may carry the name of a package-level struct type (it shadows
	// that type inside this function only)
	localFn := ""
	if rx.Chance(rt, "localtype", 1, 3) {
		tn := "Loc"
		if len(g.structs) > 0 && rapid.Bool().Draw(rt, "shadowtype") {
			tn = fmt.Sprintf("S%d", rx.Uniform(rt, len(g.structs), "shadowedtype"))
		}
		g.meta.feat("localtype")
		localFn = "localType"
		fmt.Fprintf(&top, "func localType(a int) int {\n\ttype %s struct {\n\t\tQ int\n\t\tR string\n\t}\n\tv := &%s{Q: a, R: \"loc\"}\n\tv.Q += len(v.R)\n\tw := &%s{}\n\tw.R = v.R + \"!\"\n\treturn v.Q*10 + len(w.R)\n}\n\n", tn, tn, tn)
	}
	// package-level functions that carry the name of a builtin function (legal Go: the package scope shadows the
	// universe scope, wherever in the package the declaration stands); they behave unlike the builtins
	shadowCall := ""
	if rx.Chance(rt, "shadowbuiltin", 1, 4) {
		g.meta.feat("shadowbuiltin")
		switch rx.Uniform(rt, 3, "whichbuiltin") {
		case 0:
			top.WriteString("func println(a int) int {\n\treturn a*100 + 1\n}\n\nfunc useShadow(a int) int {\n\treturn println(a) + 2\n}\n\n")
			shadowCall = "fmt.Println(\"shadow\", println(4), useShadow(bi))"
		case 1:
			top.WriteString("func max(a int, b int) int {\n\tif a > b {\n\t\treturn a + 1000\n\t}\n\treturn b + 2000\n}\n\nfunc useShadow(a int) int {\n\treturn max(a, 3) + 2\n}\n\n")
			shadowCall = "fmt.Println(\"shadow\", max(4, bi), useShadow(bi))"
		default:
			top.WriteString("func min(xs []int) int {\n\treturn len(xs) + 500\n}\n\nfunc print(s string) string {\n\treturn \"<\" + s + \">\"\n}\n\nfunc useShadow(a int) int {\n\treturn min([]int{a, a}) + len(print(\"ab\"))\n}\n\n")
			shadowCall = "fmt.Println(\"shadow\", min([]int{1, 2, 3}), print(bs), useShadow(bi))"
		}
	}
	// a package-level function variable called from one site before and after it is rebound, and a function-typed
	// parameter that carries the name of a package-level function (the parameter wins inside that function only)
	hookCall := ""
	if rx.Chance(rt, "hookvar", 1, 3) {
		g.meta.feat("hookvar")
		top.WriteString("var hook = hookA\n\nfunc hookA(a int) int {\n\treturn a + 1\n}\n\nfunc hookB(a int) int {\n\treturn a * 10\n}\n\nfunc viaHook(a int) int {\n\treturn hook(a) + 1000\n}\n\n")
		top.WriteString("func twice(a int) int {\n\treturn a * 2\n}\n\nfunc viaTwice(a int) int {\n\treturn twice(a) + 1\n}\n\nfunc applyTwice(twice func(int) int, a int) int {\n\treturn twice(a) + viaTwice(a)\n}\n\n")
		hookCall = "fmt.Println(\"hook\", viaHook(2), hook(3))\n\thook = hookB\n\tfmt.Println(\"hook\", viaHook(2), hook(3))\n\tfor hi := 0; hi < 3; hi++ {\n\t\tif hi == 1 {\n\t\t\thook = hookA\n\t\t}\n\t\tfmt.Println(\"hook\", hi, hook(hi), viaHook(hi))\n\t}\n\tfmt.Println(\"shadowfn\", applyTwice(hookB, 3), applyTwice(twice, 4), viaTwice(5))"
	}
	// a struct type whose fields are of named number types declared after it: the fields start as the zero value of
	// those types and keep their arithmetic
	if rx.Chance(rt, "latetype", 1, 3) {
		g.meta.feat("latetype")
		top.WriteString("type Holder struct {\n\tC Degree\n\tK Small\n}\n\ntype Degree float64\n\ntype Small uint8\n\nfunc holderDemo(a int) string {\n\th := &Holder{}\n\th.C += 0.5\n\th.K += 255\n\th.K += Small(a)\n\treturn fmt.Sprint(h.C+0.5, h.K, h.K/2)\n}\n\n")
		hookCall += "\n\tfmt.Println(\"latetype\", holderDemo(2))"
	}
	// init and Main
	var mainBody strings.Builder
	g.sb = &mainBody
	g.scopes = nil
	g.push()
	g.depth = 0
	g.curFn = nil
	g.line("fmt.Println(\"start\", CA, CB, CC, limit)")
	if pairs {
		g.line("fmt.Println(\"pairs\", PA, PB, PC, PD, PE, PF, PG, PH, PI, PJ, PK, PL)")
	}
	if rapid.Bool().Draw(g.rt, "anyblock") {
		// values of type any compared with nil, whatever they hold
		g.meta.feat("anyblock")
		g.line("var av any = bs")
		g.line("fmt.Println(\"any\", av == nil, nil == av, av != nil)")
		g.line("av = bf")
		g.line("fmt.Println(\"any\", av == nil, nil != av)")
		g.line("av = nil")
		g.line("fmt.Println(\"any\", av == nil, nil == av)")
	}
	if rapid.Bool().Draw(g.rt, "sideblock") {
		// op-assignments whose container and index (or key) are both calls, plain and under a conversion: each
		// operand is evaluated once, left to right
		g.meta.feat("sideblock")
		g.line("sd := []int{5, 6, 7}")
		g.line("pickInts(sd)[idx(tick(), len(sd))] += 10")
		g.line("pickInts(sd)[int(tzero())]++")
		g.line("sm := map[int]int{1: 1}")
		g.line("pickMap(sm)[int(ikey())] += 5")
		g.line("pickMap(sm)[ikey()+1]++")
		g.line("fmt.Println(\"side\", ticks, sd, len(sm), sm[1], sm[2])")
	}
	if rapid.Bool().Draw(g.rt, "tupleblock") {
		g.tupleBlock()
	}
	if noteLog {
		g.line("fmt.Println(\"notes\", initLog)")
	}
	if localFn != "" {
		g.line("fmt.Println(\"local\", localType(bi))")
	}
	if shadowCall != "" {
		g.line("%s", shadowCall)
	}
	if hookCall != "" {
		g.line("%s", hookCall)
	}
	g.stmts(1 << 20)
	if localFn != "" {
		g.line("fmt.Println(\"local\", localType(3))")
	}
	for _, gv := range g.globals {
		if !gv.ReadOnly {
			g.show(gv)
		}
	}
	if p.Panics && rx.Chance(rt, "plantpanic", 1, 4) {
		kind := rx.Pick(rt, "panickind", "index", "nilmap", "divzero", "explicit", "nilstruct")
		if len(g.structs) == 0 && kind == "nilstruct" {
			kind = "explicit"
		}
		g.meta.Panics = kind
		switch kind {
		case "index":
			g.line("pz := []int{1, 2}\n\tpi := 5\n\tfmt.Println(pz[pi])")
		case "nilmap":
			g.line("var pm map[string]int\n\tpm[\"a\"] = 1")
		case "divzero":
			g.line("pd := 0\n\tfmt.Println(10 / pd)")
		case "explicit":
			g.line("panic(\"boom\")")
		case "nilstruct":
			g.line("var pn *S0\n\tfmt.Println(pn.F0)")
		}
		g.line("fmt.Println(\"unreachable\")")
	} else {
		g.line("fmt.Println(\"done\")")
	}
	g.pop()
	// init functions run when the Go process starts, i.e. outside the oracle's per-program output frame: they
	// record into package-level state which Main prints
	src := top.String() + "var initRan int\n\nfunc init() {\n\tinitRan = bi + 100\n}\n\nfunc Main() {\n\tfmt.Println(\"init\", initRan)\n" + mainBody.String() + "}\n"
	imports := []string{"fmt"}
	for _, pkg := range []string{"math", "strconv", "strings"} {
		if strings.Contains(src, pkg+".") {
			imports = append(imports, pkg)
		}
	}
	files := map[string]string{}
	if p.MultiPkg {
		if strings.Contains(src, "util.") {
			imports = append(imports, "ROOT/lib/util")
		}
		if strings.Contains(src, "more.") {
			imports = append(imports, "ROOT/lib/more")
		}
		k := rx.Range(rt, "libconst", 2, 9)
		files["lib/more/more.go"] = fmt.Sprintf("package more\n\nvar Count = %d\n\nfunc init() {\n\tCount += 10\n}\n\nfunc Bump() int {\n\tCount++\n\treturn Count\n}\n", k)
		files["lib/util/util.go"] = fmt.Sprintf("package util\n\nimport \"ROOT/lib/more\"\n\nconst Scale = %d\n\nvar State = more.Count * 2\n\nfunc init() {\n\tState += Scale\n}\n\nfunc Twice(a int) int {\n\treturn a * 2\n}\n\nfunc Next() int {\n\treturn more.Bump()\n}\n", k+1)
		files["lib/util/point.go"] = "package util\n\ntype Point struct {\n\tX, Y int\n}\n\nfunc (p *Point) Sum() int {\n\treturn p.X + p.Y\n}\n\nfunc NewPoint(x int, y int) *Point {\n\treturn &Point{X: x, Y: y}\n}\n\nfunc Tag(s string) string {\n\treturn \"<\" + s + \">\"\n}\n\nfunc Half(f float64) float64 {\n\treturn f / 2\n}\n"
		g.meta.feat("multipkg")
		// further packages whose initialisation is observable: each notes its variable initialiser and its init
		// function in lib/rec's log, which Main prints. Go initialises packages in a specified order (sorted by import
		// path, repeatedly the first one whose imports are all initialised), so the log is the same everywhere.
		if rx.Chance(rt, "initorder", 2, 3) {
			g.meta.feat("initorder")
			pool := []string{"lib/alpha", "lib/beta", "lib/gamma", "lib/delta", "zeta", "lib/x/omega", "aaa"}
			perm := rapid.Permutation(pool).Draw(rt, "pkgperm")
			names := perm[:rx.Range(rt, "nextra", 2, 5)]
			files["lib/rec/rec.go"] = "package rec\n\nvar Log = \"\"\n\nfunc Note(s string) int {\n\tLog += s + \";\"\n\treturn len(Log)\n}\n"
			imports = append(imports, "ROOT/lib/rec")
			var ids []string
			for i, path := range names {
				base := path[strings.LastIndex(path, "/")+1:]
				var sb strings.Builder
				fmt.Fprintf(&sb, "package %s\n\nimport \"ROOT/lib/rec\"\n", base)
				id := "1"
				for j := i + 1; j < len(names); j++ {
					if rx.Chance(rt, "edge", 1, 2) {
						dep := names[j]
						fmt.Fprintf(&sb, "import \"ROOT/%s\"\n", dep)
						id += " + " + dep[strings.LastIndex(dep, "/")+1:] + ".ID()"
					}
				}
				fmt.Fprintf(&sb, "\nvar V = rec.Note(\"%s.var\")\n\nfunc init() {\n\trec.Note(\"%s.init\")\n}\n\nfunc ID() int {\n\treturn %s\n}\n", base, base, id)
				files[path+"/"+base+".go"] = sb.String()
				imports = append(imports, "ROOT/"+path)
				ids = append(ids, base+".ID()")
			}
			src = strings.Replace(src, "func Main() {\n", "func Main() {\n\tfmt.Println(\"initlog\", rec.Log, "+strings.Join(ids, ", ")+")\n", 1)
		}
	}
	hdr := "package prog\n\nimport (\n"
	for _, im := range imports {
		hdr += "\t\"" + im + "\"\n"
	}
	hdr += ")\n\n"
	if rx.Chance(rt, "relayout", 1, 3) {
		// the same token sequence, spread over more lines (see Relayout)
		g.meta.feat("relayout")
		src = Relayout(rt, src, 1, rx.Pick(rt, "breakrate", 3, 8, 20))
	}
	files["prog.go"] = hdr + src
	prog := &oracle.Program{Files: files}
	return prog, g.meta
}
