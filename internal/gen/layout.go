package gen

import (
	"go/scanner"
	"go/token"
	"strings"

	"pgregory.net/rapid"

	"verif/internal/rx"
)

// Relayout spreads statements over several lines the way gofmt leaves long ones: a line may end after a comma, after
// a binary or assignment operator, and after the opening parenthesis of a call with arguments or the bracket of an index - places where Go's
// semicolon insertion does nothing. The token sequence, hence the program, is unchanged. About one permitted place in
// num/den is taken.
func Relayout(rt *rapid.T, src string, num, den int) string {
	type tk struct {
		off int
		tok token.Token
		txt string
		nl  bool // an automatically inserted semicolon (line end)
	}
	var sc scanner.Scanner
	fset := token.NewFileSet()
	f := fset.AddFile("", fset.Base(), len(src))
	sc.Init(f, []byte(src), nil, scanner.ScanComments)
	var toks []tk
	for {
		pos, tok, lit := sc.Scan()
		if tok == token.EOF {
			break
		}
		t := tk{off: fset.Position(pos).Offset, tok: tok, txt: lit}
		if tok == token.SEMICOLON && lit == "\n" {
			t.nl = true
		} else if lit == "" {
			t.txt = tok.String()
		}
		toks = append(toks, t)
	}
	var sb strings.Builder
	last := 0
	prevOperand := false
	inHeader := false // import and package clauses, function signatures, type declarations are left alone
	for i, t := range toks {
		if t.nl {
			prevOperand = false
			inHeader = false
			continue
		}
		sb.WriteString(src[last:t.off])
		sb.WriteString(t.txt)
		last = t.off + len(t.txt)
		switch t.tok {
		case token.IMPORT, token.PACKAGE, token.FUNC, token.TYPE, token.STRUCT, token.INTERFACE:
			inHeader = true
		case token.LBRACE:
			if inHeader {
				inHeader = false
			}
		}
		isOperand := t.tok == token.IDENT || t.tok.IsLiteral() || t.tok == token.RPAREN || t.tok == token.RBRACK || t.tok == token.RBRACE
		var next token.Token = token.EOF
		if i+1 < len(toks) {
			next = toks[i+1].tok
		}
		breakable := false
		switch {
		case inHeader:
		case next == token.SEMICOLON || next == token.EOF || next == token.RPAREN || next == token.RBRACK || next == token.RBRACE:
		case t.tok == token.COMMA:
			breakable = true
		case t.tok == token.LPAREN:
			breakable = prevOperand // a call, not a parenthesised expression
		case t.tok == token.LBRACK:
			breakable = prevOperand // an index or slice expression (a slice type's bracket follows no operand or is closed at once)
		case t.tok == token.LBRACE:
		case t.tok == token.INC || t.tok == token.DEC || t.tok == token.ELLIPSIS || t.tok == token.PERIOD || t.tok == token.COLON || t.tok == token.ARROW || t.tok == token.NOT || t.tok == token.TILDE:
		case t.tok.IsOperator() && prevOperand && t.tok != token.RPAREN && t.tok != token.RBRACK && t.tok != token.RBRACE && t.tok != token.SEMICOLON:
			breakable = true // binary and assignment operators (define, assign, op-assign)
		}
		if breakable && rx.Chance(rt, "linebreak", num, den) {
			sb.WriteString("\n\t\t\t")
		}
		prevOperand = isOperand
	}
	sb.WriteString(src[last:])
	return sb.String()
}
