// Package diffgo is the differential engine shared by the checks whose oracle is the Go toolchain: it runs a
// program through goatlang (Load + call of Main) and compares with the memoised result of the 386 Go build,
// and it implements the record/check two-pass scheme that lets rapid-generated programs be compiled in batches.
package diffgo

import (
	"fmt"
	"strings"
	"testing"

	"pgregory.net/rapid"

	"verif/internal/ev"
	"verif/internal/goat"
	"verif/internal/oracle"
)

var O = oracle.New()

// GoatRun loads the program's root package into a fresh VM and calls its Main.
func GoatRun(p *oracle.Program, budget int64) goat.Result {
	files := map[string]string{}
	for n, c := range p.Resolved() {
		files["batch/"+n] = c
	}
	return goat.RunProgram(files, p.Root(), p.Root()+".Main", budget)
}

// Verdict of comparing one program.
type Verdict struct {
	OK   bool
	Skip string // not comparable (Go rejected it, budget exhausted, ...): counted, never a violation
	Msg  string
	Go   *oracle.Result
	Goat goat.Result
}

// Compare applies C01's comparison: identical stdout; if Go panicked, identical stdout up to the panic and an error
// from goatlang; otherwise no error.
func Compare(p *oracle.Program, budget int64) Verdict {
	res, err := O.Get(p)
	if err != nil {
		return Verdict{Skip: "oracle failure: " + err.Error()}
	}
	if res.Rejected {
		return Verdict{Skip: "go_rejected", Msg: res.RejectMsg, Go: res}
	}
	if res.Crashed {
		return Verdict{Skip: "go_crashed", Go: res}
	}
	g := GoatRun(p, budget)
	v := Verdict{Go: res, Goat: g}
	if g.Budget {
		// The instruction budget is a deterministic bound, not a clock. Generated programs bound every loop by
		// construction; when the Go toolchain has run the program to completion with modest output and goatlang is still
		// running after twenty times the usual budget, a loop or a recursion does not reach the end Go reaches.
		g = GoatRun(p, budget*20)
		v.Goat = g
		if g.Budget {
			if !res.Panicked && len(res.Stdout) < 1<<20 {
				v.Msg = fmt.Sprintf("Go runs the program to completion (%d bytes of output); goatlang is still running after %d instructions", len(res.Stdout), budget*20)
				return v
			}
			v.Skip = "budget"
			return v
		}
	}
	switch {
	case g.Panic != nil:
		v.Msg = fmt.Sprintf("a Go panic escaped goatlang: %v", g.Panic)
	case res.Panicked && g.Err == nil:
		v.Msg = fmt.Sprintf("Go dies with a run-time panic (%s); goatlang returned no error", res.PanicMsg)
	case !res.Panicked && g.Err != nil:
		v.Msg = "Go runs to completion; goatlang failed: " + g.Err.Error()
	case g.Stdout != res.Stdout:
		v.Msg = "output differs: " + FirstDiff(g.Stdout, res.Stdout)
	default:
		v.OK = true
	}
	return v
}

// FirstDiff describes the first differing line.
func FirstDiff(got, want string) string {
	g, w := strings.Split(got, "\n"), strings.Split(want, "\n")
	for i := 0; i < len(g) || i < len(w); i++ {
		var gl, wl string
		if i < len(g) {
			gl = g[i]
		} else {
			gl = "<end of output>"
		}
		if i < len(w) {
			wl = w[i]
		} else {
			wl = "<end of output>"
		}
		if gl != wl {
			return fmt.Sprintf("line %d: goatlang %q, Go %q", i+1, gl, wl)
		}
	}
	return "no difference"
}

// Show renders the program and both outputs for a failure message.
func Show(p *oracle.Program, v Verdict) string {
	var sb strings.Builder
	names := make([]string, 0, len(p.Files))
	for n := range p.Files {
		names = append(names, n)
	}
	sortStrings(names)
	for _, n := range names {
		fmt.Fprintf(&sb, "--- %s\n%s", n, p.Files[n])
	}
	if v.Go != nil {
		fmt.Fprintf(&sb, "--- Go output (panicked=%v %s)\n%s", v.Go.Panicked, v.Go.PanicMsg, clip(v.Go.Stdout))
	}
	fmt.Fprintf(&sb, "--- goatlang output (error: %s)\n%s", v.Goat.ErrString(), clip(v.Goat.Stdout))
	return sb.String()
}

func clip(s string) string {
	if len(s) > 3000 {
		return s[:1500] + "\n…\n" + s[len(s)-1500:]
	}
	return s
}

func sortStrings(s []string) {
	for i := 1; i < len(s); i++ {
		for j := i; j > 0 && s[j] < s[j-1]; j-- {
			s[j], s[j-1] = s[j-1], s[j]
		}
	}
}

// TwoPass runs a rapid property whose cases need the Go toolchain: a first pass with the same seed only records the
// programs the generator produces (the property passes), they are compiled and run in one batch, then the real
// pass regenerates the identical sequence and finds every program memoised. Programs produced while rapid
// shrinks a failure are compiled one at a time.
func TwoPass[C any](t *testing.T, gen func(rt *rapid.T) C, progs func(c C) []*oracle.Program, check func(c C) *ev.Failure) {
	r := ev.R()
	var rec []*oracle.Program
	r.Freeze(true)
	rapid.Check(t, func(rt *rapid.T) {
		c := gen(rt)
		rec = append(rec, progs(c)...)
	})
	r.Freeze(false)
	if t.Failed() {
		r.Infra("record pass of the two-pass scheme failed")
		return
	}
	if err := O.Fill(rec); err != nil {
		r.Infra("Go oracle: %v", err)
		t.Fatalf("oracle: %v", err)
	}
	r.Note("oracle: %d programs compiled with GOARCH=386 in %d build(s), %.1fs", len(rec), O.Builds, O.BuildS)
	r.RapidCheck(t, func(rt *rapid.T) *ev.Failure {
		return check(gen(rt))
	})
}
