// Command warm only exists to pull the standard-library packages generated programs use into the
// GOARCH=386 build cache that setup.sh prepares for the oracle.
package main

import (
	"errors"
	"fmt"
	"math"
	"os"
	"sort"
	"strconv"
	"strings"
)

func main() {
	fmt.Println(strings.ToUpper("x"), strconv.Itoa(1), math.Sqrt(4), errors.New("e"), sort.IntsAreSorted(nil), len(os.Args))
}
