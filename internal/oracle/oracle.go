// Package oracle runs generated programs through the real Go toolchain (GOARCH=386, so that int is 32 bits,
// which is goatlang's reading of int) and memoises what they print. Programs are compiled in batches: every
// program becomes a package with an exported Main, a generated driver calls them one after another under
// recover and frames their output.
package oracle

import (
	"bytes"
	"context"
	"crypto/sha256"
	"encoding/hex"
	"fmt"
	"os"
	"os/exec"
	"path/filepath"
	"regexp"
	"sort"
	"strings"
	"sync"
	"time"
)

// Program is a set of files relative to the program's root. The root package (files directly in the root) is
// `package prog` and defines `func Main()`. Imports of the program's own sub-packages are written as
// "ROOT/sub/pkg"; ROOT is replaced by the program's import path on both sides.
type Program struct {
	Files map[string]string
	key   string
}

// Key is a stable identifier of the program's content.
func (p *Program) Key() string {
	if p.key != "" {
		return p.key
	}
	var names []string
	for n := range p.Files {
		names = append(names, n)
	}
	sort.Strings(names)
	h := sha256.New()
	for _, n := range names {
		h.Write([]byte(n))
		h.Write([]byte{0})
		h.Write([]byte(p.Files[n]))
		h.Write([]byte{0})
	}
	p.key = "q" + hex.EncodeToString(h.Sum(nil))[:16]
	return p.key
}

// Root is the import path of the program's root package.
func (p *Program) Root() string { return "batch/" + p.Key() }

// Resolved returns the files with ROOT substituted, keyed by path relative to the module root "batch/".
func (p *Program) Resolved() map[string]string {
	out := map[string]string{}
	for n, c := range p.Files {
		out[p.Key()+"/"+n] = strings.ReplaceAll(c, "ROOT/", p.Root()+"/")
	}
	return out
}

// Single makes a one-file program.
func Single(src string) *Program { return &Program{Files: map[string]string{"prog.go": src}} }

// Result is what the Go toolchain says about a program.
type Result struct {
	Stdout    string
	Panicked  bool
	PanicMsg  string
	Rejected  bool // the Go compiler refused the program: a generator defect, never a violation
	RejectMsg string
	Crashed   bool // the program killed the driver process (fatal error, os.Exit, timeout)
}

type Oracle struct {
	mu      sync.Mutex
	memo    map[string]*Result
	Builds  int
	BuildS  float64
	workDir string
}

func New() *Oracle { return &Oracle{memo: map[string]*Result{}} }

// Lookup returns the memoised result, if any.
func (o *Oracle) Lookup(p *Program) (*Result, bool) {
	o.mu.Lock()
	defer o.mu.Unlock()
	r, ok := o.memo[p.Key()]
	return r, ok
}

// Get returns the result for one program, compiling it alone if it is not in the memo (used while shrinking).
func (o *Oracle) Get(p *Program) (*Result, error) {
	if r, ok := o.Lookup(p); ok {
		return r, nil
	}
	if err := o.Fill([]*Program{p}); err != nil {
		return nil, err
	}
	r, _ := o.Lookup(p)
	if r == nil {
		return nil, fmt.Errorf("oracle produced no result for %s", p.Key())
	}
	return r, nil
}

func goEnv(gocache string) []string {
	env := os.Environ()
	env = append(env, "GOARCH=386", "GOOS=linux", "CGO_ENABLED=0", "GOFLAGS=-mod=mod", "GOPROXY=off", "GOSUMDB=off", "GOTOOLCHAIN=local", "GO111MODULE=on", "GOWORK=off")
	if gocache != "" {
		env = append(env, "GOCACHE="+gocache)
	}
	return env
}

// WarmCacheDir is where setup.sh leaves a build cache holding the 386 standard library.
func WarmCacheDir() string {
	root := os.Getenv("VERIF_ROOT")
	if root == "" {
		root = "/verif"
	}
	return filepath.Join(root, ".cache", "std386")
}

var errLine = regexp.MustCompile(`(?m)^(?:\./)?(q[0-9a-f]{16})/`)

// Fill compiles and runs every program that is not memoised yet, in one batch (split into chunks).
func (o *Oracle) Fill(progs []*Program) error {
	var todo []*Program
	seen := map[string]bool{}
	o.mu.Lock()
	for _, p := range progs {
		if _, ok := o.memo[p.Key()]; !ok && !seen[p.Key()] {
			seen[p.Key()] = true
			todo = append(todo, p)
		}
	}
	o.mu.Unlock()
	const chunk = 400
	for len(todo) > 0 {
		n := len(todo)
		if n > chunk {
			n = chunk
		}
		if err := o.fillChunk(todo[:n]); err != nil {
			return err
		}
		todo = todo[n:]
	}
	return nil
}

func (o *Oracle) fillChunk(progs []*Program) error {
	t0 := time.Now()
	dir, err := os.MkdirTemp("", "oracle-")
	if err != nil {
		return err
	}
	defer os.RemoveAll(dir)
	cache := filepath.Join(dir, "gocache")
	if _, err := os.Stat(WarmCacheDir()); err == nil {
		if out, err := exec.Command("cp", "-r", WarmCacheDir(), cache).CombinedOutput(); err != nil {
			return fmt.Errorf("copying warm cache: %v %s", err, out)
		}
	}
	mod := filepath.Join(dir, "batch")
	os.MkdirAll(mod, 0o755)
	os.WriteFile(filepath.Join(mod, "go.mod"), []byte("module batch\n\ngo 1.20\n"), 0o644)
	live := append([]*Program(nil), progs...)
	for _, p := range live {
		for n, c := range p.Resolved() {
			path := filepath.Join(mod, n)
			os.MkdirAll(filepath.Dir(path), 0o755)
			if err := os.WriteFile(path, []byte(c), 0o644); err != nil {
				return err
			}
		}
	}
	bin := filepath.Join(dir, "drv")
	for attempt := 0; ; attempt++ {
		if len(live) == 0 {
			break
		}
		writeDriver(mod, live)
		cmd := exec.Command("go", "build", "-o", bin, ".")
		cmd.Dir = mod
		cmd.Env = goEnv(cache)
		out, err := cmd.CombinedOutput()
		o.Builds++
		if err == nil {
			break
		}
		// find the packages the compiler complains about, drop them, try again
		bad := map[string]string{}
		for _, m := range errLine.FindAllStringSubmatch(string(out), -1) {
			bad[m[1]] = ""
		}
		if len(bad) == 0 || attempt > 20 {
			return fmt.Errorf("go build of the oracle batch failed: %v\n%s", err, tail(string(out), 3000))
		}
		for k := range bad {
			var msgs []string
			for _, l := range strings.Split(string(out), "\n") {
				if strings.Contains(l, k+"/") {
					msgs = append(msgs, l)
				}
			}
			bad[k] = strings.Join(msgs, "\n")
		}
		var keep []*Program
		for _, p := range live {
			if msg, isBad := bad[p.Key()]; isBad {
				o.mu.Lock()
				o.memo[p.Key()] = &Result{Rejected: true, RejectMsg: msg}
				o.mu.Unlock()
				os.RemoveAll(filepath.Join(mod, p.Key()))
			} else {
				keep = append(keep, p)
			}
		}
		live = keep
	}
	// run, restarting after a program that kills the process
	from := 0
	for from < len(live) {
		ctx, cancel := context.WithTimeout(context.Background(), 40*time.Second)
		cmd := exec.CommandContext(ctx, bin, fmt.Sprint(from))
		var so, se bytes.Buffer
		cmd.Stdout, cmd.Stderr = &so, &se
		cmd.WaitDelay = 2 * time.Second
		runErr := cmd.Run()
		cancel()
		done := parseOutput(so.String(), live, from, o)
		from += done
		if runErr != nil || done == 0 {
			if from < len(live) {
				// live[from] is the program that took the process down (or produced nothing)
				o.mu.Lock()
				o.memo[live[from].Key()] = &Result{Crashed: true, PanicMsg: tail(se.String(), 400)}
				o.mu.Unlock()
				from++
			}
		}
	}
	o.BuildS += time.Since(t0).Seconds()
	return nil
}

func tail(s string, n int) string {
	if len(s) <= n {
		return s
	}
	return "…" + s[len(s)-n:]
}

const mark = "\x00\x01"

func writeDriver(mod string, progs []*Program) {
	var sb strings.Builder
	sb.WriteString("package main\n\nimport (\n\t\"fmt\"\n\t\"os\"\n\t\"strconv\"\n")
	for _, p := range progs {
		fmt.Fprintf(&sb, "\t%s %q\n", p.Key(), p.Root())
	}
	sb.WriteString(")\n\n")
	sb.WriteString("func run(name string, f func()) {\n\tfmt.Print(\"\\x00\\x01BEGIN \" + name + \"\\x00\\n\")\n\tdefer func() {\n\t\tif r := recover(); r != nil {\n\t\t\tfmt.Print(\"\\x00\\x01PANIC \" + fmt.Sprint(r) + \"\\x00\\n\")\n\t\t}\n\t\tfmt.Print(\"\\x00\\x01END \" + name + \"\\x00\\n\")\n\t}()\n\tf()\n}\n\n")
	sb.WriteString("var progs = []struct {\n\tname string\n\tf    func()\n}{\n")
	for _, p := range progs {
		fmt.Fprintf(&sb, "\t{%q, %s.Main},\n", p.Key(), p.Key())
	}
	sb.WriteString("}\n\nfunc main() {\n\tfrom := 0\n\tif len(os.Args) > 1 {\n\t\tfrom, _ = strconv.Atoi(os.Args[1])\n\t}\n\tfor _, p := range progs[from:] {\n\t\trun(p.name, p.f)\n\t}\n}\n")
	os.WriteFile(filepath.Join(mod, "main.go"), []byte(sb.String()), 0o644)
}

// parseOutput stores the results of the programs that ran to their END marker; returns how many completed.
func parseOutput(out string, live []*Program, from int, o *Oracle) int {
	done := 0
	rest := out
	for i := from; i < len(live); i++ {
		k := live[i].Key()
		begin := mark + "BEGIN " + k + "\x00\n"
		end := mark + "END " + k + "\x00\n"
		bi := strings.Index(rest, begin)
		if bi < 0 {
			break
		}
		body := rest[bi+len(begin):]
		ei := strings.Index(body, end)
		if ei < 0 {
			break
		}
		seg := body[:ei]
		rest = body[ei+len(end):]
		res := &Result{}
		if pi := strings.Index(seg, mark+"PANIC "); pi >= 0 {
			res.Panicked = true
			res.PanicMsg = strings.TrimSuffix(seg[pi+len(mark+"PANIC "):], "\x00\n")
			seg = seg[:pi]
		}
		res.Stdout = seg
		o.mu.Lock()
		o.memo[k] = res
		o.mu.Unlock()
		done++
	}
	return done
}
