package oracle

import "testing"

func TestOracleSmoke(t *testing.T) {
	o := New()
	a := Single("package prog\n\nimport \"fmt\"\n\nfunc Main() {\n\tvar x int = 2147483647\n\tx++\n\tfmt.Println(x)\n}\n")
	b := Single("package prog\n\nimport \"fmt\"\n\nfunc Main() {\n\tfmt.Println(\"before\")\n\tvar s []int\n\ti := 3\n\tfmt.Println(s[i])\n}\n")
	c := Single("package prog\n\nfunc Main() {\n\tvar x int = \"no\"\n}\n")
	d := &Program{Files: map[string]string{"prog.go": "package prog\n\nimport (\n\t\"fmt\"\n\t\"ROOT/lib/x\"\n)\n\nfunc Main() { fmt.Println(x.V()) }\n", "lib/x/x.go": "package x\n\nfunc V() int { return 42 }\n"}}
	if err := o.Fill([]*Program{a, b, c, d}); err != nil {
		t.Fatal(err)
	}
	ra, _ := o.Lookup(a)
	rb, _ := o.Lookup(b)
	rc, _ := o.Lookup(c)
	rd, _ := o.Lookup(d)
	if ra == nil || ra.Stdout != "-2147483648\n" || ra.Panicked {
		t.Errorf("a: %+v", ra)
	}
	if rb == nil || rb.Stdout != "before\n" || !rb.Panicked {
		t.Errorf("b: %+v", rb)
	}
	if rc == nil || !rc.Rejected {
		t.Errorf("c: %+v", rc)
	}
	if rd == nil || rd.Stdout != "42\n" {
		t.Errorf("d: %+v", rd)
	}
	t.Logf("builds=%d seconds=%.1f", o.Builds, o.BuildS)
}
