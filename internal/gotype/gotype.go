// Package gotype decides whether a single-file package is well-typed Go inside goatlang's supported subset.
//
// Well-typed: go/parser + go/types with the source importer and 32-bit int (GOARCH=386). "Declared and not used" and
// unused imports are soft errors: Go's compiler rejects them, its type system does not, and they are ignored here.
//
// Supported subset: a whitelist over the syntax tree. It admits what goatlang documents (README, TODO) and what the
// grammar-directed generators of this repository use, and nothing else: no dereference or address-of other than
// &T{...}, no struct values (only references), no arrays, channels, goroutines, defer, labels, goto, fallthrough,
// type switches and assertions, generics, embedded fields, anonymous struct types, imaginary literals, unary plus,
// 3-index slices, switch with an init statement, bare blocks, parenthesised range operands, range over integers or
// functions, &^=, the 16- and 64-bit integer types, float32, complex types, and no redeclaration of predeclared names.
package gotype

import (
	"fmt"
	"go/ast"
	"go/importer"
	"go/parser"
	"go/token"
	"go/types"
	"sync"
)

var (
	mu   sync.Mutex
	fset = token.NewFileSet()
	imp  = importer.ForCompiler(fset, "source", nil)
)

var basicOK = map[string]bool{"int": true, "int8": true, "uint8": true, "byte": true, "rune": true, "int32": true, "uint32": true, "uint": true, "float64": true,
	"string": true, "bool": true, "any": true, "error": true}
var basicBad = map[string]bool{"int16": true, "int64": true, "uint16": true, "uint64": true, "uintptr": true, "float32": true, "complex64": true, "complex128": true}

// Check returns "" when src is well-typed Go inside the supported subset; otherwise a reason that starts with
// "type: " (Go rejects it) or "subset: " (valid Go that goatlang does not claim to support).
func Check(src string) string {
	mu.Lock()
	defer mu.Unlock()
	f, err := parser.ParseFile(fset, "prog.go", src, parser.SkipObjectResolution)
	if err != nil {
		return "type: " + err.Error()
	}
	first := ""
	info := &types.Info{Types: map[ast.Expr]types.TypeAndValue{}, Defs: map[*ast.Ident]types.Object{}, Uses: map[*ast.Ident]types.Object{}}
	conf := types.Config{
		Importer: imp,
		Sizes:    &types.StdSizes{WordSize: 4, MaxAlign: 4},
		Error: func(err error) {
			if te, ok := err.(types.Error); ok && te.Soft {
				return
			}
			if first == "" {
				first = err.Error()
			}
		},
	}
	conf.Check(f.Name.Name, fset, []*ast.File{f}, info)
	if first != "" {
		return "type: " + first
	}
	if why := subset(f, info); why != "" {
		return "subset: " + why
	}
	return ""
}

func subset(f *ast.File, info *types.Info) (why string) {
	bad := func(format string, a ...any) bool {
		if why == "" {
			why = fmt.Sprintf(format, a...)
		}
		return false
	}
	for id, obj := range info.Defs {
		if id.Name != "_" && types.Universe.Lookup(id.Name) != nil {
			// package-level functions named like the builtin functions println, print, min, max are part of what the
			// generators write (the package scope shadows the universe scope); nothing else is
			if fn, ok := obj.(*types.Func); ok && fn.Parent() == fn.Pkg().Scope() && (id.Name == "println" || id.Name == "print" || id.Name == "min" || id.Name == "max") {
				continue
			}
			return "a predeclared name is redeclared: " + id.Name
		}
	}
	var parents []ast.Node
	ast.Inspect(f, func(n ast.Node) bool {
		if n == nil {
			parents = parents[:len(parents)-1]
			return true
		}
		var parent ast.Node
		if len(parents) > 0 {
			parent = parents[len(parents)-1]
		}
		parents = append(parents, n)
		if why != "" {
			return true
		}
		switch x := n.(type) {
		case *ast.BasicLit:
			if x.Kind == token.IMAG {
				bad("imaginary literal")
			}
		case *ast.Ident:
			if basicBad[x.Name] {
				if _, isType := types.Universe.Lookup(x.Name).(*types.TypeName); isType {
					bad("type %s", x.Name)
				}
			}
		case *ast.UnaryExpr:
			switch x.Op {
			case token.SUB, token.XOR, token.NOT:
			case token.AND:
				if _, ok := x.X.(*ast.CompositeLit); !ok {
					bad("address-of something other than a composite literal")
				}
			default:
				bad("unary %s", x.Op)
			}
		case *ast.StarExpr:
			// only as a type: *T in fields, parameters, results, declarations, receivers, composite element types
			if tv, ok := info.Types[x]; !ok || !tv.IsType() {
				bad("pointer dereference")
			} else if _, ok := x.X.(*ast.Ident); !ok {
				bad("pointer to something other than a named type")
			}
		case *ast.CompositeLit:
			if t := info.Types[x].Type; t != nil {
				switch u := t.Underlying().(type) {
				case *types.Struct:
					pu, ok := parent.(*ast.UnaryExpr)
					if !ok || pu.Op != token.AND {
						// elided &T inside []*T{{...}} is fine for Go but not written by any supported source
						bad("struct value (not a reference)")
					}
				case *types.Slice, *types.Map:
					_ = u
				default:
					bad("composite literal of %s", t)
				}
			}
			if x.Type == nil {
				bad("composite literal with elided type")
			}
		case *ast.ArrayType:
			if x.Len != nil {
				bad("array type")
			}
		case *ast.StructType:
			if _, ok := parent.(*ast.TypeSpec); !ok {
				bad("anonymous struct type")
			}
			for _, fl := range x.Fields.List {
				if len(fl.Names) == 0 {
					bad("embedded field")
				}
				if fl.Tag != nil {
					bad("field tag")
				}
			}
		case *ast.InterfaceType:
			if _, ok := parent.(*ast.TypeSpec); !ok && len(x.Methods.List) > 0 {
				bad("anonymous interface type")
			}
			for _, m := range x.Methods.List {
				if len(m.Names) == 0 {
					bad("embedded interface or type set")
				}
			}
		case *ast.ChanType, *ast.GoStmt, *ast.DeferStmt, *ast.SelectStmt, *ast.SendStmt, *ast.LabeledStmt, *ast.TypeSwitchStmt, *ast.TypeAssertExpr, *ast.IndexListExpr, *ast.Ellipsis:
			if e, ok := x.(*ast.Ellipsis); ok {
				if _, inField := parent.(*ast.Field); inField && e.Elt != nil {
					break // variadic parameter
				}
			}
			bad("%T", x)
		case *ast.BranchStmt:
			if x.Label != nil || x.Tok == token.GOTO || x.Tok == token.FALLTHROUGH {
				bad("labelled branch, goto or fallthrough")
			}
		case *ast.SliceExpr:
			if x.Slice3 {
				bad("3-index slice")
			}
		case *ast.SwitchStmt:
			if x.Init != nil {
				bad("switch with an init statement")
			}
		case *ast.BlockStmt:
			if _, ok := parent.(*ast.BlockStmt); ok {
				bad("bare block")
			}
			if _, ok := parent.(*ast.CaseClause); ok {
				bad("bare block")
			}
		case *ast.RangeStmt:
			if _, ok := x.X.(*ast.ParenExpr); ok {
				bad("parenthesised range operand")
			}
			if t := info.Types[x.X].Type; t != nil {
				switch t.Underlying().(type) {
				case *types.Slice, *types.Map:
				case *types.Basic:
					if t.Underlying().(*types.Basic).Info()&types.IsString == 0 {
						bad("range over %s", t)
					}
				default:
					bad("range over %s", t)
				}
			}
			if x.Key == nil {
				bad("range without variables")
			}
		case *ast.AssignStmt:
			if x.Tok == token.AND_NOT_ASSIGN {
				bad("&^=")
			}
		case *ast.TypeSpec:
			if x.TypeParams != nil {
				bad("generic type")
			}
			if _, ok := parent.(*ast.GenDecl); ok {
				switch x.Type.(type) {
				case *ast.StructType, *ast.InterfaceType, *ast.Ident, *ast.FuncType:
				default:
					bad("type declaration of %T", x.Type)
				}
			}
		case *ast.FuncDecl:
			if x.Type.TypeParams != nil {
				bad("generic function")
			}
			if x.Recv != nil && len(x.Recv.List) == 1 {
				if _, ok := x.Recv.List[0].Type.(*ast.StarExpr); !ok {
					bad("value receiver")
				}
			}
			if x.Type.Results != nil {
				for _, r := range x.Type.Results.List {
					if len(r.Names) > 0 {
						bad("named results")
					}
				}
			}
			if x.Body == nil {
				bad("function without body")
			}
		case *ast.FuncType:
			if x.Params != nil {
				for _, p := range x.Params.List {
					if len(p.Names) == 0 {
						if id, ok := p.Type.(*ast.Ident); ok && !basicOK[id.Name] {
							bad("function type with a bare named parameter type")
						}
					}
				}
			}
		case *ast.CallExpr:
			if id, ok := x.Fun.(*ast.Ident); ok {
				switch id.Name {
				case "new", "cap", "complex", "real", "imag", "recover", "close", "clear", "min", "max", "print":
					if _, isBuiltin := info.Uses[id].(*types.Builtin); isBuiltin {
						bad("builtin %s", id.Name)
					}
				}
			}
			if tv, ok := info.Types[x.Fun]; ok && tv.IsType() {
				// conversions: to the supported basic types, to []byte / []rune from strings, and string(...)
				switch t := tv.Type.Underlying().(type) {
				case *types.Basic:
				case *types.Slice:
					if b, ok := t.Elem().Underlying().(*types.Basic); !ok || (b.Kind() != types.Uint8 && b.Kind() != types.Int32) {
						bad("conversion to %s", tv.Type)
					}
				default:
					bad("conversion to %s", tv.Type)
				}
			}
		}
		return true
	})
	return why
}
