package gotype

import (
	"testing"
	"pgregory.net/rapid"
	"verif/internal/gen"
)

// every program of the grammar-directed generator is inside the subset
func TestGeneratedProgramsAccepted(t *testing.T) {
	rapid.Check(t, func(rt *rapid.T) {
		p := gen.Profiles[rapid.IntRange(0, 3).Draw(rt, "profile")]
		prog, _ := gen.Program(rt, p)
		if why := Check(prog.Files["prog.go"]); why != "" {
			t.Fatalf("%s\n%s", why, prog.Files["prog.go"])
		}
	})
}
