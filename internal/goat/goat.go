// Package goat wraps goatlang's public API (plus the verif hooks) for the checks:
// fresh VM per case, stdout capture, recover around every entry point, instruction budget.
package goat

import (
	"bytes"
	"fmt"
	"io/fs"
	"strings"
	"testing/fstest"

	"github.com/philhassey/goatlang"
)

const DefaultBudget = 5_000_000

// Result is the observable outcome of one entry-point call.
type Result struct {
	Stdout string
	Rets   []goatlang.Value
	Err    error
	Panic  any // a Go panic that escaped the entry point (always a C03 violation)
	Budget bool
	Ticks  int64
}

func (r Result) ErrString() string {
	if r.Panic != nil {
		return fmt.Sprintf("HOST PANIC: %v", r.Panic)
	}
	if r.Err != nil {
		return r.Err.Error()
	}
	return ""
}

// Failed reports whether the call ended with an error or an escaped panic.
func (r Result) Failed() bool { return r.Err != nil || r.Panic != nil }

// RetStrings renders returned values.
func (r Result) RetStrings() []string {
	var s []string
	for _, v := range r.Rets {
		s = append(s, v.String())
	}
	return s
}

// VM couples a goatlang VM with its captured stdout.
type VM struct {
	*goatlang.VM
	Out *bytes.Buffer
}

// OutputLimit bounds what a script may print in one VM; beyond it the run is treated like an exhausted
// instruction budget (resource exhaustion by the script, never a verdict).
const OutputLimit = 4 << 20

type limitedWriter struct{ buf *bytes.Buffer }

func (w limitedWriter) Write(p []byte) (int, error) {
	if w.buf.Len()+len(p) > OutputLimit {
		panic(goatlang.VerifBudgetMsg + " (output limit)")
	}
	return w.buf.Write(p)
}

func New() *VM {
	buf := &bytes.Buffer{}
	return &VM{VM: goatlang.New(goatlang.WithStdout(limitedWriter{buf})), Out: buf}
}

// FS builds an in-memory file system.
func FS(files map[string]string) fs.FS {
	m := fstest.MapFS{}
	for k, v := range files {
		m[k] = &fstest.MapFile{Data: []byte(v)}
	}
	return m
}

func guard(budget int64, f func() ([]goatlang.Value, error)) (res Result) {
	goatlang.VerifSetBudget(budget)
	defer func() {
		res.Ticks = goatlang.VerifTicks()
		goatlang.VerifSetBudget(-1)
		if r := recover(); r != nil {
			res.Panic = r
			if strings.Contains(fmt.Sprint(r), goatlang.VerifBudgetMsg) {
				res.Budget = true
			}
		}
		if res.Err != nil && strings.Contains(res.Err.Error(), goatlang.VerifBudgetMsg) {
			res.Budget = true
		}
	}()
	rets, err := f()
	res.Rets, res.Err = rets, err
	return res
}

// Eval evaluates src in the VM.
func (v *VM) Eval(sys fs.FS, src string, budget int64, opts ...goatlang.RunOption) Result {
	n := v.Out.Len()
	if sys == nil {
		sys = fstest.MapFS{}
	}
	r := guard(budget, func() ([]goatlang.Value, error) { return v.VM.Eval(sys, "eval.go", src, opts...) })
	r.Stdout = v.Out.String()[n:]
	return r
}

// EvalNilFS evaluates src passing a nil fs.FS, as the repository's own tests do for sources without script imports.
func (v *VM) EvalNilFS(src string, budget int64, opts ...goatlang.RunOption) Result {
	n := v.Out.Len()
	r := guard(budget, func() ([]goatlang.Value, error) { return v.VM.Eval(nil, "eval.go", src, opts...) })
	r.Stdout = v.Out.String()[n:]
	return r
}

// LoadNilFS loads arg passing a nil fs.FS.
func (v *VM) LoadNilFS(arg string, budget int64, opts ...goatlang.RunOption) Result {
	n := v.Out.Len()
	r := guard(budget, func() ([]goatlang.Value, error) { return nil, v.VM.Load(nil, arg, opts...) })
	r.Stdout = v.Out.String()[n:]
	return r
}

// Load loads a package or file.
func (v *VM) Load(sys fs.FS, arg string, budget int64, opts ...goatlang.RunOption) Result {
	n := v.Out.Len()
	r := guard(budget, func() ([]goatlang.Value, error) { return nil, v.VM.Load(sys, arg, opts...) })
	r.Stdout = v.Out.String()[n:]
	return r
}

// Call calls a global function.
func (v *VM) Call(name string, xRets int, budget int64, params ...goatlang.Value) Result {
	n := v.Out.Len()
	r := guard(budget, func() ([]goatlang.Value, error) { return v.VM.Call(name, xRets, params...) })
	r.Stdout = v.Out.String()[n:]
	return r
}

// Func calls a function value.
func (v *VM) Func(f goatlang.Value, xRets int, budget int64, params ...goatlang.Value) Result {
	n := v.Out.Len()
	r := guard(budget, func() ([]goatlang.Value, error) { return v.VM.Func(f, xRets, params...) })
	r.Stdout = v.Out.String()[n:]
	return r
}

// EvalOnce evaluates src in a fresh VM.
func EvalOnce(src string) Result { return New().Eval(nil, src, DefaultBudget) }

// RunProgram loads package pkg from files in a fresh VM and calls pkg's entry (e.g. "main.Main").
// Stdout accumulates over both steps; the error is the first one met.
func RunProgram(files map[string]string, pkg, entry string, budget int64) Result {
	vm := New()
	r := vm.Load(FS(files), pkg, budget)
	if r.Failed() || entry == "" {
		return r
	}
	r2 := vm.Call(entry, 0, budget-r.Ticks)
	r2.Stdout = r.Stdout + r2.Stdout
	r2.Ticks += r.Ticks
	return r2
}

// SetOptimize switches the peephole optimizer (hook).
func SetOptimize(on bool) { goatlang.VerifSetOptimize(on) }
