// Package bcverify is an abstract interpreter for goatlang bytecode (as exported by the verif hook): a
// work-list dataflow over the control-flow graph of every function (and of the top-level code) that computes
// the operand-stack depth before each instruction and checks the facts C07 states for every path, including
// paths the program's own inputs never take.
package bcverify

import (
	"fmt"

	"github.com/philhassey/goatlang"
)

// Problem describes one violated fact.
type Problem struct {
	Func string // "" for top-level code
	At   int    // instruction index in the whole listing
	Msg  string
}

func (p Problem) String() string {
	f := p.Func
	if f == "" {
		f = "<top level>"
	}
	return fmt.Sprintf("%s, instruction %d: %s", f, p.At, p.Msg)
}

// Stats describes what was analysed.
type Stats struct {
	Functions   int
	Blocks      int // instructions that are jump targets or follow a jump: a proxy for basic blocks
	BackEdges   int
	EarlyExits  int
	Joins       int
	Ops         map[string]int
	MaxBlocksFn int
}

type effect struct {
	need, pop, push int
}

// Verify analyses a whole listing. topSlots is the slot count of the top-level code; allowResidual permits the
// top-level code to end with values on the stack (Eval of expression statements).
func Verify(code []goatlang.VerifInstr, topSlots int, allowResidual bool) ([]Problem, *Stats) {
	v := &verifier{code: code, st: &Stats{Ops: map[string]int{}}}
	v.region(0, len(code), topSlots, -1, "", allowResidual)
	return v.problems, v.st
}

type verifier struct {
	code     []goatlang.VerifInstr
	problems []Problem
	st       *Stats
}

func (v *verifier) bad(fn string, at int, format string, a ...any) {
	if len(v.problems) < 20 {
		v.problems = append(v.problems, Problem{Func: fn, At: at, Msg: fmt.Sprintf(format, a...)})
	}
}

func abs(x int) int {
	if x < 0 {
		return -x
	}
	return x
}

// region analyses code[start:end) as one frame with `slots` local slots; rets is the declared result count (-1 for top level).
func (v *verifier) region(start, end, slots, rets int, fn string, allowResidual bool) {
	v.st.Functions++
	n := end - start
	depth := make([]int, n+1)
	for i := range depth {
		depth[i] = -1
	}
	isTarget := map[int]bool{}
	work := []int{0}
	depth[0] = 0
	blocks := 1
	flow := func(from, to, d int) {
		// to is relative to start; to == n means "falls off the end"
		if to < 0 || to > n {
			v.bad(fn, start+from, "%s jumps to %d, outside its function (0..%d)", v.code[start+from].Text, to, n)
			return
		}
		if d < 0 {
			v.bad(fn, start+from, "%s pops below the operand stack (into the local slots)", v.code[start+from].Text)
			return
		}
		if to <= from {
			v.st.BackEdges++
		}
		if depth[to] == -1 {
			depth[to] = d
			work = append(work, to)
			return
		}
		v.st.Joins++
		if depth[to] != d {
			what := "join"
			if to <= from {
				what = "loop head (the stack would change on every iteration)"
			}
			v.bad(fn, start+to, "operand stack depth %d on the path from instruction %d, %d on another path, at a %s", d, start+from, depth[to], what)
		}
	}
	slotOK := func(at int, s int) {
		if s < 0 || s >= slots {
			v.bad(fn, start+at, "%s uses local slot %d, the frame has %d", v.code[start+at].Text, s, slots)
		}
	}
	for len(work) > 0 {
		i := work[len(work)-1]
		work = work[:len(work)-1]
		if i == n {
			continue
		}
		ins := v.code[start+i]
		d := depth[i]
		v.st.Ops[ins.Op]++
		next := i + 1
		simple := func(e effect) {
			if d < e.need {
				v.bad(fn, start+i, "%s needs %d operand(s), the stack holds %d", ins.Text, e.need, d)
				return
			}
			flow(i, next, d-e.pop+e.push)
		}
		switch ins.Op {
		case "PUSH", "GLOBALREF", "ZERO", "GLOBALGET", "CONST":
			simple(effect{0, 0, 1})
		case "POP", "GLOBALSET", "GLOBALFUNC", "GLOBALSTRUCT":
			simple(effect{1, 1, 0})
		case "ADD", "SUB", "MUL", "DIV", "MOD", "LTE", "GTE", "NEQ", "BITAND", "BITOR", "BITLSH", "BITRSH", "BITXOR", "EQ", "LT", "GT", "GET":
			simple(effect{2, 2, 1})
		case "INCDEC", "CONVERT", "CAST", "NEGATE", "BITCOMPLEMENT", "NOT", "LEN", "MAKE", "GETATTR":
			simple(effect{1, 1, 1})
		case "GETOK":
			simple(effect{2, 2, 2})
		case "DELETE", "SETMETHOD", "SETATTR":
			simple(effect{2, 2, 0})
		case "SLICE":
			simple(effect{3, 3, 1})
		case "SET":
			simple(effect{3, 3, 0})
		case "GLOBALZERO", "PASS":
			simple(effect{0, 0, 0})
		case "LOCALGET":
			slotOK(i, ins.A)
			simple(effect{0, 0, 1})
		case "LOCALSET":
			slotOK(i, ins.A)
			simple(effect{1, 1, 0})
		case "LOCALZERO", "LOCALINCDEC":
			slotOK(i, ins.A)
			simple(effect{0, 0, 0})
		case "LOCALADD", "LOCALSUB", "LOCALMUL", "LOCALDIV":
			slotOK(i, ins.A)
			slotOK(i, ins.B)
			simple(effect{0, 0, 1})
		case "FASTGET", "FASTGETINT", "FASTGETATTR":
			slotOK(i, ins.A)
			simple(effect{0, 0, 1})
		case "FASTSET", "FASTSETINT", "FASTSETATTR":
			slotOK(i, ins.A)
			simple(effect{1, 1, 0})
		case "CALL", "CALLVARIADIC":
			if ins.B < 0 {
				v.bad(fn, start+i, "%s requests a negative number of results", ins.Text)
				break
			}
			simple(effect{ins.A + 1, ins.A + 1, ins.B})
		case "FASTCALL":
			if ins.C < 0 {
				v.bad(fn, start+i, "%s requests a negative number of results", ins.Text)
				break
			}
			simple(effect{ins.B, ins.B, ins.C})
		case "FASTCALLATTR":
			slotOK(i, ins.A)
			c1, c2 := goatlang.VerifSplitParams(ins.C)
			if c2 < 0 {
				v.bad(fn, start+i, "%s requests a negative number of results", ins.Text)
				break
			}
			simple(effect{c1, c1, c2})
		case "APPEND":
			simple(effect{ins.A, ins.A, 1})
		case "NEWSLICE":
			simple(effect{ins.B, ins.B, 1})
		case "NEWMAP":
			simple(effect{ins.C, ins.C, 1})
		case "STRUCT":
			simple(effect{ins.A, ins.A, 1})
		case "NEWSTRUCT":
			simple(effect{ins.B, ins.B, 1})
		case "COPY":
			push := 0
			if ins.C != 0 {
				push = 1
			}
			simple(effect{2, 2, push})
		case "PANIC":
			if d < 1 {
				v.bad(fn, start+i, "PANIC needs an operand")
			}
			v.st.EarlyExits++
		case "RETURN":
			v.st.EarlyExits++
			if rets < 0 {
				v.bad(fn, start+i, "RETURN in top-level code")
				break
			}
			if ins.A != rets {
				v.bad(fn, start+i, "RETURN %d in a function that declares %d result(s)", ins.A, rets)
			}
			if d != ins.A {
				v.bad(fn, start+i, "RETURN %d with %d value(s) on the operand stack: a statement on the way here was not stack-neutral", ins.A, d)
			}
		case "JUMP":
			isTarget[i+1+ins.A] = true
			flow(i, i+1+ins.A, d)
		case "JUMPFALSE", "JUMPTRUE":
			if d < 1 {
				v.bad(fn, start+i, "%s needs a condition, the stack is empty", ins.Text)
				break
			}
			isTarget[i+1+ins.A] = true
			flow(i, next, d-1)
			flow(i, i+1+ins.A, d-1)
		case "AND", "OR":
			if d < 1 {
				v.bad(fn, start+i, "%s needs an operand", ins.Text)
				break
			}
			isTarget[i+1+ins.A] = true
			flow(i, next, d-1)
			flow(i, i+1+ins.A, d)
		case "RANGE":
			slotOK(i, ins.A)
			if d < 1 {
				v.bad(fn, start+i, "RANGE needs an operand")
				break
			}
			isTarget[i+1+ins.B] = true
			flow(i, i+1+ins.B, d-1)
		case "ITER":
			slotOK(i, ins.A)
			b1, b2 := goatlang.VerifSplitParams(ins.B)
			slotOK(i, b1)
			slotOK(i, b2)
			isTarget[i+1+ins.C] = true
			flow(i, next, d)
			flow(i, i+1+ins.C, d)
		case "FUNC":
			args, r := goatlang.VerifSplitParams(ins.A)
			hdr := abs(args) + r
			bodyStart := i + 1 + hdr
			bodyEnd := bodyStart + ins.C
			if bodyEnd > n || hdr < 0 || ins.C < 0 {
				v.bad(fn, start+i, "%s extends beyond its enclosing function", ins.Text)
				break
			}
			for k := i + 1; k < bodyStart; k++ {
				if v.code[start+k].Op != "TYPE" {
					v.bad(fn, start+k, "function header holds %s where a TYPE entry is expected", v.code[start+k].Text)
				}
			}
			if abs(args) > ins.B {
				v.bad(fn, start+i, "%s: %d parameters do not fit in %d slots", ins.Text, abs(args), ins.B)
			}
			name := fn
			if bodyStart < bodyEnd {
				name = v.code[start+bodyStart].Func
			}
			v.region(start+bodyStart, start+bodyEnd, ins.B, r, name, false)
			// no branch of the enclosing code may land inside the nested function
			for k := i + 1; k < bodyEnd; k++ {
				if depth[k] == -1 {
					depth[k] = -2 // reserved: nested function
				}
			}
			flow(i, bodyEnd, d+1)
		case "TYPE":
			v.bad(fn, start+i, "TYPE entry executed as an instruction")
		case "BREAK", "CONTINUE", "TODO":
			v.bad(fn, start+i, "placeholder %s survived compilation", ins.Op)
		default:
			v.bad(fn, start+i, "unknown instruction %q", ins.Op)
		}
	}
	for k, t := range isTarget {
		if t && k >= 0 && k < n && depth[k] == -2 {
			v.bad(fn, start+k, "a branch lands inside a nested function or its type header")
		}
		if t {
			blocks++
		}
	}
	if depth[n] >= 0 {
		switch {
		case rets > 0:
			// falling off the end of a function with results is only reachable in code Go rejects ("missing return");
			// the generators never produce it, so reaching here means a RETURN was lost
			v.bad(fn, start+n-1, "control can fall off the end of a function that declares %d result(s)", rets)
		case depth[n] != 0 && !(rets < 0 && allowResidual):
			v.bad(fn, start+n-1, "%d value(s) left on the operand stack at the end", depth[n])
		}
	}
	v.st.Blocks += blocks
	if blocks > v.st.MaxBlocksFn {
		v.st.MaxBlocksFn = blocks
	}
}
