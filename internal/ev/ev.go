// Package ev is the bookkeeping layer shared by every check: it counts what a unit of a check
// explored, keeps samples, records violations as replay files and known findings, and writes the
// per-process shard file that cmd/vcheck merges into /verif/evidence/<id>.json.
package ev

import (
	"crypto/sha256"
	"encoding/binary"
	"encoding/hex"
	"encoding/json"
	"fmt"
	"hash/fnv"
	"os"
	"path/filepath"
	"sort"
	"strconv"
	"strings"
	"sync"
	"testing"

	"pgregory.net/rapid"
)

// Root is the verification tree.
var Root = envOr("VERIF_ROOT", "/verif")

func envOr(k, d string) string {
	if v := os.Getenv(k); v != "" {
		return v
	}
	return d
}

func envInt(k string, d int) int {
	if v := os.Getenv(k); v != "" {
		n, err := strconv.Atoi(v)
		if err == nil {
			return n
		}
	}
	return d
}

// Failure describes one failing case in a form that can be written out as a replay file.
type Failure struct {
	Kind string // selects the replay function of the check package
	Case any    // JSON-able case payload
	Msg  string // expected vs got
}

func (f *Failure) Error() string { return f.Msg }

// Violation is a recorded failure that no known finding covers.
type Violation struct {
	Replay string `json:"replay"`
	Kind   string `json:"kind"`
	Msg    string `json:"msg"`
}

// Shard is what one unit process reports.
type Shard struct {
	Property    string           `json:"property"`
	Unit        string           `json:"unit"`
	Tier        string           `json:"tier"`
	Seed        int64            `json:"seed"`
	ShardN      int              `json:"shard"`
	Shards      int              `json:"shards"`
	Evaluations int64            `json:"evaluations"`
	Nontrivial  int64            `json:"nontrivial"` // distinct within this process (hashed + counted)
	Counted     int64            `json:"counted"`    // the part of Nontrivial that was counted without hashing
	HashFile    string           `json:"hash_file,omitempty"`
	Disjoint    bool             `json:"disjoint"` // this shard's non-trivial cases are disjoint from other shards by construction
	Classes     map[string]int64 `json:"classes"`
	Samples     []any            `json:"samples"`
	Violations  []Violation      `json:"violations"`
	Known       []string         `json:"known"` // KNOWN-FINDING lines (without the prefix)
	Exhaustive  map[string]bool  `json:"exhaustive,omitempty"`
	Notes       []string         `json:"notes,omitempty"`
	Infra       []string         `json:"infra,omitempty"` // harness-level trouble (maps to exit 2)
	Completed   bool             `json:"completed"`
}

// Rec is the per-process recorder.
type Rec struct {
	mu       sync.Mutex
	sh       Shard
	hashes   map[uint64]struct{}
	counted  int64 // non-trivial cases counted without hashing (enumerations that are distinct by construction)
	out      string
	frozen   bool // set while rapid shrinks, so shrink re-runs are not counted
	firstN   int
	resv     []sample
	lastFail *Failure
	Replay   string // path of a replay file to run (--replay), "" otherwise
}

type sample struct {
	key uint64
	v   any
}

var rec *Rec

// R returns the process-wide recorder.
func R() *Rec {
	if rec == nil {
		rec = newRec("UNSET")
	}
	return rec
}

func newRec(prop string) *Rec {
	r := &Rec{hashes: map[uint64]struct{}{}}
	r.sh = Shard{
		Property: prop,
		Unit:     envOr("VERIF_UNIT", "adhoc"),
		Tier:     envOr("VERIF_TIER", "quick"),
		Seed:     int64(envInt("VERIF_SEED", 1)),
		ShardN:   envInt("VERIF_SHARD", 0),
		Shards:   envInt("VERIF_SHARDS", 1),
		Classes:  map[string]int64{},
	}
	r.out = os.Getenv("VERIF_OUT")
	r.Replay = os.Getenv("VERIF_REPLAY")
	return r
}

// Main is called from TestMain of every check package.
func Main(m *testing.M, prop string) {
	rec = newRec(prop)
	code := m.Run()
	rec.sh.Completed = true
	rec.flush()
	os.Exit(code)
}

func (r *Rec) flush() {
	if r.out == "" {
		return
	}
	r.mu.Lock()
	defer r.mu.Unlock()
	r.sh.Nontrivial = int64(len(r.hashes)) + r.counted
	r.sh.Counted = r.counted
	if !r.sh.Disjoint && len(r.hashes) > 0 {
		hf := r.out + ".hashes"
		buf := make([]byte, 0, 8*len(r.hashes))
		for h := range r.hashes {
			buf = binary.LittleEndian.AppendUint64(buf, h)
		}
		if err := os.WriteFile(hf, buf, 0o644); err == nil {
			r.sh.HashFile = hf
		}
	}
	r.sh.Samples = r.samples()
	b, _ := json.Marshal(r.sh)
	tmp := r.out + ".tmp"
	if err := os.WriteFile(tmp, b, 0o644); err == nil {
		os.Rename(tmp, r.out)
	}
}

func (r *Rec) samples() []any {
	var res []any
	sort.Slice(r.resv, func(i, j int) bool { return r.resv[i].key < r.resv[j].key })
	for _, s := range r.resv {
		res = append(res, s.v)
	}
	return res
}

func (r *Rec) Property() string { return r.sh.Property }
func (r *Rec) Tier() string     { return r.sh.Tier }
func (r *Rec) Thorough() bool   { return r.sh.Tier == "thorough" }
func (r *Rec) Seed() int64      { return r.sh.Seed }
func (r *Rec) Shard() int       { return r.sh.ShardN }
func (r *Rec) Shards() int      { return r.sh.Shards }

// Pick returns q in the quick tier and t in the thorough tier.
func (r *Rec) Pick(q, t int) int {
	if r.Thorough() {
		return t
	}
	return q
}

// Mine reports whether item i of an enumeration belongs to this shard.
func (r *Rec) Mine(i int) bool { return r.sh.Shards <= 1 || i%r.sh.Shards == r.sh.ShardN }

// Disjoint declares that this unit partitions its cases over the shards, so per-shard distinct counts add up.
func (r *Rec) Disjoint() { r.sh.Disjoint = true }

// Freeze suspends all counting (used for passes that only record what a generator produces).
func (r *Rec) Freeze(on bool) { r.frozen = on }

// Eval counts n evaluated cases.
func (r *Rec) Eval(n int) {
	if r.frozen {
		return
	}
	r.sh.Evaluations += int64(n)
}

// Nontrivial records the hash of a case that is non-trivial by the check's rule.
func (r *Rec) Nontrivial(h uint64) {
	if r.frozen {
		return
	}
	r.hashes[h] = struct{}{}
}

// NontrivialN counts n non-trivial cases that are distinct by construction (enumerations), without storing hashes.
func (r *Rec) NontrivialN(n int) {
	if r.frozen {
		return
	}
	r.counted += int64(n)
}

// Class adds one to a histogram bucket.
func (r *Rec) Class(name string) { r.ClassN(name, 1) }
func (r *Rec) ClassN(name string, n int) {
	if r.frozen {
		return
	}
	r.sh.Classes[name] += int64(n)
}

// Sample offers a case as a sample: the first two are kept, plus a deterministic selection of up to four more.
func (r *Rec) Sample(v any) {
	if r.frozen {
		return
	}
	b, _ := json.Marshal(v)
	k := Hash(string(b))
	if r.firstN < 2 {
		r.firstN++
		r.resv = append(r.resv, sample{0 + uint64(r.firstN), v})
		return
	}
	if k < 16 {
		k = 16
	}
	if len(r.resv) < 6 {
		r.resv = append(r.resv, sample{k, v})
		return
	}
	// keep the smallest hashes (deterministic, input independent of order)
	maxI := -1
	for i := 2; i < len(r.resv); i++ {
		if maxI < 0 || r.resv[i].key > r.resv[maxI].key {
			maxI = i
		}
	}
	if maxI >= 0 && k < r.resv[maxI].key {
		r.resv[maxI] = sample{k, v}
	}
}

func (r *Rec) Note(format string, a ...any) {
	s := fmt.Sprintf(format, a...)
	for _, n := range r.sh.Notes {
		if n == s {
			return
		}
	}
	if len(r.sh.Notes) < 50 {
		r.sh.Notes = append(r.sh.Notes, s)
	}
}

// Infra records harness-level trouble: the run is not a verdict (exit 2).
func (r *Rec) Infra(format string, a ...any) {
	r.sh.Infra = append(r.sh.Infra, fmt.Sprintf(format, a...))
	r.flush()
}

func (r *Rec) Exhaustive(space string, complete bool) {
	if r.sh.Exhaustive == nil {
		r.sh.Exhaustive = map[string]bool{}
	}
	r.sh.Exhaustive[space] = complete
}

// Known prints and records a KNOWN-FINDING line for a listed finding that still reproduces.
func (r *Rec) Known(k *Finding) {
	line := fmt.Sprintf("property=%s %s: %s", k.Property, k.ID, k.What)
	for _, l := range r.sh.Known {
		if l == line {
			return
		}
	}
	r.sh.Known = append(r.sh.Known, line)
}

// ReplayFile is the on-disk form of a failing (or regression) case.
type ReplayFile struct {
	Property string          `json:"property"`
	Kind     string          `json:"kind"`
	Case     json.RawMessage `json:"case"`
	Msg      string          `json:"msg,omitempty"`
	Note     string          `json:"note,omitempty"`
}

// Violate records a violation: writes the replay file under /verif/out/<id>/ and remembers it.
func (r *Rec) Violate(f *Failure) string {
	b, err := json.MarshalIndent(f.Case, "", " ")
	if err != nil {
		b = []byte(fmt.Sprintf("%q", fmt.Sprint(f.Case)))
	}
	sum := sha256.Sum256(append([]byte(f.Kind+"\x00"), b...))
	name := "viol-" + hex.EncodeToString(sum[:6]) + ".json"
	dir := filepath.Join(Root, "out", r.sh.Property)
	os.MkdirAll(dir, 0o755)
	path := filepath.Join(dir, name)
	rf := ReplayFile{Property: r.sh.Property, Kind: f.Kind, Case: b, Msg: f.Msg}
	out, _ := json.MarshalIndent(rf, "", " ")
	os.WriteFile(path, out, 0o644)
	for _, v := range r.sh.Violations {
		if v.Replay == path {
			return path
		}
	}
	msg := f.Msg
	if len(msg) > 2000 {
		msg = msg[:2000] + "…"
	}
	r.sh.Violations = append(r.sh.Violations, Violation{Replay: path, Kind: f.Kind, Msg: msg})
	r.flush()
	return path
}

// Fail is the non-rapid way to report a failing case (enumerations, replays).
func (r *Rec) Fail(t testing.TB, f *Failure) {
	path := r.Violate(f)
	t.Errorf("VIOLATION property=%s replay=%s\n%s", r.sh.Property, path, f.Msg)
}

// RapidCheck runs a rapid property that reports failures as *Failure values. Known findings are filtered
// by the caller before returning a Failure. The shrunk failure (the last one rapid re-ran) is recorded.
func (r *Rec) RapidCheck(t *testing.T, prop func(rt *rapid.T) *Failure) {
	r.lastFail = nil
	r.frozen = false
	defer func() {
		r.frozen = false
		if r.lastFail != nil {
			path := r.Violate(r.lastFail)
			t.Logf("VIOLATION property=%s replay=%s", r.sh.Property, path)
			r.lastFail = nil
		}
	}()
	rapid.Check(t, func(rt *rapid.T) {
		f := prop(rt)
		if f != nil {
			r.lastFail = f
			r.frozen = true
			rt.Fatalf("%s", f.Msg)
		}
	})
}

// Hash is a stable 64-bit hash of strings.
func Hash(parts ...string) uint64 {
	h := fnv.New64a()
	for _, p := range parts {
		h.Write([]byte(p))
		h.Write([]byte{0})
	}
	return h.Sum64()
}

// HashJSON hashes the JSON rendering of v.
func HashJSON(v any) uint64 {
	b, _ := json.Marshal(v)
	return Hash(string(b))
}

// Finding is one line of /verif/known_findings.jsonl.
type Finding struct {
	Status   string `json:"status"` // "known" or "fixed"
	Property string `json:"property"`
	ID       string `json:"id"`
	Replay   string `json:"replay,omitempty"` // relative to /verif
	What     string `json:"what"`
	Commit   string `json:"commit,omitempty"`
	Entry    string `json:"entry"` // the human-readable line
}

var findings []Finding
var findingsOnce sync.Once

// Findings returns the entries of known_findings.jsonl for a property.
func Findings(prop string) []Finding {
	findingsOnce.Do(func() {
		b, err := os.ReadFile(filepath.Join(Root, "known_findings.jsonl"))
		if err != nil {
			return
		}
		for _, l := range strings.Split(string(b), "\n") {
			l = strings.TrimSpace(l)
			if l == "" || strings.HasPrefix(l, "#") {
				continue
			}
			var f Finding
			if json.Unmarshal([]byte(l), &f) == nil {
				findings = append(findings, f)
			}
		}
	})
	var res []Finding
	for _, f := range findings {
		if f.Property == prop {
			res = append(res, f)
		}
	}
	return res
}

// KnownOpen returns the known (unrepaired) finding with the given id, or nil.
func KnownOpen(prop, id string) *Finding {
	for _, f := range Findings(prop) {
		if f.ID == id && f.Status == "known" {
			ff := f
			return &ff
		}
	}
	return nil
}

// ReplayFunc re-executes one saved case; it returns nil if the property holds on it.
type ReplayFunc func(raw json.RawMessage) *Failure

// RunReplays is the regression tier: every file in replays/<id>/ is re-run. Files referenced by an open
// known finding produce a KNOWN-FINDING line while they still fail; everything else that fails is a violation.
// With VERIF_REPLAY set, only that file is run.
func (r *Rec) RunReplays(t *testing.T, kinds map[string]ReplayFunc) {
	var files []string
	if r.Replay != "" {
		files = []string{r.Replay}
	} else {
		files, _ = filepath.Glob(filepath.Join(Root, "replays", r.sh.Property, "*.json"))
		sort.Strings(files)
	}
	knownByReplay := map[string]*Finding{}
	for _, f := range Findings(r.sh.Property) {
		if f.Status == "known" && f.Replay != "" {
			ff := f
			knownByReplay[filepath.Join(Root, f.Replay)] = &ff
		}
	}
	for _, path := range files {
		b, err := os.ReadFile(path)
		if err != nil {
			r.Infra("replay file %s: %v", path, err)
			t.Errorf("replay file %s: %v", path, err)
			continue
		}
		var rf ReplayFile
		if err := json.Unmarshal(b, &rf); err != nil {
			r.Infra("replay file %s: %v", path, err)
			t.Errorf("replay file %s: %v", path, err)
			continue
		}
		fn := kinds[rf.Kind]
		if fn == nil {
			r.Infra("replay file %s: unknown kind %q", path, rf.Kind)
			t.Errorf("replay file %s: unknown kind %q", path, rf.Kind)
			continue
		}
		r.Eval(1)
		r.Class("replay")
		f := fn(rf.Case)
		abs, _ := filepath.Abs(path)
		if k := knownByReplay[abs]; k != nil {
			if f != nil {
				r.Known(k)
			} else {
				r.Note("known finding %s no longer reproduces", k.ID)
			}
			continue
		}
		if f != nil {
			// keep the original path as the replay of record
			msg := f.Msg
			if len(msg) > 2000 {
				msg = msg[:2000] + "…"
			}
			r.sh.Violations = append(r.sh.Violations, Violation{Replay: abs, Kind: rf.Kind, Msg: msg})
			r.flush()
			t.Errorf("VIOLATION property=%s replay=%s\n%s", r.sh.Property, abs, f.Msg)
		}
	}
}

// SaveReplay writes a case into the committed regression tier (used by development helpers only, never by checks).
func SaveReplay(prop, name, kind string, c any, note string) error {
	b, err := json.MarshalIndent(c, "", " ")
	if err != nil {
		return err
	}
	rf := ReplayFile{Property: prop, Kind: kind, Case: b, Note: note}
	out, _ := json.MarshalIndent(rf, "", " ")
	dir := filepath.Join(Root, "replays", prop)
	os.MkdirAll(dir, 0o755)
	return os.WriteFile(filepath.Join(dir, name+".json"), out, 0o644)
}

// InFlight records the case that is about to run in a side file next to the shard file. If the check process dies
// while the case runs (a fatal Go error such as a stack overflow cannot be recovered), the driver finds the file and
// reports the case as the violation's replay. Landed clears it. Only checks whose property is about the host
// surviving use this.
func (r *Rec) InFlight(kind string, c any, msg string) {
	if r.out == "" {
		return
	}
	raw, err := json.Marshal(c)
	if err != nil {
		return
	}
	b, err := json.Marshal(ReplayFile{Property: r.sh.Property, Kind: kind, Case: raw, Msg: msg})
	if err != nil {
		return
	}
	os.WriteFile(r.out+".inflight", b, 0o644)
}

// Landed marks the in-flight case as finished.
func (r *Rec) Landed() {
	if r.out != "" {
		os.Remove(r.out + ".inflight")
	}
}
