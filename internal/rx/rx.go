// Package rx holds small rapid helpers. rapid's integer and SampledFrom generators are deliberately biased
// toward small values (good for finding boundary bugs, bad for choosing among alternatives), so the
// choice helpers here draw unbiased bits; they still shrink toward the first alternative.
package rx

import (
	"math/bits"

	"pgregory.net/rapid"
)

// Uniform draws an integer in [0, n) with equal probability.
func Uniform(rt *rapid.T, n int, label string) int {
	if n <= 1 {
		return 0
	}
	k := bits.Len(uint(n - 1))
	for try := 0; try < 16; try++ {
		v := 0
		for i := 0; i < k; i++ {
			v <<= 1
			if rapid.Bool().Draw(rt, label) {
				v |= 1
			}
		}
		if v < n {
			return v
		}
	}
	return 0
}

// Weighted draws an index with probability proportional to its weight.
func Weighted(rt *rapid.T, label string, weights ...int) int {
	total := 0
	for _, w := range weights {
		total += w
	}
	x := Uniform(rt, total, label)
	for i, w := range weights {
		if x < w {
			return i
		}
		x -= w
	}
	return len(weights) - 1
}

// Pick returns one of the items with equal probability.
func Pick[T any](rt *rapid.T, label string, items ...T) T {
	return items[Uniform(rt, len(items), label)]
}

// Chance is true with probability num/den.
func Chance(rt *rapid.T, label string, num, den int) bool {
	return Uniform(rt, den, label) < num
}

// Range draws uniformly from [lo, hi].
func Range(rt *rapid.T, label string, lo, hi int) int {
	return lo + Uniform(rt, hi-lo+1, label)
}
