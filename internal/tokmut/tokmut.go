// Package tokmut produces token-level variants of existing programs: deletions, duplications, swaps, replacements by
// and insertions of vocabulary tokens, truncations, and splices with pieces of other programs. The variants are not
// valid Go in general; checks whose property quantifies over every program goatlang accepts (optimizer transparency,
// stack neutrality of compiled code, incremental evaluation) use the ones that still compile.
package tokmut

import (
	"go/ast"
	"go/parser"
	"go/token"
	"path/filepath"
	"regexp"
	"sort"
	"strconv"
	"strings"

	"pgregory.net/rapid"

	"verif/internal/rx"
)

// Vocab is a benign vocabulary: every operator and keyword of the language, a few names that programs of the
// repository's tests use, and small literals (nothing that spells out a large allocation or repeat count).
var Vocab = []string{":=", "=", "+=", "-=", "*=", "/=", "%=", "|=", "^=", "&=", "<<=", ">>=", "||", "&&", "!", "<", ">", "<=", ">=", "==", "!=", "|", "^", "&", "&^", "<<", ">>",
	"+", "-", "*", "/", "%", "++", "--", ".", "...", "(", ")", "[", "]", "{", "}", "[]", ",", ";", ":", "\n", "\n",
	"func", "return", "if", "else", "for", "const", "var", "type", "switch", "case", "default", "range", "break", "continue", "struct", "interface", "map", "nil", "true", "false",
	"any", "int", "int32", "byte", "uint8", "rune", "uint32", "int8", "bool", "string", "float64",
	"x", "y", "a", "b", "i", "f", "T", "s", "m", "len", "append", "copy", "delete", "println", "_",
	"0", "1", "2", "3", "7", "1.5", "\"s\"", "'c'", "-1", "255", "x + 1", "1 + 2", "x - 0", "x++", "x += 1", "a[0]", "a[i]", "m[\"k\"]", "f()", "f(x)", "t.x", "t.m()",
	"x := 1", "x, y := 1, 2", "x, y = y, x", "if x > 0 {", "for i := 0; i < 3; i++ {", "for _, v := range a {", "switch x {", "case 1:", "default:", "return x", "break", "continue", "}", "{ }",
	"func() int { return 1 }", "func(p int) int { return p }(2)", "[]int{1, 2, 3}", "map[string]int{\"k\": 1}", "&T{}", "float64(x)", "int8(x)", "!b", "-x", "^x"}

var splitRe = regexp.MustCompile(`[A-Za-z_][A-Za-z_0-9]*|[0-9][0-9a-zA-Z_.]*|"(?:[^"\\\n]|\\.)*"|` + "`[^`]*`" + `|'(?:[^'\\\n]|\\.)*'|\s+|.`)

// Tokens splits a source text into lexical pieces (white space included, so that joining them gives the text back).
func Tokens(src string) []string { return splitRe.FindAllString(src, -1) }

func min(a, b int) int {
	if a < b {
		return a
	}
	return b
}

// Mutate applies 1-4 edits.
func Mutate(rt *rapid.T, toks []string, other []string) []string {
	toks = append([]string{}, toks...)
	n := rx.Range(rt, "nedits", 1, 4)
	for k := 0; k < n && len(toks) > 0; k++ {
		i := rx.Uniform(rt, len(toks), "at")
		switch rx.Uniform(rt, 8, "edit") {
		case 0: // delete
			toks = append(toks[:i], toks[i+1:]...)
		case 1: // duplicate
			toks = append(toks[:i+1], toks[i:]...)
		case 2: // swap with another
			j := rx.Uniform(rt, len(toks), "with")
			toks[i], toks[j] = toks[j], toks[i]
		case 3: // replace by a vocabulary token
			toks[i] = rx.Pick(rt, "repl", Vocab...)
		case 4, 5: // insert a vocabulary token
			toks = append(toks[:i], append([]string{rx.Pick(rt, "ins", Vocab...), " "}, toks[i:]...)...)
		case 6: // delete a run of tokens
			j := min(len(toks), i+rx.Range(rt, "run", 1, 8))
			toks = append(toks[:i], toks[j:]...)
		default: // splice with a piece of another program
			if len(other) > 0 {
				a := rx.Uniform(rt, len(other), "spa")
				b := a + rx.Uniform(rt, min(len(other)-a, 40), "spb")
				toks = append(toks[:i], append(append([]string{}, other[a:b]...), toks[i:]...)...)
			}
		}
	}
	return toks
}

var tables []string

// TableStrings returns every string literal (longer than 3 bytes) of the repository's own test files: several
// hundred goatlang inputs written by its author.
func TableStrings() []string {
	if tables != nil {
		return tables
	}
	files, _ := filepath.Glob("/repo/*_test.go")
	seen := map[string]bool{}
	for _, f := range files {
		fset := token.NewFileSet()
		af, err := parser.ParseFile(fset, f, nil, 0)
		if err != nil {
			continue
		}
		ast.Inspect(af, func(n ast.Node) bool {
			if bl, ok := n.(*ast.BasicLit); ok && bl.Kind == token.STRING {
				if s, err := strconv.Unquote(bl.Value); err == nil && !seen[s] && len(s) > 3 && !Unsafe(s) {
					seen[s] = true
					tables = append(tables, s)
				}
			}
			return true
		})
	}
	sort.Strings(tables)
	if len(tables) == 0 {
		tables = []string{"1 + 2"}
	}
	return tables
}

var bigNum = regexp.MustCompile(`[0-9]{7,}|0x[0-9a-fA-F]{6,}|[0-9]e[0-9]|<<`)

// Nondeterministic reports sources that depend on time, randomness or the outside world.
func Nondeterministic(src string) bool {
	for _, w := range []string{"Sleep", "ReadFile", "WriteFile", "rand", "time.", "Now", "os.", "Yield"} {
		if strings.Contains(src, w) {
			return true
		}
	}
	return false
}

// Unsafe reports sources that are nondeterministic, touch the outside world, or spell out a resource bomb.
func Unsafe(src string) bool {
	if Nondeterministic(src) {
		return true
	}
	return (strings.Contains(src, "Repeat") || strings.Contains(src, "make")) && bigNum.MatchString(src)
}
