module verif

go 1.23

toolchain go1.23.5

replace github.com/philhassey/goatlang => /repo

require (
	github.com/philhassey/goatlang v0.0.0
	pgregory.net/rapid v1.3.0
)

require golang.org/x/exp v0.0.0-20230224173230-c95f2b4c22f2 // indirect
