// C16 — declaration order and file layout inside a package do not matter.
//
// Metamorphic check: a generated package is loaded in its canonical layout (one file, source order) and in k
// variants in which the hoistable declarations (functions, methods, struct and interface types) are permuted and
// all declarations are repartitioned into 1-5 files, while constants, variable declarations and init functions
// keep their relative order in the file-sorted concatenation. Output and error must be identical.
package c16

import (
	"encoding/json"
	"fmt"
	"go/ast"
	"go/parser"
	"go/token"
	"sort"
	"strings"
	"testing"

	"pgregory.net/rapid"

	"verif/internal/ev"
	"verif/internal/gen"
	"verif/internal/goat"
	"verif/internal/oracle"
	"verif/internal/rx"
)

func TestMain(m *testing.M) { ev.Main(m, "C16") }

type decl struct {
	Text      string
	Hoistable bool
	Name      string
	Kind      string
}

// split cuts a Go file into its top-level declarations.
func split(src string) (imports []string, decls []decl, err error) {
	fset := token.NewFileSet()
	f, err := parser.ParseFile(fset, "prog.go", src, parser.ParseComments)
	if err != nil {
		return nil, nil, err
	}
	for _, im := range f.Imports {
		imports = append(imports, im.Path.Value)
	}
	for _, d := range f.Decls {
		text := src[fset.Position(d.Pos()).Offset:fset.Position(d.End()).Offset]
		switch x := d.(type) {
		case *ast.FuncDecl:
			if x.Name.Name == "init" && x.Recv == nil {
				decls = append(decls, decl{Text: text, Kind: "init", Name: "init"})
			} else if x.Recv != nil {
				decls = append(decls, decl{Text: text, Hoistable: true, Kind: "method", Name: x.Name.Name})
			} else {
				decls = append(decls, decl{Text: text, Hoistable: true, Kind: "func", Name: x.Name.Name})
			}
		case *ast.GenDecl:
			switch x.Tok {
			case token.IMPORT:
			case token.TYPE:
				hoist := true
				for _, sp := range x.Specs {
					ts := sp.(*ast.TypeSpec)
					switch ts.Type.(type) {
					case *ast.StructType, *ast.InterfaceType:
					default:
						hoist = false
					}
				}
				decls = append(decls, decl{Text: text, Hoistable: hoist, Kind: "type"})
			case token.CONST:
				decls = append(decls, decl{Text: text, Kind: "const"})
			default:
				decls = append(decls, decl{Text: text, Kind: "var"})
			}
		}
	}
	return imports, decls, nil
}

// Layout describes one variant: the order of declarations and the file each goes to.
type Layout struct {
	Order []int `json:"order"` // indexes into the canonical declaration list
	File  []int `json:"file"`  // file number per position of Order
	Names []string `json:"names"`
}

type Case struct {
	Files  map[string]string `json:"files"`  // canonical program (prog.go holds the permuted package)
	Layout Layout            `json:"layout"`
}

var fileNamePool = []string{"a.go", "b.go", "c.go", "m.go", "z.go", "0.go", "main.go", "zz_last.go", "Types.go", "funcs.go"}

func genLayout(rt *rapid.T, decls []decl) Layout {
	n := len(decls)
	nf := rx.Range(rt, "nfiles", 1, 5)
	names := append([]string(nil), rapid.Permutation(fileNamePool).Draw(rt, "filenames")[:nf]...)
	sort.Strings(names)
	// order: non-hoistables keep their relative order; hoistables are inserted at random positions
	var fixed, hoist []int
	for i, d := range decls {
		if d.Hoistable {
			hoist = append(hoist, i)
		} else {
			fixed = append(fixed, i)
		}
	}
	if len(hoist) > 1 {
		hoist = rapid.Permutation(hoist).Draw(rt, "hoistperm")
	}
	order := append([]int(nil), fixed...)
	for _, h := range hoist {
		pos := rx.Uniform(rt, len(order)+1, "insertat")
		order = append(order[:pos], append([]int{h}, order[pos:]...)...)
	}
	// files: non-hoistables get non-decreasing file numbers along the order (so that the file-sorted concatenation
	// keeps their relative order); hoistables go anywhere
	file := make([]int, n)
	cur := 0
	for pos, di := range order {
		if decls[di].Hoistable {
			file[pos] = rx.Uniform(rt, nf, "hoistfile")
			continue
		}
		if cur < nf-1 && rx.Chance(rt, "nextfile", 1, 3) {
			cur += rx.Range(rt, "advance", 1, nf-1-cur)
		}
		file[pos] = cur
	}
	return Layout{Order: order, File: file, Names: names}
}

func usedImports(text string, all []string) []string {
	var out []string
	for _, im := range all {
		path := strings.Trim(im, `"`)
		alias := path[strings.LastIndex(path, "/")+1:]
		if strings.Contains(text, alias+".") {
			out = append(out, im)
		}
	}
	return out
}

// render produces the files of the permuted package.
func render(pkgClause string, imports []string, decls []decl, l Layout) map[string]string {
	bodies := make([][]string, len(l.Names))
	for pos, di := range l.Order {
		f := l.File[pos]
		if f >= len(bodies) {
			f = len(bodies) - 1
		}
		bodies[f] = append(bodies[f], decls[di].Text)
	}
	out := map[string]string{}
	for i, name := range l.Names {
		body := strings.Join(bodies[i], "\n\n")
		var sb strings.Builder
		sb.WriteString(pkgClause + "\n\n")
		if used := usedImports(body, imports); len(used) >= 2 && (i+len(body))%2 == 0 {
			// one parenthesised import declaration for all packages of the file
			sb.WriteString("import (\n")
			for _, im := range used {
				sb.WriteString("\t" + im + "\n")
			}
			sb.WriteString(")\n")
		} else {
			for _, im := range used {
				sb.WriteString("import " + im + "\n")
			}
		}
		sb.WriteString("\n" + body + "\n")
		out[name] = sb.String()
	}
	return out
}

func runProgram(files map[string]string) goat.Result {
	p := &oracle.Program{Files: files}
	fs := map[string]string{}
	for n, c := range p.Resolved() {
		// every variant is mounted under the same root so that positions in error messages are comparable
		fs["batch/"+strings.Replace(n, p.Key(), "prog", 1)] = strings.ReplaceAll(c, p.Root()+"/", "batch/prog/")
	}
	return goat.RunProgram(fs, "batch/prog", "batch/prog.Main", 20_000_000)
}

func errKind(r goat.Result) string {
	if r.Panic != nil {
		return "host panic"
	}
	if r.Err == nil {
		return ""
	}
	// the message without positions (files and lines legitimately differ between layouts)
	first := strings.SplitN(r.Err.Error(), "\n", 2)[0]
	if i := strings.LastIndex(first, ": "); i >= 0 {
		return first[i+2:]
	}
	return first
}

func check(c *Case) *ev.Failure {
	r := ev.R()
	src := c.Files["prog.go"]
	imports, decls, err := split(src)
	if err != nil {
		r.Infra("generated program does not parse: %v", err)
		return nil
	}
	r.Eval(1)
	canon := runProgram(c.Files)
	if canon.Budget {
		r.Class("discarded:budget")
		return nil
	}
	variantFiles := map[string]string{}
	for n, s := range c.Files {
		if n != "prog.go" {
			variantFiles[n] = s
		}
	}
	for n, s := range render("package prog", imports, decls, c.Layout) {
		variantFiles[n] = s
	}
	variant := runProgram(variantFiles)
	if len(c.Layout.Names) >= 2 && !variant.Budget {
		// the same layout loaded a second time in this process (fresh VM) behaves as it did the first time
		again := runProgram(variantFiles)
		r.Class("layout_loaded_twice")
		if again.Stdout != variant.Stdout || errKind(again) != errKind(variant) {
			return &ev.Failure{Kind: "layout", Case: c, Msg: fmt.Sprintf("the same file layout behaves differently when it is loaded a second time into a fresh VM:\n--- first load (error %q)\n%s--- second load (error %q)\n%s", errKind(variant), clip(variant.Stdout), errKind(again), clip(again.Stdout))}
		}
	}
	// non-trivial: a use precedes its definition and the partition has >= 2 files
	useBefore := false
	seen := map[int]bool{}
	for _, di := range c.Layout.Order {
		seen[di] = true
		for dj, d := range decls {
			if d.Hoistable && !seen[dj] && d.Name != "" && strings.Contains(decls[di].Text, d.Name+"(") {
				useBefore = true
			}
		}
	}
	if useBefore && len(c.Layout.Names) >= 2 {
		r.Nontrivial(ev.HashJSON(c))
		r.Class("use_before_definition_and_several_files")
	}
	r.Class(fmt.Sprintf("files=%d", len(c.Layout.Names)))
	if canon.Stdout != variant.Stdout || errKind(canon) != errKind(variant) {
		var names []string
		for n := range variantFiles {
			names = append(names, n)
		}
		sort.Strings(names)
		var tree strings.Builder
		for _, n := range names {
			fmt.Fprintf(&tree, "=== %s\n%s", n, variantFiles[n])
		}
		return &ev.Failure{Kind: "layout", Case: c, Msg: fmt.Sprintf("the permuted/repartitioned package behaves differently from the canonical layout:\n--- canonical (error %q)\n%s--- variant (error %q)\n%s--- variant files\n%s", errKind(canon), clip(canon.Stdout), errKind(variant), clip(variant.Stdout), clip(tree.String()))}
	}
	return nil
}

func clip(s string) string {
	if len(s) > 4000 {
		return s[:2000] + "\n…\n" + s[len(s)-2000:]
	}
	return s
}

func TestLayouts(t *testing.T) {
	n := 0
	ev.R().RapidCheck(t, func(rt *rapid.T) *ev.Failure {
		p := rx.Pick(rt, "profile", gen.Profiles[3], gen.Profiles[3], gen.Profiles[4], gen.Profiles[0], gen.Profiles[1], gen.Profiles[2])
		p.Panics = true
		prog, _ := gen.Program(rt, p)
		if rx.Chance(rt, "forward", 1, 2) {
			// a call whose only argument is a call of a function with several results (the argument list is compiled from what
			// is known about the callee, wherever it is declared)
			files := map[string]string{}
			for n, s := range prog.Files {
				files[n] = s
			}
			files["prog.go"] += "\nfunc zPair() (int, string) { return 3, \"four\" }\n\nfunc zShow() int {\n\tfmt.Println(zPair())\n\treturn 0\n}\n\nvar zShown = zShow()\n"
			prog = &oracle.Program{Files: files}
		}
		_, decls, err := split(prog.Files["prog.go"])
		if err != nil {
			ev.R().Infra("generated program does not parse: %v", err)
			return nil
		}
		// several variants of the same package
		k := rx.Range(rt, "variants", 1, 4)
		for i := 0; i < k; i++ {
			c := &Case{Files: prog.Files, Layout: genLayout(rt, decls)}
			n++
			if n%400 == 1 {
				ev.R().Sample(map[string]any{"layout": c.Layout, "canonical_source": prog.Files["prog.go"]})
			}
			if f := check(c); f != nil {
				return f
			}
		}
		return nil
	})
}

func TestReplay(t *testing.T) {
	ev.R().RunReplays(t, map[string]ev.ReplayFunc{
		"layout": func(raw json.RawMessage) *ev.Failure {
			var c Case
			if err := json.Unmarshal(raw, &c); err != nil {
				return &ev.Failure{Kind: "layout", Case: string(raw), Msg: "bad replay: " + err.Error()}
			}
			return check(&c)
		},
	})
}
