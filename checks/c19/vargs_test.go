package c19

// Variadic natives that keep what they were given. A native of the form func(vm, args, vargs...) []Value receives the
// surplus arguments of each call as a slice; the host may hold on to that slice (a log, a queue of pending events) and
// the native may re-enter the script, which may call the same native again with other arguments. Whatever happens
// later, every slice still holds the arguments of its own call, in order.

import (
	"encoding/json"
	"fmt"
	"strings"
	"testing"

	"github.com/philhassey/goatlang"
	"pgregory.net/rapid"

	"verif/internal/ev"
	"verif/internal/goat"
	"verif/internal/rx"
)

type VCall struct {
	N     int `json:"n"`     // number of variadic arguments
	Depth int `json:"depth"` // the native re-enters the script this many levels deep (each level calls the native again)
	// Spread: 0 the arguments are written out; 1 a slice literal is spread; 2 a slice variable is spread; 3 (N = 0) a slice
	// variable that was never assigned is spread; 4 (N = 0) the nil result of a function is spread
	Spread int `json:"spread,omitempty"`
}

type VCase struct {
	Fixed int     `json:"fixed"` // fixed parameters before the variadic tail (0..2), besides the depth
	Calls []VCall `json:"calls"`
	Loop  bool    `json:"loop"` // the calls are made from inside a loop body as well
}

func genVCase(rt *rapid.T) *VCase {
	c := &VCase{Fixed: rx.Range(rt, "fixed", 0, 2), Loop: rapid.Bool().Draw(rt, "loop")}
	for i := rx.Range(rt, "ncalls", 2, 6); i > 0; i-- {
		vc := VCall{N: rx.Pick(rt, "nvargs", 0, 1, 2, 3, 5, 7, 8, 9, 12), Depth: rx.Pick(rt, "depth", 0, 0, 1, 2)}
		if rx.Chance(rt, "spread", 1, 3) {
			vc.Spread = rx.Range(rt, "spreadform", 1, 4)
			if vc.Spread >= 3 {
				vc.N = 0
			}
		}
		c.Calls = append(c.Calls, vc)
	}
	return c
}

func checkVCase(c *VCase) (f *ev.Failure) {
	var src strings.Builder
	mk := func(format string, a ...any) *ev.Failure {
		return &ev.Failure{Kind: "vargs", Case: c, Msg: fmt.Sprintf(format, a...) + "\n--- script\n" + src.String()}
	}
	defer func() {
		if r := recover(); r != nil {
			f = mk("host panic: %v", r)
		}
	}()
	type held struct {
		id    int
		vargs []goatlang.Value // exactly the slice the native received
		after string           // what the native saw in it after its nested call returned
	}
	var log []*held
	vm := goat.New()
	argc := 2 + c.Fixed // id, depth, fixed...
	vm.Set("host.keep", goatlang.NewFunc(argc+1, 1, func(v *goatlang.VM, args []goatlang.Value, vargs ...goatlang.Value) []goatlang.Value {
		h := &held{id: args[0].Int(), vargs: vargs}
		log = append(log, h)
		if d := args[1].Int(); d > 0 {
			if _, err := v.Call("main.again", 1, goatlang.Int(h.id*10+1), goatlang.Int(d-1)); err != nil {
				panic(err)
			}
		}
		var s []string
		for _, x := range vargs {
			s = append(s, x.String())
		}
		h.after = strings.Join(s, " ")
		return []goatlang.Value{goatlang.Int(len(vargs))}
	}))
	fixed := ""
	for i := 0; i < c.Fixed; i++ {
		fixed += fmt.Sprintf("\"f%d\", ", i)
	}
	argsOf := func(id, n int) []string {
		var out []string
		for j := 0; j < n; j++ {
			out = append(out, fmt.Sprint(id*100+j))
		}
		return out
	}
	// the nested calls pass three arguments derived from their id
	src.WriteString("import \"host\"\n")
	src.WriteString("func none() []int {\n\treturn nil\n}\n")
	fmt.Fprintf(&src, "func again(id int, d int) int {\n\treturn host.keep(id, d, %sid*100, id*100+1, id*100+2)\n}\n", fixed)
	want := map[int][]string{}
	var expectNested func(id, d int)
	expectNested = func(id, d int) {
		want[id] = argsOf(id, 3)
		if d > 0 {
			expectNested(id*10+1, d-1)
		}
	}
	emit := func(ind string, id int, vc VCall) {
		al := argsOf(id, vc.N)
		want[id] = al
		if vc.Depth > 0 {
			expectNested(id*10+1, vc.Depth-1)
		}
		parts := []string{fmt.Sprint(id), fmt.Sprint(vc.Depth)}
		for i := 0; i < c.Fixed; i++ {
			parts = append(parts, fmt.Sprintf("\"f%d\"", i))
		}
		switch vc.Spread {
		case 0:
			parts = append(parts, al...)
		case 1:
			parts = append(parts, "[]int{"+strings.Join(al, ", ")+"}...")
		case 2:
			fmt.Fprintf(&src, "%sxs%d := []int{%s}\n", ind, id, strings.Join(al, ", "))
			parts = append(parts, fmt.Sprintf("xs%d...", id))
		case 3:
			fmt.Fprintf(&src, "%svar ns%d []int\n", ind, id)
			parts = append(parts, fmt.Sprintf("ns%d...", id))
		default:
			parts = append(parts, "none()...")
		}
		fmt.Fprintf(&src, "%sprintln(host.keep(%s))\n", ind, strings.Join(parts, ", "))
	}
	var wantOut strings.Builder
	for i, vc := range c.Calls {
		emit("", i+1, vc)
		fmt.Fprintln(&wantOut, vc.N)
	}
	if c.Loop {
		src.WriteString("for k := 0; k < 1; k++ {\n")
		for i, vc := range c.Calls {
			emit("\t", 500+i, vc)
			fmt.Fprintln(&wantOut, vc.N)
		}
		src.WriteString("}\n")
	}
	r := vm.Eval(nil, src.String(), goat.DefaultBudget)
	if r.Failed() {
		return mk("script failed: %s", r.ErrString())
	}
	if r.Stdout != wantOut.String() {
		return mk("script printed %q, expected %q", r.Stdout, wantOut.String())
	}
	if len(log) != len(want) {
		return mk("the native ran %d times, %d calls were made", len(log), len(want))
	}
	for _, h := range log {
		w := strings.Join(want[h.id], " ")
		if h.after != w {
			return mk("call #%d: after its nested call returned the native sees the variadic arguments [%s], it was called with [%s]", h.id, h.after, w)
		}
		var s []string
		for _, x := range h.vargs {
			s = append(s, x.String())
		}
		if got := strings.Join(s, " "); got != w {
			return mk("call #%d: the slice of variadic arguments the host kept holds [%s] at the end, the call passed [%s]", h.id, got, w)
		}
	}
	return nil
}

func TestVariadicNatives(t *testing.T) {
	r := ev.R()
	n := 0
	r.RapidCheck(t, func(rt *rapid.T) *ev.Failure {
		c := genVCase(rt)
		r.Eval(1)
		nested := false
		for _, vc := range c.Calls {
			nested = nested || vc.Depth > 0
			if vc.Spread > 0 {
				r.Class(fmt.Sprintf("variadic_native_called_with_spread_form=%d", vc.Spread))
			}
		}
		if nested {
			r.Nontrivial(ev.HashJSON(c))
			r.Class("variadic_native_reentered")
		}
		n++
		if n%400 == 1 {
			r.Sample(c)
		}
		return checkVCase(c)
	})
}

func replayVCase(raw json.RawMessage) *ev.Failure {
	var c VCase
	if err := json.Unmarshal(raw, &c); err != nil {
		return &ev.Failure{Kind: "vargs", Case: string(raw), Msg: "bad replay: " + err.Error()}
	}
	return checkVCase(&c)
}
