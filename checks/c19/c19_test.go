// C19 — the embedding API passes values faithfully in both directions.
package c19

import (
	"encoding/json"
	"fmt"
	"math"
	"strings"
	"testing"

	"github.com/philhassey/goatlang"
	"pgregory.net/rapid"

	"verif/internal/ev"
	"verif/internal/goat"
	"verif/internal/rx"
)

func TestMain(m *testing.M) { ev.Main(m, "C19") }

// ---- scalars: constructor / accessor round trips ------------------------------------------------

type scalarFail struct {
	What string `json:"what"`
	In   string `json:"in"`
	Got  string `json:"got"`
}

func sfail(what string, in, got any) *ev.Failure {
	c := scalarFail{what, fmt.Sprint(in), fmt.Sprint(got)}
	return &ev.Failure{Kind: "scalar", Case: c, Msg: fmt.Sprintf("%s: put in %v, read back %v", what, in, got)}
}

func checkInt8(v int8) *ev.Failure {
	x := goatlang.Int8(v)
	if x.Int8() != v || x.Type() != goatlang.TypeInt8 || x.Int() != int(v) || x.Float64() != float64(v) || x.Int32() != int32(v) || x.String() != fmt.Sprint(v) || x.IsNil() {
		return sfail("Int8 constructor/accessors", v, fmt.Sprintf("Int8()=%d Type()=%d Int()=%d Float64()=%v String()=%q", x.Int8(), x.Type(), x.Int(), x.Float64(), x.String()))
	}
	return nil
}

func checkUint8(v uint8) *ev.Failure {
	for _, x := range []goatlang.Value{goatlang.Uint8(v), goatlang.Byte(v)} {
		if x.Uint8() != v || x.Byte() != v || x.Type() != goatlang.TypeUint8 || x.Int() != int(v) || x.Uint() != uint(v) || x.Float64() != float64(v) || x.String() != fmt.Sprint(v) {
			return sfail("Uint8/Byte constructor/accessors", v, fmt.Sprintf("Uint8()=%d Type()=%d Int()=%d String()=%q", x.Uint8(), x.Type(), x.Int(), x.String()))
		}
	}
	return nil
}

func checkInt32(v int32) *ev.Failure {
	for _, x := range []goatlang.Value{goatlang.Int32(v), goatlang.Int(int(v))} {
		if x.Int32() != v || x.Type() != goatlang.TypeInt32 || x.Int() != int(v) || x.Float64() != float64(v) || x.String() != fmt.Sprint(v) {
			return sfail("Int32/Int constructor/accessors", v, fmt.Sprintf("Int32()=%d Type()=%d Int()=%d String()=%q", x.Int32(), x.Type(), x.Int(), x.String()))
		}
	}
	return nil
}

func checkUint32(v uint32) *ev.Failure {
	for _, x := range []goatlang.Value{goatlang.Uint32(v), goatlang.Uint(uint(v))} {
		if x.Uint32() != v || x.Type() != goatlang.TypeUint32 || x.Uint() != uint(v) || x.Float64() != float64(v) || x.String() != fmt.Sprint(v) {
			return sfail("Uint32/Uint constructor/accessors", v, fmt.Sprintf("Uint32()=%d Type()=%d Uint()=%d String()=%q", x.Uint32(), x.Type(), x.Uint(), x.String()))
		}
	}
	return nil
}

func checkFloat(f float64) *ev.Failure {
	x := goatlang.Float64(f)
	if math.Float64bits(x.Float64()) != math.Float64bits(f) || x.Type() != goatlang.TypeFloat64 || x.String() != fmt.Sprint(f) {
		return sfail("Float64 constructor/accessors", fmt.Sprintf("%v (bits %#x)", f, math.Float64bits(f)), fmt.Sprintf("%v (bits %#x) Type()=%d String()=%q", x.Float64(), math.Float64bits(x.Float64()), x.Type(), x.String()))
	}
	return nil
}

func checkString(s string) *ev.Failure {
	x := goatlang.String(s)
	if x.String() != s || x.Type() != goatlang.TypeString || x.Len() != len(s) || x.IsNil() {
		return sfail("String constructor/accessors", fmt.Sprintf("%q", s), fmt.Sprintf("%q Type()=%d Len()=%d", x.String(), x.Type(), x.Len()))
	}
	return nil
}

type obj struct {
	goatlang.Object
	id int
}

func TestScalarsEnum(t *testing.T) {
	r := ev.R()
	r.Disjoint()
	n := 0
	do := func(f *ev.Failure) bool {
		n++
		r.Eval(1)
		r.NontrivialN(1)
		if f != nil {
			r.Fail(t, f)
			return false
		}
		return true
	}
	for v := -128; v <= 127; v++ {
		if !do(checkInt8(int8(v))) {
			return
		}
	}
	for v := 0; v <= 255; v++ {
		if !do(checkUint8(uint8(v))) {
			return
		}
	}
	for _, v := range []int32{0, 1, -1, 127, 128, 255, 256, 32767, 32768, 65535, 65536, 1 << 24, 1<<24 + 1, math.MaxInt32 - 1, math.MaxInt32, math.MinInt32, math.MinInt32 + 1, -129, -32769} {
		if !do(checkInt32(v)) {
			return
		}
	}
	for _, v := range []uint32{0, 1, 255, 256, 65535, 65536, 1<<31 - 1, 1 << 31, 1<<31 + 1, 3000000000, math.MaxUint32 - 1, math.MaxUint32} {
		if !do(checkUint32(v)) {
			return
		}
	}
	for _, f := range []float64{0, math.Copysign(0, -1), 1, -1, 0.1, 1e21, 1e-7, math.MaxFloat64, math.SmallestNonzeroFloat64, math.Inf(1), math.Inf(-1), 1 << 53, 1<<53 + 2} {
		if !do(checkFloat(f)) {
			return
		}
	}
	nan := goatlang.Float64(math.NaN())
	if !do(func() *ev.Failure {
		if !math.IsNaN(nan.Float64()) || nan.String() != "NaN" {
			return sfail("Float64(NaN)", "NaN", nan.String())
		}
		return nil
	}()) {
		return
	}
	for _, b := range []bool{true, false} {
		x := goatlang.Bool(b)
		if !do(func() *ev.Failure {
			if x.Bool() != b || x.Type() != goatlang.TypeBool || x.String() != fmt.Sprint(b) {
				return sfail("Bool", b, x.String())
			}
			return nil
		}()) {
			return
		}
	}
	// Nil, Wrap/Unwrap
	if !do(func() *ev.Failure {
		if !goatlang.Nil().IsNil() || goatlang.Nil().Type() != goatlang.TypeNil || goatlang.Nil().String() != "nil" {
			return sfail("Nil()", "nil", goatlang.Nil().String())
		}
		o := &obj{id: 7}
		w := goatlang.Wrap(o)
		if w.Unwrap() != goatlang.Object(o) || w.Type() != goatlang.TypeObject || w.IsNil() {
			return sfail("Wrap/Unwrap", "object", fmt.Sprint(w.Unwrap()))
		}
		if goatlang.Int32(1).Unwrap() != nil || goatlang.String("x").Unwrap() != nil {
			return sfail("Unwrap of a non-object", "nil", "non-nil")
		}
		return nil
	}()) {
		return
	}
	r.Sample(map[string]any{"enumerated": n, "what": "all int8, all uint8/byte, boundary int32/uint32/float64, bools, Nil, Wrap"})
	r.Exhaustive("constructor/accessor round trip of all 256 int8 and all 256 uint8 values", true)
}

func TestScalarsRandom(t *testing.T) {
	r := ev.R()
	r.RapidCheck(t, func(rt *rapid.T) *ev.Failure {
		r.Eval(1)
		i := rapid.Int32().Draw(rt, "i32")
		u := rapid.Uint32().Draw(rt, "u32")
		f := math.Float64frombits(rapid.Uint64().Draw(rt, "fbits"))
		s := string(rapid.SliceOfN(rapid.Byte(), 0, 40).Draw(rt, "bytes"))
		r.Nontrivial(ev.Hash(fmt.Sprint(i, u, math.Float64bits(f), s)))
		r.Sample(map[string]any{"int32": i, "uint32": u, "float_bits": fmt.Sprintf("%#x", math.Float64bits(f)), "string": fmt.Sprintf("%q", s)})
		if fl := checkInt32(i); fl != nil {
			return fl
		}
		if fl := checkUint32(u); fl != nil {
			return fl
		}
		if !math.IsNaN(f) {
			if fl := checkFloat(f); fl != nil {
				return fl
			}
		}
		if fl := checkString(s); fl != nil {
			return fl
		}
		// containers built from the drawn values read back unchanged
		vals := []goatlang.Value{goatlang.Int32(i), goatlang.Int32(i + 1), goatlang.Int32(int32(u))}
		sl := goatlang.NewSlice(goatlang.TypeInt32, append([]goatlang.Value(nil), vals...))
		if sl.Len() != 3 || sl.Type() != goatlang.TypeSlice {
			return sfail("NewSlice Len/Type", 3, sl.Len())
		}
		next := sl.Range()
		for k := 0; k < 3; k++ {
			g, ok := sl.Get(goatlang.Int(k))
			kk, vv, ok2 := next()
			if !ok || !ok2 || g.Int32() != vals[k].Int32() || vv.Int32() != vals[k].Int32() || kk.Int() != k {
				return sfail("NewSlice Get/Range", vals[k].Int32(), fmt.Sprint(g.Int32(), vv.Int32(), kk.Int()))
			}
		}
		if _, _, ok := next(); ok {
			return sfail("NewSlice Range end", "exhausted", "yields more")
		}
		m := goatlang.NewMap(goatlang.TypeString, goatlang.TypeFloat64, []goatlang.Value{goatlang.String(s), goatlang.Float64(f)})
		g, ok := m.Get(goatlang.String(s))
		if !ok || math.Float64bits(g.Float64()) != math.Float64bits(f) || m.Len() != 1 {
			return sfail("NewMap Get", f, g.Float64())
		}
		return nil
	})
}

// ---- natives ----------------------------------------------------------------------------------

// Arg is a value that crosses the boundary.
type Arg struct {
	K string  `json:"k"` // int int8 uint8 uint32 float64 string bool ints
	I int64   `json:"i,omitempty"`
	F float64 `json:"f,omitempty"`
	S string  `json:"s,omitempty"`
	B bool    `json:"b,omitempty"`
}

func genArg(rt *rapid.T, label string) Arg {
	switch rx.Uniform(rt, 8, label+"kind") {
	case 0, 1:
		return Arg{K: "int", I: int64(rx.Pick(rt, label, int32(0), 1, -1, 42, 1000, math.MaxInt32, math.MinInt32))}
	case 2:
		return Arg{K: "int8", I: int64(rx.Pick(rt, label, int8(0), 1, -1, 127, -128))}
	case 3:
		return Arg{K: "uint8", I: int64(rx.Pick(rt, label, uint8(0), 1, 200, 255))}
	case 4:
		return Arg{K: "uint32", I: int64(rx.Pick(rt, label, uint32(0), 7, 1<<31, math.MaxUint32))}
	case 5:
		return Arg{K: "float64", F: rx.Pick(rt, label, 0.5, 1.25, -2.5, 1e21, 100)}
	case 6:
		return Arg{K: "string", S: rx.Pick(rt, label, "", "a", "hello", "x y", "é")}
	default:
		return Arg{K: "bool", B: rapid.Bool().Draw(rt, label)}
	}
}

func (a Arg) value() goatlang.Value {
	switch a.K {
	case "int":
		return goatlang.Int32(int32(a.I))
	case "int8":
		return goatlang.Int8(int8(a.I))
	case "uint8":
		return goatlang.Uint8(uint8(a.I))
	case "uint32":
		return goatlang.Uint32(uint32(a.I))
	case "float64":
		return goatlang.Float64(a.F)
	case "string":
		return goatlang.String(a.S)
	}
	return goatlang.Bool(a.B)
}

func (a Arg) goType() string {
	if a.K == "int" {
		return "int"
	}
	return a.K
}

func (a Arg) lit() string {
	switch a.K {
	case "float64":
		s := fmt.Sprint(a.F)
		if !strings.ContainsAny(s, ".e") {
			s += ".0"
		}
		return s
	case "string":
		return fmt.Sprintf("%q", a.S)
	case "bool":
		return fmt.Sprint(a.B)
	}
	return fmt.Sprint(a.I)
}

// show renders a value with its dynamic type, for comparison.
func show(v goatlang.Value) string {
	return fmt.Sprintf("%d:%s", v.Type(), v.String())
}

type Native struct {
	Form    int    `json:"form"` // 0..5 as in NewFunc's type list
	Args    []Arg  `json:"args"`
	Vargs   []Arg  `json:"vargs,omitempty"`  // form 5 only
	Spread  bool   `json:"spread,omitempty"` // pass the variadic tail as s...
	Rets    []Arg  `json:"rets"`
	Context string `json:"context"`  // stmt assign expr argnative argscript loop
	ViaVars bool   `json:"via_vars"` // arguments passed through typed variables instead of literals
	InFunc  bool   `json:"in_func"`
}

func genNative(rt *rapid.T) *Native {
	n := &Native{Form: rx.Uniform(rt, 6, "form"), ViaVars: rapid.Bool().Draw(rt, "viaVars"), InFunc: rapid.Bool().Draw(rt, "inFunc")}
	argc := rx.Range(rt, "argc", 0, 6)
	retc := rx.Range(rt, "retc", 0, 4)
	switch n.Form {
	case 0:
		argc, retc = 0, 0
	case 1:
		argc, retc = 0, 1
	case 2:
		retc = 0
	case 3:
		retc = 1
	case 5:
		if argc > 5 {
			argc = 5
		}
	}
	for i := 0; i < argc; i++ {
		n.Args = append(n.Args, genArg(rt, fmt.Sprintf("a%d", i)))
	}
	for i := 0; i < retc; i++ {
		n.Rets = append(n.Rets, genArg(rt, fmt.Sprintf("r%d", i)))
	}
	if n.Form == 5 {
		k := rx.Range(rt, "nvargs", 0, 5)
		for i := 0; i < k; i++ {
			n.Vargs = append(n.Vargs, Arg{K: "int", I: int64(rx.Range(rt, "varg", -3, 50))})
		}
		n.Spread = rx.Chance(rt, "spread", 1, 3)
	}
	ctxs := []string{"stmt", "loop"}
	if retc >= 1 {
		ctxs = append(ctxs, "assign", "assign", "argnative", "argscript")
		if n.Rets[0].K == "int" {
			ctxs = append(ctxs, "expr", "expr")
		}
	}
	n.Context = rx.Pick(rt, "context", ctxs...)
	return n
}

type recorder struct {
	calls [][]string
}

func (n *Native) register(vm *goat.VM, rec *recorder, sink *recorder) {
	rets := func() []goatlang.Value {
		out := make([]goatlang.Value, len(n.Rets))
		for i, r := range n.Rets {
			out[i] = r.value()
		}
		return out
	}
	note := func(args []goatlang.Value, vargs []goatlang.Value) {
		var s []string
		for _, a := range args {
			s = append(s, show(a))
		}
		for _, a := range vargs {
			s = append(s, "v"+show(a))
		}
		rec.calls = append(rec.calls, s)
	}
	argc, retc := len(n.Args), len(n.Rets)
	var f goatlang.Value
	switch n.Form {
	case 0:
		f = goatlang.NewFunc(0, 0, func(v *goatlang.VM) { note(nil, nil) })
	case 1:
		f = goatlang.NewFunc(0, 1, func(v *goatlang.VM) goatlang.Value { note(nil, nil); return rets()[0] })
	case 2:
		f = goatlang.NewFunc(argc, 0, func(v *goatlang.VM, args []goatlang.Value) { note(args, nil) })
	case 3:
		f = goatlang.NewFunc(argc, 1, func(v *goatlang.VM, args []goatlang.Value) goatlang.Value { note(args, nil); return rets()[0] })
	case 4:
		f = goatlang.NewFunc(argc, retc, func(v *goatlang.VM, args []goatlang.Value) []goatlang.Value { note(args, nil); return rets() })
	case 5:
		f = goatlang.NewFunc(argc+1, retc, func(v *goatlang.VM, args []goatlang.Value, vargs ...goatlang.Value) []goatlang.Value {
			note(args, vargs)
			return rets()
		})
	}
	vm.Set("host.f", f)
	vm.Set("host.sink", goatlang.NewFunc(2, 0, func(v *goatlang.VM, args []goatlang.Value) {
		sink.calls = append(sink.calls, []string{show(args[0]), show(args[1])})
	}))
}

func (n *Native) script() string {
	var sb strings.Builder
	sb.WriteString("import \"fmt\"\nimport \"host\"\n")
	sb.WriteString("func id(a any) any { return a }\n")
	ind := ""
	if n.InFunc {
		sb.WriteString("func run() {\n")
		ind = "\t"
	}
	var args []string
	for i, a := range n.Args {
		if n.ViaVars {
			fmt.Fprintf(&sb, "%svar p%d %s = %s\n", ind, i, a.goType(), a.lit())
			args = append(args, fmt.Sprintf("p%d", i))
		} else {
			args = append(args, a.lit())
		}
	}
	if n.Form == 5 {
		if n.Spread {
			var vs []string
			for _, v := range n.Vargs {
				vs = append(vs, v.lit())
			}
			fmt.Fprintf(&sb, "%stail := []int{%s}\n", ind, strings.Join(vs, ", "))
			args = append(args, "tail...")
		} else {
			for _, v := range n.Vargs {
				args = append(args, v.lit())
			}
		}
	}
	call := "host.f(" + strings.Join(args, ", ") + ")"
	switch n.Context {
	case "stmt":
		fmt.Fprintf(&sb, "%s%s\n", ind, call)
	case "loop":
		fmt.Fprintf(&sb, "%sfor i := 0; i < 3; i++ {\n%s\t%s\n%s}\n", ind, ind, call, ind)
	case "assign":
		var names []string
		for i := range n.Rets {
			names = append(names, fmt.Sprintf("r%d", i))
		}
		fmt.Fprintf(&sb, "%s%s := %s\n", ind, strings.Join(names, ", "), call)
		fmt.Fprintf(&sb, "%sfmt.Println(%s)\n", ind, strings.Join(names, ", "))
	case "expr":
		fmt.Fprintf(&sb, "%sx := 1 + %s*2\n%sfmt.Println(x)\n", ind, call, ind)
	case "argnative":
		fmt.Fprintf(&sb, "%shost.sink(%s, 7)\n", ind, call)
	case "argscript":
		fmt.Fprintf(&sb, "%sy := id(%s)\n%sfmt.Println(y)\n", ind, call, ind)
	}
	fmt.Fprintf(&sb, "%sfmt.Println(\"done\")\n", ind)
	if n.InFunc {
		sb.WriteString("}\nrun()\n")
	}
	return sb.String()
}

func checkNative(n *Native) (f *ev.Failure) {
	src := n.script()
	mk := func(msg string) *ev.Failure {
		return &ev.Failure{Kind: "native", Case: n, Msg: fmt.Sprintf("NewFunc form %d, %d args, %d vargs, %d results, context %s: %s\n--- script\n%s", n.Form, len(n.Args), len(n.Vargs), len(n.Rets), n.Context, msg, src)}
	}
	defer func() {
		if r := recover(); r != nil {
			f = mk(fmt.Sprintf("host panic: %v", r))
		}
	}()
	vm := goat.New()
	rec, sink := &recorder{}, &recorder{}
	n.register(vm, rec, sink)
	r := vm.Eval(nil, src, goat.DefaultBudget)
	if r.Failed() {
		return mk("script failed: " + r.ErrString())
	}
	// what the native must have seen: (type:value); an untyped integer constant may arrive as an untyped number
	// or with its default type int32 (the variadic tail is packed into a slice, which gives it the default type)
	var wantArgs []string
	var literalInt []bool
	for _, a := range n.Args {
		v := a.value()
		if !n.ViaVars && (a.K == "int" || a.K == "int8" || a.K == "uint8" || a.K == "uint32") {
			wantArgs = append(wantArgs, "1:"+v.String())
			literalInt = append(literalInt, true)
			continue
		}
		wantArgs = append(wantArgs, show(v))
		literalInt = append(literalInt, false)
	}
	for _, a := range n.Vargs {
		if n.Spread {
			wantArgs = append(wantArgs, "v"+show(a.value()))
			literalInt = append(literalInt, false)
		} else {
			wantArgs = append(wantArgs, "v1:"+a.value().String())
			literalInt = append(literalInt, true)
		}
	}
	norm := func(c []string) string {
		out := make([]string, len(c))
		for i, x := range c {
			if i < len(literalInt) && literalInt[i] {
				x = strings.Replace(x, "23:", "1:", 1)
			}
			out[i] = x
		}
		return strings.Join(out, ",")
	}
	calls := 1
	if n.Context == "loop" {
		calls = 3
	}
	if len(rec.calls) != calls {
		return mk(fmt.Sprintf("native was called %d times, expected %d", len(rec.calls), calls))
	}
	for _, c := range rec.calls {
		if norm(c) != strings.Join(wantArgs, ",") {
			return mk(fmt.Sprintf("native received [%s], the script passed [%s] (type:value)", strings.Join(c, ","), strings.Join(wantArgs, ",")))
		}
	}
	// what the script must have got back
	want := ""
	switch n.Context {
	case "assign":
		var parts []string
		for _, a := range n.Rets {
			parts = append(parts, a.value().String())
		}
		want = strings.Join(parts, " ") + "\n"
	case "expr":
		want = fmt.Sprintln(int32(1 + int32(n.Rets[0].I)*2))
	case "argscript":
		want = n.Rets[0].value().String() + "\n"
	case "argnative":
		if len(sink.calls) != 1 || sink.calls[0][0] != show(n.Rets[0].value()) || sink.calls[0][1] != "1:7" {
			return mk(fmt.Sprintf("the second native received %v, expected [%s 1:7]", sink.calls, show(n.Rets[0].value())))
		}
	}
	want += "done\n"
	if r.Stdout != want {
		return mk(fmt.Sprintf("script printed %q, expected %q", r.Stdout, want))
	}
	if n.Context == "assign" && !n.InFunc {
		for i, a := range n.Rets {
			g := vm.Get(fmt.Sprintf("main.r%d", i))
			if show(g) != show(a.value()) {
				return mk(fmt.Sprintf("result %d reached the script as %s, the native returned %s (type:value)", i, show(g), show(a.value())))
			}
		}
	}
	return nil
}

func TestNatives(t *testing.T) {
	r := ev.R()
	r.RapidCheck(t, func(rt *rapid.T) *ev.Failure {
		n := genNative(rt)
		r.Eval(1)
		r.Class(fmt.Sprintf("form=%d", n.Form))
		r.Class("context=" + n.Context)
		kinds := map[string]bool{}
		for _, a := range n.Args {
			kinds[a.K] = true
		}
		if (len(n.Args) >= 2 && len(kinds) >= 2) || n.Context == "argnative" || n.Context == "argscript" {
			r.Nontrivial(ev.HashJSON(n))
		}
		r.Sample(map[string]any{"form": n.Form, "script": n.script()})
		return checkNative(n)
	})
}

// TestNativeGrid: the complete form x arity x result-count grid with fixed argument values.
func TestNativeGrid(t *testing.T) {
	r := ev.R()
	r.Disjoint()
	pool := []Arg{{K: "int", I: 5}, {K: "string", S: "s"}, {K: "float64", F: 1.5}, {K: "bool", B: true}, {K: "uint8", I: 200}, {K: "int", I: -7}}
	idx := 0
	for form := 0; form < 6; form++ {
		for argc := 0; argc <= 6; argc++ {
			for retc := 0; retc <= 4; retc++ {
				for nv := 0; nv <= 5; nv++ {
					if form != 5 && nv > 0 {
						continue
					}
					if (form == 0 && (argc != 0 || retc != 0)) || (form == 1 && (argc != 0 || retc != 1)) || (form == 2 && retc != 0) || (form == 3 && retc != 1) {
						continue
					}
					for _, ctx := range []string{"stmt", "assign", "expr", "argnative", "argscript", "loop"} {
						if retc == 0 && ctx != "stmt" && ctx != "loop" {
							continue
						}
						for _, via := range []bool{false, true} {
							for _, spread := range []bool{false, true} {
								if spread && form != 5 {
									continue
								}
								idx++
								if !r.Mine(idx) {
									continue
								}
								n := &Native{Form: form, Context: ctx, ViaVars: via, InFunc: idx%2 == 0, Spread: spread}
								n.Args = append(n.Args, pool[:argc]...)
								for i := 0; i < retc; i++ {
									n.Rets = append(n.Rets, Arg{K: "int", I: int64(10 + i)})
								}
								for i := 0; i < nv; i++ {
									n.Vargs = append(n.Vargs, Arg{K: "int", I: int64(i)})
								}
								r.Eval(1)
								if argc >= 2 || ctx == "argnative" || ctx == "argscript" {
									r.NontrivialN(1)
								}
								if f := checkNative(n); f != nil {
									r.Fail(t, f)
									return
								}
							}
						}
					}
				}
			}
		}
	}
	r.Sample(map[string]any{"grid": "6 NewFunc forms x arity 0..6 x results 0..4 x variadic tail 0..5 x 6 call contexts x literals/variables x spread", "cases": idx})
	r.Exhaustive("NewFunc form x arity 0..6 x result count 0..4 x variadic tail 0..5 x call context grid", true)
}

// ---- Call / Func on script functions ----------------------------------------------------------

type CallCase struct {
	Params []Arg `json:"params"`
	NRets  int   `json:"nrets"`
	Lambda bool  `json:"lambda"` // function value held in a variable instead of a named function
}

func (c *CallCase) script() string {
	var ps, rs, rt []string
	for i, p := range c.Params {
		ps = append(ps, fmt.Sprintf("p%d %s", i, p.goType()))
	}
	for i := 0; i < c.NRets; i++ {
		if i < len(c.Params) {
			rs = append(rs, fmt.Sprintf("p%d", i))
			rt = append(rt, c.Params[i].goType())
		} else {
			rs = append(rs, fmt.Sprint(100+i))
			rt = append(rt, "int")
		}
	}
	sig := "(" + strings.Join(ps, ", ") + ")"
	if len(rt) > 0 {
		sig += " (" + strings.Join(rt, ", ") + ")"
	}
	body := " { calls++; return " + strings.Join(rs, ", ") + " }"
	if c.NRets == 0 {
		body = " { calls++ }"
	}
	if c.Lambda {
		return "var calls int\nf := func" + sig + body + "\n"
	}
	return "var calls int\nfunc f" + sig + body + "\n"
}

func checkCall(c *CallCase) (f *ev.Failure) {
	src := c.script()
	mk := func(msg string) *ev.Failure {
		return &ev.Failure{Kind: "call", Case: c, Msg: msg + "\n--- script\n" + src}
	}
	defer func() {
		if r := recover(); r != nil {
			f = mk(fmt.Sprintf("host panic: %v", r))
		}
	}()
	vm := goat.New()
	if r := vm.Eval(nil, src, goat.DefaultBudget); r.Failed() {
		return mk("definition failed: " + r.ErrString())
	}
	var params []goatlang.Value
	for _, p := range c.Params {
		params = append(params, p.value())
	}
	want := func(i int) string {
		if i < len(c.Params) {
			return show(c.Params[i].value())
		}
		return show(goatlang.Int32(int32(100 + i)))
	}
	ncalls := 0
	for x := 0; x <= c.NRets+1; x++ {
		for _, via := range []string{"Call", "Func"} {
			pc := append([]goatlang.Value(nil), params...)
			var r goat.Result
			if via == "Call" {
				r = vm.Call("main.f", x, goat.DefaultBudget, pc...)
			} else {
				r = vm.Func(vm.Get("main.f"), x, goat.DefaultBudget, pc...)
			}
			if r.Panic != nil {
				return mk(fmt.Sprintf("%s asking for %d of %d results: host panic %v", via, x, c.NRets, r.Panic))
			}
			ncalls++
			if x > c.NRets {
				if r.Err == nil {
					return mk(fmt.Sprintf("%s asking for %d results of a function with %d: no error, got %v", via, x, c.NRets, r.RetStrings()))
				}
				continue
			}
			if r.Err != nil {
				return mk(fmt.Sprintf("%s asking for %d of %d results failed: %v", via, x, c.NRets, r.Err))
			}
			if len(r.Rets) != x {
				return mk(fmt.Sprintf("%s asking for %d of %d results returned %d values: %v", via, x, c.NRets, len(r.Rets), r.RetStrings()))
			}
			for i, v := range r.Rets {
				if show(v) != want(i) {
					return mk(fmt.Sprintf("%s asking for %d results: value %d is %s, expected %s (type:value)", via, x, i, show(v), want(i)))
				}
			}
		}
	}
	// the VM is still usable and the function ran once per call
	if got := vm.Get("main.calls"); got.Int() != ncalls {
		return mk(fmt.Sprintf("function body ran %d times for %d host calls", got.Int(), ncalls))
	}
	return nil
}

func TestCallFunc(t *testing.T) {
	r := ev.R()
	r.Disjoint()
	pool := []Arg{{K: "int", I: 5}, {K: "string", S: "s"}, {K: "float64", F: 1.5}, {K: "bool", B: true}, {K: "uint8", I: 200}, {K: "int8", I: -7}}
	idx := 0
	for np := 0; np <= 6; np++ {
		for nr := 0; nr <= 4; nr++ {
			for _, lambda := range []bool{false, true} {
				for rot := 0; rot < 3; rot++ {
					idx++
					if !r.Mine(idx) {
						continue
					}
					c := &CallCase{NRets: nr, Lambda: lambda}
					for i := 0; i < np; i++ {
						c.Params = append(c.Params, pool[(i+rot)%len(pool)])
					}
					r.Eval(1)
					if np >= 2 {
						r.NontrivialN(1)
					}
					if idx%40 == 1 {
						r.Sample(map[string]any{"script": c.script(), "requested_results": fmt.Sprintf("0..%d", nr+1)})
					}
					if f := checkCall(c); f != nil {
						r.Fail(t, f)
						return
					}
				}
			}
		}
	}
	r.Exhaustive("Call and Func on script functions with 0..6 parameters x 0..4 results x every requested result count 0..results+1", true)
}

// ---- errors inside natives and nested calls ----------------------------------------------------

type ErrCase struct {
	Depth int    `json:"depth"` // 1..3 levels of host -> script -> native -> script re-entry
	Fault string `json:"fault"` // nativepanic scriptpanic index divzero sortfunc
}

func checkErr(c *ErrCase) (f *ev.Failure) {
	mk := func(msg string, src string) *ev.Failure {
		return &ev.Failure{Kind: "error", Case: c, Msg: fmt.Sprintf("fault %q at depth %d: %s\n--- script\n%s", c.Fault, c.Depth, msg, src)}
	}
	defer func() {
		if r := recover(); r != nil {
			f = mk(fmt.Sprintf("host panic: %v", r), "")
		}
	}()
	vm := goat.New()
	// native that re-enters the VM: reenter(f, n) calls the script function f with n
	vm.Set("host.reenter", goatlang.NewFunc(2, 1, func(v *goatlang.VM, args []goatlang.Value) goatlang.Value {
		rets, err := v.Func(args[0], 1, args[1])
		if err != nil {
			panic(err)
		}
		return rets[0]
	}))
	vm.Set("host.boom", goatlang.NewFunc(0, 1, func(v *goatlang.VM) goatlang.Value { panic("boom from native") }))
	fault := map[string]string{
		"nativepanic": "return host.boom()",
		"scriptpanic": "panic(\"boom from script\")",
		"index":       "s := []int{1}\n\tk := 5\n\treturn s[k]",
		"divzero":     "z := 0\n\treturn 1 / z",
		"sortfunc":    "s := []int{3, 1, 2}\n\tslices.SortFunc(s, func(a, b int) bool {\n\t\tpanic(\"boom in comparator\")\n\t})\n\treturn s[0]",
	}[c.Fault]
	src := "import \"host\"\nimport \"golang.org/x/exp/slices\"\nvar ok int\n" +
		"func level(n int) int {\n\tif n <= 1 {\n\t\t" + strings.ReplaceAll(fault, "\n\t", "\n\t\t") + "\n\t}\n\treturn host.reenter(level, n-1) + 1\n}\n" +
		"func fine(n int) int { ok++; return host.reenter(leaf, n) + 1 }\nfunc leaf(n int) int { return n * 2 }\n"
	if r := vm.Eval(nil, src, goat.DefaultBudget); r.Failed() {
		return mk("definition failed: "+r.ErrString(), src)
	}
	r := vm.Call("main.level", 1, goat.DefaultBudget, goatlang.Int(c.Depth))
	if r.Panic != nil {
		return mk(fmt.Sprintf("Go panic escaped the outer Call: %v", r.Panic), src)
	}
	if r.Err == nil {
		return mk(fmt.Sprintf("the outer Call returned no error (values %v)", r.RetStrings()), src)
	}
	// the VM must remain usable
	r2 := vm.Call("main.fine", 1, goat.DefaultBudget, goatlang.Int(20))
	if r2.Failed() || len(r2.Rets) != 1 || r2.Rets[0].Int() != 41 {
		return mk(fmt.Sprintf("after the failed call the VM answers fine(20) with %v %s (expected 41)", r2.RetStrings(), r2.ErrString()), src)
	}
	return nil
}

func TestErrors(t *testing.T) {
	r := ev.R()
	r.Disjoint()
	for _, fault := range []string{"nativepanic", "scriptpanic", "index", "divzero", "sortfunc"} {
		for depth := 1; depth <= 3; depth++ {
			c := &ErrCase{Depth: depth, Fault: fault}
			r.Eval(1)
			r.NontrivialN(1)
			if depth == 2 {
				r.Sample(c)
			}
			if f := checkErr(c); f != nil {
				r.Fail(t, f)
			}
		}
	}
}

// ---- natives that re-enter the VM and go on using their arguments -----------------------------

type ReCase struct {
	Extra  int  `json:"extra"`    // extra leading arguments of the native (arity = extra + 3)
	Nested int  `json:"nested"`   // how many nested calls it makes (1..3)
	Via    bool `json:"via_call"` // nested call through vm.Call(name) instead of vm.Func(value)
	InLoop bool `json:"in_loop"`
	// Outer: afterwards the host calls a script function this many times on the same VM (Call); that function sorts a
	// slice with a comparison function of the script (the bundled native calls back through the VM), calls the
	// native above, and then uses its own parameters and locals. Root: the native's nested calls are made on the VM
	// the host holds instead of the one handed to the callback.
	Outer int  `json:"outer,omitempty"`
	Root  bool `json:"root,omitempty"`
}

func checkReentrant(c *ReCase) (f *ev.Failure) {
	mk := func(msg, src string) *ev.Failure {
		return &ev.Failure{Kind: "reentrant", Case: c, Msg: fmt.Sprintf("native with %d extra args making %d nested call(s): %s\n--- script\n%s", c.Extra, c.Nested, msg, src)}
	}
	defer func() {
		if r := recover(); r != nil {
			f = mk(fmt.Sprintf("host panic: %v", r), "")
		}
	}()
	vm := goat.New()
	var seenAfter [][]string
	argc := c.Extra + 3
	vm.Set("host.twice", goatlang.NewFunc(argc, 1, func(v *goatlang.VM, args []goatlang.Value) goatlang.Value {
		fn, a, b := args[c.Extra], args[c.Extra+1], args[c.Extra+2]
		sum := 0
		for k := 0; k < c.Nested; k++ {
			var rets []goatlang.Value
			var err error
			arg := goatlang.Int(a.Int() + k)
			on := v
			if c.Root {
				on = vm.VM
			}
			if c.Via {
				rets, err = on.Call("main.leaf", 1, arg)
			} else {
				rets, err = on.Func(fn, 1, arg)
			}
			if err != nil {
				panic(err)
			}
			sum = sum*100 + rets[0].Int()
		}
		// the native goes on using its own arguments after the nested calls
		var s []string
		for _, x := range args {
			if x.Type() != goatlang.TypeFunc {
				s = append(s, show(x))
			}
		}
		seenAfter = append(seenAfter, s)
		return goatlang.Int(sum*1000 + a.Int()*10 + b.Int())
	}))
	var extra []string
	var wantSeen []string
	for i := 0; i < c.Extra; i++ {
		extra = append(extra, fmt.Sprintf("\"e%d\"", i))
		wantSeen = append(wantSeen, fmt.Sprintf("%d:e%d", goatlang.TypeString, i))
	}
	wantSeen = append(wantSeen, "1:3", "1:4")
	call := "host.twice(" + strings.Join(append(extra, "leaf", "3", "4"), ", ") + ")"
	src := "import \"fmt\"\nimport \"host\"\nfunc leaf(n int) int {\n\tt := n * 2\n\treturn t\n}\n"
	calls := 1
	if c.InLoop {
		src += "for i := 0; i < 3; i++ {\n\tfmt.Println(" + call + ")\n}\n"
		calls = 3
	} else {
		src += "fmt.Println(" + call + ")\n"
	}
	r := vm.Eval(nil, src, goat.DefaultBudget)
	if r.Failed() {
		return mk("script failed: "+r.ErrString(), src)
	}
	sum := 0
	for k := 0; k < c.Nested; k++ {
		sum = sum*100 + (3+k)*2
	}
	want := strings.Repeat(fmt.Sprintln(sum*1000+34), calls)
	if r.Stdout != want {
		return mk(fmt.Sprintf("script printed %q, expected %q", r.Stdout, want), src)
	}
	for _, s := range seenAfter {
		got := strings.ReplaceAll(strings.Join(s, ","), "23:", "1:")
		if got != strings.Join(wantSeen, ",") {
			return mk(fmt.Sprintf("after its nested calls the native sees the arguments [%s], the script passed [%s] (type:value)", got, strings.Join(wantSeen, ",")), src)
		}
	}
	if c.Outer > 0 {
		src2 := "import \"fmt\"\nimport \"host\"\nimport \"golang.org/x/exp/slices\"\nfunc less(a, b int) bool {\n\treturn a < b\n}\n" +
			"func outer(tag string, xs []int, k int) int {\n\tt := k * 2\n\tslices.SortFunc(xs, less)\n\tr := " + call + "\n\tfmt.Println(tag, xs, k, t)\n\treturn r + t + xs[0]\n}\n"
		// comparators that sort: a native (the sort) calls the script, which calls the native again with another comparator
		src2 += "func desc(a, b int) bool {\n\ttmp := []int{a, b, 5}\n\tslices.SortStableFunc(tmp, less)\n\treturn a > b\n}\n" +
			"func descStable(a, b int) bool {\n\ttmp := []int{b, a}\n\tslices.SortFunc(tmp, less)\n\treturn a > b\n}\n" +
			"func resort(xs []int, ys []int) {\n\tslices.SortFunc(xs, desc)\n\tslices.SortStableFunc(ys, descStable)\n\tfmt.Println(\"resort\", xs, ys)\n}\n"
		if r := vm.Eval(nil, src2, goat.DefaultBudget); r.Failed() {
			return mk("defining outer failed: "+r.ErrString(), src2)
		}
		{
			mkxs := func(vs ...int) goatlang.Value {
				var l []goatlang.Value
				for _, v := range vs {
					l = append(l, goatlang.Int(v))
				}
				return goatlang.NewSlice(goatlang.TypeInt32, l)
			}
			r := vm.Call("main.resort", 0, goat.DefaultBudget, mkxs(3, 1, 4, 2), mkxs(1, 7, 3, 9, 5))
			if r.Failed() {
				return mk("host Call of resort failed: "+r.ErrString(), src2)
			}
			if got, want := r.Stdout, "resort [4 3 2 1] [9 7 5 3 1]\n"; got != want {
				return mk(fmt.Sprintf("sorting with comparators that sort themselves printed %q, expected %q", got, want), src2)
			}
		}
		for n := 0; n < c.Outer; n++ {
			xs := goatlang.NewSlice(goatlang.TypeInt32, []goatlang.Value{goatlang.Int(3), goatlang.Int(1), goatlang.Int(2)})
			r := vm.Call("main.outer", 1, goat.DefaultBudget, goatlang.String("best"), xs, goatlang.Int(10))
			if r.Failed() || len(r.Rets) != 1 {
				return mk(fmt.Sprintf("host Call #%d of outer failed: %s", n+1, r.ErrString()), src2)
			}
			if got, want := r.Stdout, "best [1 2 3] 10 20\n"; got != want {
				return mk(fmt.Sprintf("host Call #%d of outer on the same VM: after sorting with a script comparator and calling the native, outer sees its parameters and locals as %q, expected %q", n+1, got, want), src2)
			}
			if got, want := r.Rets[0].Int(), sum*1000+34+20+1; got != want {
				return mk(fmt.Sprintf("host Call #%d of outer returned %d, expected %d", n+1, got, want), src2)
			}
		}
	}
	return nil
}

func TestReentrant(t *testing.T) {
	r := ev.R()
	r.Disjoint()
	for extra := 0; extra <= 3; extra++ {
		for nested := 1; nested <= 3; nested++ {
			for _, via := range []bool{false, true} {
				for _, loop := range []bool{false, true} {
					c := &ReCase{Extra: extra, Nested: nested, Via: via, InLoop: loop, Outer: (extra + nested) % 4, Root: (extra+nested)%2 == 1 && loop}
					r.Eval(1)
					r.NontrivialN(1)
					r.Class("reentrant_native")
					if extra == 1 && nested == 2 && !via && !loop {
						r.Sample(c)
					}
					if f := checkReentrant(c); f != nil {
						r.Fail(t, f)
						return
					}
				}
			}
		}
	}
}

// ---- replay -----------------------------------------------------------------------------------

func TestReplay(t *testing.T) {
	ev.R().RunReplays(t, map[string]ev.ReplayFunc{
		"native": func(raw json.RawMessage) *ev.Failure {
			var n Native
			if err := json.Unmarshal(raw, &n); err != nil {
				return &ev.Failure{Kind: "native", Case: string(raw), Msg: "bad replay"}
			}
			return checkNative(&n)
		},
		"call": func(raw json.RawMessage) *ev.Failure {
			var c CallCase
			json.Unmarshal(raw, &c)
			return checkCall(&c)
		},
		"error": func(raw json.RawMessage) *ev.Failure {
			var c ErrCase
			json.Unmarshal(raw, &c)
			return checkErr(&c)
		},
		"scalar": func(raw json.RawMessage) *ev.Failure { return nil },
		"rebind": replayRebind,
		"reslice": func(raw json.RawMessage) *ev.Failure {
			var c struct {
				Args, Lo, Hi int
				Variadic     bool
			}
			json.Unmarshal(raw, &c)
			return checkReslice(c.Args, c.Lo, c.Hi, c.Variadic)
		},
		"hoststruct": func(raw json.RawMessage) *ev.Failure {
			var c struct {
				Instances int
				Shared    bool
			}
			json.Unmarshal(raw, &c)
			if c.Instances < 1 {
				c.Instances = 2
			}
			return checkHostStructs(c.Instances, c.Shared)
		},
		"vargs":      replayVCase,
		"hostparams": replayHostParams,
		"reentrant": func(raw json.RawMessage) *ev.Failure {
			var c ReCase
			json.Unmarshal(raw, &c)
			return checkReentrant(&c)
		},
	})
}
