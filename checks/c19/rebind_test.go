package c19

// Names are looked up when they are called. One VM lives through a generated history in which natives are registered
// and re-registered under the same name (Set), script function variables are re-assigned, script functions are
// redefined by a later Eval, and each name is invoked through Call, through Func(Get(name)) and from script code.
// Model: what each name is bound to right now. Every invocation must reach exactly that function, with its argument,
// and hand its result back.

import (
	"encoding/json"
	"fmt"
	"strings"
	"testing"

	"github.com/philhassey/goatlang"
	"pgregory.net/rapid"

	"verif/internal/ev"
	"verif/internal/goat"
	"verif/internal/rx"
)

type BOp struct {
	Op   string `json:"op"`             // setnative assign redefine call
	Name int    `json:"name"`           // index into the name space of the op
	Src  int    `json:"src,omitempty"`  // assign: source (0..1 script function, 2..3 native)
	Via  string `json:"via,omitempty"`  // call: call func script
	Kind string `json:"kind,omitempty"` // call: native var fn
	Arg  int    `json:"arg,omitempty"`
}

type BCase struct {
	Ops []BOp `json:"ops"`
}

func genRebind(rt *rapid.T) *BCase {
	c := &BCase{}
	n := rx.Range(rt, "nops", 3, 30)
	for i := 0; i < n; i++ {
		switch rx.Weighted(rt, "bop", 3, 3, 2, 10) {
		case 0:
			c.Ops = append(c.Ops, BOp{Op: "setnative", Name: rx.Uniform(rt, 2, "native")})
		case 1:
			c.Ops = append(c.Ops, BOp{Op: "assign", Name: rx.Uniform(rt, 2, "var"), Src: rx.Uniform(rt, 4, "src")})
		case 2:
			c.Ops = append(c.Ops, BOp{Op: "redefine", Name: rx.Uniform(rt, 2, "fn")})
		default:
			c.Ops = append(c.Ops, BOp{Op: "call", Kind: rx.Pick(rt, "kind", "native", "var", "fn"), Name: rx.Uniform(rt, 2, "callee"), Via: rx.Pick(rt, "via", "call", "call", "func", "script"), Arg: rx.Range(rt, "arg", 1, 9)})
		}
	}
	return c
}

func checkRebind(c *BCase) (f *ev.Failure) {
	rec := ev.R()
	rec.Eval(1)
	var log strings.Builder
	mk := func(format string, a ...any) *ev.Failure {
		return &ev.Failure{Kind: "rebind", Case: c, Msg: fmt.Sprintf(format, a...) + "\n--- history\n" + log.String()}
	}
	defer func() {
		if r := recover(); r != nil {
			f = mk("host panic: %v", r)
		}
	}()
	vm := goat.New()
	nextID := 0
	native := [2]int{} // id bound to host.n<i>
	fnVer := [2]int{}  // id of the current body of main.s<i>
	varID := [2]int{-1, -1}
	varIsFn := [2]int{-1, -1} // when the variable holds script function s<k>: k (it follows redefinitions), else -1
	setNative := func(i int) {
		nextID++
		id := nextID
		native[i] = id
		fmt.Fprintf(&log, "Set(\"host.n%d\", native #%d)\n", i, id)
		vm.Set(fmt.Sprintf("host.n%d", i), goatlang.NewFunc(1, 1, func(v *goatlang.VM, args []goatlang.Value) goatlang.Value {
			return goatlang.Int(id*1000 + args[0].Int())
		}))
	}
	eval := func(src string) goat.Result {
		fmt.Fprintf(&log, "Eval: %s\n", strings.ReplaceAll(src, "\n", "; "))
		return vm.Eval(nil, src, goat.DefaultBudget)
	}
	define := func(i int) *ev.Failure {
		nextID++
		fnVer[i] = nextID
		if r := eval(fmt.Sprintf("func s%d(a int) int { return %d*1000 + a }", i, nextID)); r.Failed() {
			return mk("defining s%d failed: %s", i, r.ErrString())
		}
		return nil
	}
	setNative(0)
	setNative(1)
	if r := eval("import \"host\"\nvar h0 func(int) int\nvar h1 func(int) int"); r.Failed() {
		return mk("declarations failed: %s", r.ErrString())
	}
	for i := 0; i < 2; i++ {
		if f := define(i); f != nil {
			return f
		}
	}
	rebinds, callsAfterRebind := 0, 0
	called := map[string]bool{}
	stale := map[string]bool{}
	for si, op := range c.Ops {
		switch op.Op {
		case "setnative":
			setNative(op.Name)
			rebinds++
			if called[fmt.Sprintf("host.n%d", op.Name)] {
				stale[fmt.Sprintf("host.n%d", op.Name)] = true
			}
		case "redefine":
			if f := define(op.Name); f != nil {
				return f
			}
			rebinds++
			if called[fmt.Sprintf("main.s%d", op.Name)] {
				stale[fmt.Sprintf("main.s%d", op.Name)] = true
			}
		case "assign":
			var src string
			if op.Src < 2 {
				src = fmt.Sprintf("s%d", op.Src)
				varIsFn[op.Name] = op.Src
			} else {
				src = fmt.Sprintf("host.n%d", op.Src-2)
				varIsFn[op.Name] = -1
				varID[op.Name] = native[op.Src-2] // the native bound at this moment is copied into the variable
			}
			if r := eval(fmt.Sprintf("import \"host\"\nh%d = %s", op.Name, src)); r.Failed() {
				return mk("step %d: assignment failed: %s", si, r.ErrString())
			}
			rebinds++
			if called[fmt.Sprintf("main.h%d", op.Name)] {
				stale[fmt.Sprintf("main.h%d", op.Name)] = true
			}
		case "call":
			var name, expr string
			var id int
			switch op.Kind {
			case "native":
				name, expr, id = fmt.Sprintf("host.n%d", op.Name), fmt.Sprintf("host.n%d", op.Name), native[op.Name]
			case "fn":
				name, expr, id = fmt.Sprintf("main.s%d", op.Name), fmt.Sprintf("s%d", op.Name), fnVer[op.Name]
			default:
				name, expr = fmt.Sprintf("main.h%d", op.Name), fmt.Sprintf("h%d", op.Name)
				switch {
				case varIsFn[op.Name] >= 0:
					id = fnVer[varIsFn[op.Name]] // functions are redefined in place: the variable follows
				case varID[op.Name] >= 0:
					id = varID[op.Name]
				default:
					continue // the variable is still nil
				}
			}
			want := id*1000 + op.Arg
			var got string
			var r goat.Result
			switch op.Via {
			case "call":
				fmt.Fprintf(&log, "Call(%q, 1, %d)\n", name, op.Arg)
				r = vm.Call(name, 1, goat.DefaultBudget, goatlang.Int(op.Arg))
			case "func":
				fmt.Fprintf(&log, "Func(Get(%q), 1, %d)\n", name, op.Arg)
				r = vm.Func(vm.Get(name), 1, goat.DefaultBudget, goatlang.Int(op.Arg))
			default:
				r = eval(fmt.Sprintf("import \"host\"\nr%d := %s(%d)\nr%d", si, expr, op.Arg, si))
			}
			if r.Panic != nil {
				return mk("step %d: a Go panic escaped: %v", si, r.Panic)
			}
			if r.Err != nil {
				return mk("step %d: invoking %s (%s) failed: %s", si, name, op.Via, r.ErrString())
			}
			if len(r.Rets) != 1 {
				return mk("step %d: invoking %s (%s) returned %d values", si, name, op.Via, len(r.Rets))
			}
			got = r.Rets[0].String()
			if got != fmt.Sprint(want) {
				return mk("step %d: %s is bound to function #%d now; invoked with %d (%s) it returned %s, expected %d (result/1000 tells which function ran)", si, name, id, op.Arg, op.Via, got, want)
			}
			if stale[name] {
				callsAfterRebind++
			}
			if op.Via == "call" {
				called[name] = true
			}
		}
	}
	if callsAfterRebind > 0 {
		rec.Nontrivial(ev.HashJSON(c))
		rec.ClassN("rebind:calls_of_a_name_rebound_after_an_earlier_call", callsAfterRebind)
	}
	return nil
}

func TestRebind(t *testing.T) {
	n := 0
	ev.R().RapidCheck(t, func(rt *rapid.T) *ev.Failure {
		c := genRebind(rt)
		n++
		if n%500 == 1 {
			ev.R().Sample(c)
		}
		return checkRebind(c)
	})
}

func replayRebind(raw json.RawMessage) *ev.Failure {
	var c BCase
	if err := json.Unmarshal(raw, &c); err != nil {
		return &ev.Failure{Kind: "rebind", Case: string(raw), Msg: "bad replay: " + err.Error()}
	}
	return checkRebind(&c)
}
