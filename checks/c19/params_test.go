package c19

// The host's parameter slice. Call and Func take the parameters as a variadic list: a host that passes a slice it
// keeps (with room to spare behind its length, as slices built with make or append have) finds it unchanged after
// the call and can call again with it.

import (
	"encoding/json"
	"fmt"
	"testing"

	"github.com/philhassey/goatlang"

	"verif/internal/ev"
	"verif/internal/goat"
)

type HPCase struct {
	Params int  `json:"params"` // 1..4
	Spare  int  `json:"spare"`  // capacity beyond the length
	Rets   int  `json:"rets"`   // 1..2
	Via    bool `json:"via_func"`
}

func checkHostParams(c *HPCase) (f *ev.Failure) {
	mk := func(format string, a ...any) *ev.Failure {
		return &ev.Failure{Kind: "hostparams", Case: c, Msg: fmt.Sprintf("%d parameters in a slice with %d spare slots, %d results (through Func: %v): ", c.Params, c.Spare, c.Rets, c.Via) + fmt.Sprintf(format, a...)}
	}
	defer func() {
		if r := recover(); r != nil {
			f = mk("host panic: %v", r)
		}
	}()
	vm := goat.New()
	src := "func mix(a, b, c, d int) (int, int) {\n\tk := a*1000 + b*100 + c*10 + d\n\treturn k, k + 1\n}\n" +
		"func mix3(a, b, c int) (int, int) {\n\treturn mix(a, b, c, 0)\n}\nfunc mix2(a, b int) (int, int) {\n\treturn mix(a, b, 0, 0)\n}\nfunc mix1(a int) (int, int) {\n\treturn mix(a, 0, 0, 0)\n}\n"
	if r := vm.Eval(nil, src, goat.DefaultBudget); r.Failed() {
		return mk("definitions failed: %s", r.ErrString())
	}
	name := map[int]string{1: "main.mix1", 2: "main.mix2", 3: "main.mix3", 4: "main.mix"}[c.Params]
	args := make([]goatlang.Value, c.Params, c.Params+c.Spare)
	want := 0
	for i := range args {
		args[i] = goatlang.Int(i + 2)
		want = want*10 + i + 2
	}
	for i := c.Params; i < 4; i++ {
		want *= 10
	}
	for round := 1; round <= 3; round++ {
		var r goat.Result
		if c.Via {
			r = vm.Func(vm.Get(name), c.Rets, goat.DefaultBudget, args...)
		} else {
			r = vm.Call(name, c.Rets, goat.DefaultBudget, args...)
		}
		if r.Failed() || len(r.Rets) != c.Rets {
			return mk("call #%d failed: %v %s", round, r.RetStrings(), r.ErrString())
		}
		for j := 0; j < c.Rets; j++ {
			if got := r.Rets[j].Int(); got != want+j {
				return mk("call #%d with the same parameter slice: result %d is %d, expected %d", round, j, got, want+j)
			}
		}
		for i := range args {
			if args[i].Int() != i+2 {
				return mk("after call #%d the host's parameter slice reads %v, it was [2 3 4 5][:%d]", round, args, c.Params)
			}
		}
	}
	return nil
}

func TestHostParams(t *testing.T) {
	r := ev.R()
	r.Disjoint()
	for params := 1; params <= 4; params++ {
		for _, spare := range []int{0, 1, 2, 8} {
			for rets := 1; rets <= 2; rets++ {
				for _, via := range []bool{false, true} {
					c := &HPCase{Params: params, Spare: spare, Rets: rets, Via: via}
					r.Eval(1)
					if spare > 0 {
						r.NontrivialN(1)
					}
					if f := checkHostParams(c); f != nil {
						r.Fail(t, f)
						return
					}
				}
			}
		}
	}
	r.Exhaustive("1-4 parameters passed from a slice with 0, 1, 2 or 8 spare slots, 1-2 results, Call and Func, three calls with the same slice", true)
}

func replayHostParams(raw json.RawMessage) *ev.Failure {
	var c HPCase
	if err := json.Unmarshal(raw, &c); err != nil {
		return &ev.Failure{Kind: "hostparams", Case: string(raw), Msg: "bad replay: " + err.Error()}
	}
	return checkHostParams(&c)
}
