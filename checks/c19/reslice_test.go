package c19

// Natives that hand back parts of what they were given, and instances built by the host.

import (
	"fmt"
	"strings"
	"testing"

	"github.com/philhassey/goatlang"

	"verif/internal/ev"
	"verif/internal/goat"
)

// TestResliceResults: a native of the N->M forms may return a reslice of its own argument slice (args[k:], args[k:j],
// vargs[k:]) as its results; the script and Call receive exactly those values, in order.
func TestResliceResults(t *testing.T) {
	r := ev.R()
	r.Disjoint()
	for n := 1; n <= 5; n++ {
		for lo := 0; lo < n; lo++ {
			for hi := lo + 1; hi <= n; hi++ {
				for _, variadic := range []bool{false, true} {
					c := map[string]any{"args": n, "lo": lo, "hi": hi, "variadic": variadic}
					r.Eval(1)
					if lo > 0 {
						r.NontrivialN(1)
					}
					if f := checkReslice(n, lo, hi, variadic); f != nil {
						f.Case = c
						r.Fail(t, f)
						return
					}
				}
			}
		}
	}
	r.Exhaustive("natives returning args[lo:hi] for 1-5 arguments, fixed and variadic form, through a script call and through Call", true)
}

func checkReslice(n, lo, hi int, variadic bool) (f *ev.Failure) {
	mk := func(format string, a ...any) *ev.Failure {
		return &ev.Failure{Kind: "reslice", Msg: fmt.Sprintf("native with %d arguments (variadic form %v) returning args[%d:%d]: ", n, variadic, lo, hi) + fmt.Sprintf(format, a...)}
	}
	defer func() {
		if p := recover(); p != nil {
			f = mk("host panic: %v", p)
		}
	}()
	vm := goat.New()
	rets := hi - lo
	if variadic {
		vm.Set("host.part", goatlang.NewFunc(1, rets, func(v *goatlang.VM, args []goatlang.Value, vargs ...goatlang.Value) []goatlang.Value {
			return vargs[lo:hi]
		}))
	} else {
		vm.Set("host.part", goatlang.NewFunc(n, rets, func(v *goatlang.VM, args []goatlang.Value) []goatlang.Value {
			return args[lo:hi]
		}))
	}
	var args, lhs, want []string
	var params []goatlang.Value
	for i := 0; i < n; i++ {
		switch i % 3 {
		case 0:
			args = append(args, fmt.Sprint(10+i))
			params = append(params, goatlang.Int(10+i))
		case 1:
			args = append(args, fmt.Sprintf("\"s%d\"", i))
			params = append(params, goatlang.String(fmt.Sprintf("s%d", i)))
		default:
			args = append(args, fmt.Sprintf("%d.5", i))
			params = append(params, goatlang.Float64(float64(i)+0.5))
		}
	}
	for i := lo; i < hi; i++ {
		lhs = append(lhs, fmt.Sprintf("r%d", i))
		want = append(want, params[i].String())
	}
	src := "import \"host\"\n" + strings.Join(lhs, ", ") + " := host.part(" + strings.Join(args, ", ") + ")\nprintln(" + strings.Join(lhs, ", ") + ")\n"
	res := vm.Eval(nil, src, goat.DefaultBudget)
	if res.Failed() {
		return mk("script failed: %s\n--- script\n%s", res.ErrString(), src)
	}
	if got := strings.TrimSuffix(res.Stdout, "\n"); got != strings.Join(want, " ") {
		return mk("the script received [%s], the native returned [%s]\n--- script\n%s", got, strings.Join(want, " "), src)
	}
	cr := vm.Call("host.part", rets, goat.DefaultBudget, params...)
	if cr.Failed() {
		return mk("Call failed: %s", cr.ErrString())
	}
	var got []string
	for _, v := range cr.Rets {
		got = append(got, v.String())
	}
	if strings.Join(got, " ") != strings.Join(want, " ") {
		return mk("Call returned [%s], the native returned [%s]", strings.Join(got, " "), strings.Join(want, " "))
	}
	return nil
}

// TestHostStructs: instances built with NewStruct are independent of one another, of the type's zero value and of
// instances the script creates.
func TestHostStructs(t *testing.T) {
	r := ev.R()
	r.Disjoint()
	for n := 1; n <= 4; n++ {
		for _, shared := range []bool{false, true} {
			r.Eval(1)
			r.NontrivialN(1)
			if f := checkHostStructs(n, shared); f != nil {
				r.Fail(t, f)
				return
			}
		}
	}
}

// shared: the host builds all instances from one initialiser slice, patching the values between the calls
func checkHostStructs(n int, shared bool) (f *ev.Failure) {
	mk := func(format string, a ...any) *ev.Failure {
		return &ev.Failure{Kind: "hoststruct", Case: map[string]any{"instances": n, "shared": shared}, Msg: fmt.Sprintf(format, a...)}
	}
	defer func() {
		if p := recover(); p != nil {
			f = mk("host panic: %v", p)
		}
	}()
	vm := goat.New()
	if res := vm.Eval(nil, "type T struct { X int; S string; L []int }\nfunc (t *T) Sum() int { return t.X + len(t.S) + len(t.L) }\nfunc Fresh() *T { return &T{} }\n", goat.DefaultBudget); res.Failed() {
		return mk("declaring the type failed: %s", res.ErrString())
	}
	base := vm.Get("main.T")
	var insts []goatlang.Value
	data := []goatlang.Value{goatlang.String("X"), goatlang.Int(0), goatlang.String("S"), goatlang.String("")}
	for i := 0; i < n; i++ {
		if !shared {
			data = []goatlang.Value{goatlang.String("X"), goatlang.Int(0), goatlang.String("S"), goatlang.String("")}
		}
		data[1], data[3] = goatlang.Int(i+1), goatlang.String(strings.Repeat("a", i))
		insts = append(insts, goatlang.NewStruct(base, data))
		if data[0].String() != "X" || data[2].String() != "S" || data[1].Int() != i+1 {
			return mk("NewStruct changed the initialiser slice it was given: it now reads %v", data)
		}
	}
	check := func(stage string) *ev.Failure {
		for i, v := range insts {
			if got := v.GetAttr("X").Int(); got != i+1 && !(stage == "after SetAttr" && i == 0 && got == 99) {
				return mk("%s: instance %d of %d has X = %d, it was built with X = %d", stage, i, n, got, i+1)
			}
			if got := v.GetAttr("S").String(); got != strings.Repeat("a", i) {
				return mk("%s: instance %d has S = %q, it was built with %q", stage, i, got, strings.Repeat("a", i))
			}
		}
		fr := vm.Call("main.Fresh", 1, goat.DefaultBudget)
		if fr.Failed() || len(fr.Rets) != 1 {
			return mk("%s: Fresh() failed: %s", stage, fr.ErrString())
		}
		if x, s := fr.Rets[0].GetAttr("X").Int(), fr.Rets[0].GetAttr("S").String(); x != 0 || s != "" {
			return mk("%s: a struct the script creates with &T{} has X = %d, S = %q (zero values expected)", stage, x, s)
		}
		return nil
	}
	if f := check("after construction"); f != nil {
		return f
	}
	insts[0].SetAttr("X", goatlang.Int(99))
	if f := check("after SetAttr"); f != nil {
		return f
	}
	if got := insts[0].GetAttr("X").Int(); got != 99 {
		return mk("SetAttr(X, 99) on instance 0 reads back %d", got)
	}
	// the script sees each instance as its own
	for i, v := range insts {
		vm.Set("main.hi", v)
		res := vm.Eval(nil, "hsum := hi.Sum()\nhsum", goat.DefaultBudget)
		want := i + 1 + i
		if i == 0 {
			want = 99
		}
		if res.Failed() || len(res.Rets) != 1 || res.Rets[0].Int() != want {
			return mk("the script computes Sum() = %v %s on instance %d, expected %d", res.RetStrings(), res.ErrString(), i, want)
		}
	}
	return nil
}
