// C18 — incremental evaluation equals whole-program evaluation.
//
// A generated program is turned into a REPL-dialect sequence of top-level statements (imports, constants, types,
// functions, methods, an init function, variable declarations, then the statements of its Main body at top
// level, then a final expression). The sequence is evaluated by one VM in a single Eval call and by another VM
// chunk by chunk (successive Eval calls sharing the REPL's import map); output, final values of all globals and
// the value of the last expression must be the same.
package c18

import (
	"encoding/json"
	"fmt"
	"go/ast"
	"go/parser"
	"go/token"
	"regexp"
	"sort"
	"strings"
	"testing"

	"github.com/philhassey/goatlang"
	"pgregory.net/rapid"

	"verif/internal/ev"
	"verif/internal/gen"
	"verif/internal/goat"
	"verif/internal/rx"
)

func TestMain(m *testing.M) { ev.Main(m, "C18") }

type Case struct {
	Units   []string `json:"units"`   // top-level statements, in order
	Cuts    []int    `json:"cuts"`    // chunk boundaries: indexes into Units where a new chunk starts (ascending, >0)
	Globals []string `json:"globals"` // names whose final values are compared
}

// unitsOf turns a generated single-package program into REPL units.
func unitsOf(src string) (units []string, globals []string, err error) {
	fset := token.NewFileSet()
	f, err := parser.ParseFile(fset, "prog.go", src, 0)
	if err != nil {
		return nil, nil, err
	}
	text := func(n ast.Node) string { return src[fset.Position(n.Pos()).Offset:fset.Position(n.End()).Offset] }
	dedent := func(s string) string {
		lines := strings.Split(s, "\n")
		for i, l := range lines {
			lines[i] = strings.TrimPrefix(l, "\t")
		}
		return strings.Join(lines, "\n")
	}
	var mainBody *ast.BlockStmt
	for _, d := range f.Decls {
		switch x := d.(type) {
		case *ast.FuncDecl:
			if x.Name.Name == "Main" && x.Recv == nil {
				mainBody = x.Body
				continue
			}
			units = append(units, text(d))
		case *ast.GenDecl:
			units = append(units, text(d))
			if x.Tok == token.VAR {
				for _, sp := range x.Specs {
					for _, n := range sp.(*ast.ValueSpec).Names {
						globals = append(globals, n.Name)
					}
				}
			}
		}
	}
	if mainBody != nil {
		for _, st := range mainBody.List {
			units = append(units, dedent(text(st)))
			switch x := st.(type) {
			case *ast.AssignStmt:
				if x.Tok == token.DEFINE {
					for _, l := range x.Lhs {
						if id, ok := l.(*ast.Ident); ok && id.Name != "_" {
							globals = append(globals, id.Name)
						}
					}
				}
			case *ast.DeclStmt:
				if gd, ok := x.Decl.(*ast.GenDecl); ok && gd.Tok == token.VAR {
					for _, sp := range gd.Specs {
						for _, n := range sp.(*ast.ValueSpec).Names {
							globals = append(globals, n.Name)
						}
					}
				}
			}
		}
	}
	return units, globals, nil
}

var mapRe = regexp.MustCompile(`map\[([^\[\]]*)\]`)

func norm(s string) string {
	return mapRe.ReplaceAllStringFunc(s, func(m string) string {
		parts := strings.Fields(m[4 : len(m)-1])
		sort.Strings(parts)
		return "map[" + strings.Join(parts, " ") + "]"
	})
}

func showVal(v goatlang.Value) string { return fmt.Sprintf("%d:%s", v.Type(), norm(v.String())) }

type outcome struct {
	Stdout  string
	Err     string
	Rets    []string
	Globals map[string]string
	Budget  bool
}

func errKind(r goat.Result) string {
	if r.Panic != nil {
		return "host panic: " + fmt.Sprint(r.Panic)
	}
	if r.Err == nil {
		return ""
	}
	first := strings.SplitN(r.Err.Error(), "\n", 2)[0]
	if i := strings.LastIndex(first, ": "); i >= 0 {
		return first[i+2:]
	}
	return first
}

// scriptPkgs are importable script packages: two of them share the package name (their import paths differ), one has
// state that later statements change and read.
var scriptPkgs = map[string]string{
	"geom/util/u.go":   "package util\n\nvar Calls int\n\nfunc Area(a int, b int) int {\n\tCalls++\n\treturn a*b + Calls\n}\n",
	"text/util/u.go":   "package util\n\nfunc Pad(s string) string {\n\treturn \"[\" + s + \"]\"\n}\n",
	"lib/counter/c.go": "package counter\n\nvar N = 10\n\nfunc Next() int {\n\tN++\n\treturn N\n}\n",
}

func run(c *Case, chunks [][]string) outcome {
	vm := goat.New()
	imports := map[string]string{}
	o := outcome{Globals: map[string]string{}}
	var budget int64 = 20_000_000
	for _, ch := range chunks {
		r := vm.Eval(goat.FS(scriptPkgs), strings.Join(ch, "\n")+"\n", budget, goatlang.WithEvalImports(imports))
		o.Stdout += r.Stdout
		if r.Budget {
			o.Budget = true
			return o
		}
		budget -= r.Ticks
		o.Rets = nil
		for _, v := range r.Rets {
			o.Rets = append(o.Rets, showVal(v))
		}
		if r.Failed() {
			o.Err = errKind(r)
			break
		}
	}
	o.Stdout = norm(o.Stdout)
	func() {
		defer func() { recover() }()
		for _, g := range c.Globals {
			o.Globals[g] = showVal(vm.Get("main." + g))
		}
	}()
	return o
}

func chunksOf(c *Case) [][]string {
	var out [][]string
	prev := 0
	for _, cut := range c.Cuts {
		if cut > prev && cut < len(c.Units) {
			out = append(out, c.Units[prev:cut])
			prev = cut
		}
	}
	out = append(out, c.Units[prev:])
	return out
}

var identRe = regexp.MustCompile(`\b(?:func(?: \([^)]*\))? (\w+)|type (\w+)|var (\w+)|const (\w+)|^(\w+) :=)`)

// separatesDefAndUse: some name defined before a cut is used after it.
func separatesDefAndUse(c *Case) bool {
	for _, cut := range c.Cuts {
		if cut <= 0 || cut >= len(c.Units) {
			continue
		}
		after := strings.Join(c.Units[cut:], "\n")
		for _, u := range c.Units[:cut] {
			for _, m := range identRe.FindAllStringSubmatch(u, -1) {
				for _, name := range m[1:] {
					if name != "" && name != "init" && regexp.MustCompile(`\b`+regexp.QuoteMeta(name)+`\b`).MatchString(after) {
						return true
					}
				}
			}
			if strings.HasPrefix(u, "import") && (strings.Contains(after, "fmt.") || strings.Contains(after, "strings.")) {
				return true
			}
		}
	}
	return false
}

func check(c *Case) *ev.Failure {
	r := ev.R()
	r.Eval(1)
	whole := run(c, [][]string{c.Units})
	inc := run(c, chunksOf(c))
	if whole.Budget || inc.Budget {
		r.Class("discarded:budget")
		return nil
	}
	if separatesDefAndUse(c) {
		r.Nontrivial(ev.HashJSON(c))
	}
	switch n := len(chunksOf(c)); {
	case n <= 2:
		r.Class("chunks=2")
	case n <= 5:
		r.Class("chunks=3..5")
	case n <= 15:
		r.Class("chunks=6..15")
	default:
		r.Class("chunks>15")
	}
	if whole.Err != "" {
		r.Class("program_fails")
	}
	var diffs []string
	if whole.Stdout != inc.Stdout {
		diffs = append(diffs, fmt.Sprintf("printed output differs:\n--- whole\n%s--- incremental\n%s", clip(whole.Stdout), clip(inc.Stdout)))
	}
	if whole.Err != inc.Err {
		diffs = append(diffs, fmt.Sprintf("outcome differs: whole program %q, incremental %q", whole.Err, inc.Err))
	}
	if whole.Err == "" && inc.Err == "" {
		if strings.Join(whole.Rets, "|") != strings.Join(inc.Rets, "|") {
			diffs = append(diffs, fmt.Sprintf("value of the last expression differs: whole %v, incremental %v (type:value)", whole.Rets, inc.Rets))
		}
		for _, g := range c.Globals {
			if whole.Globals[g] != inc.Globals[g] {
				diffs = append(diffs, fmt.Sprintf("final value of global %s differs: whole %s, incremental %s (type:value)", g, whole.Globals[g], inc.Globals[g]))
			}
		}
	}
	if len(diffs) == 0 {
		return nil
	}
	var sb strings.Builder
	for i, ch := range chunksOf(c) {
		fmt.Fprintf(&sb, "=== chunk %d\n%s\n", i+1, strings.Join(ch, "\n"))
	}
	return &ev.Failure{Kind: "chunks", Case: c, Msg: strings.Join(diffs, "\n") + "\n" + clip(sb.String())}
}

func clip(s string) string {
	if len(s) > 5000 {
		return s[:2500] + "\n…\n" + s[len(s)-2500:]
	}
	return s
}

func genUnits(rt *rapid.T) ([]string, []string) {
	p := rx.Pick(rt, "profile", gen.Profiles[0], gen.Profiles[1], gen.Profiles[2], gen.Profiles[3])
	p.Panics = rx.Chance(rt, "panics", 1, 3)
	prog, _ := gen.Program(rt, p)
	src := prog.Files["prog.go"]
	units, globals, err := unitsOf(src)
	if err != nil {
		ev.R().Infra("generated program does not parse: %v", err)
		return nil, nil
	}
	// REPL extras: a function is redefined at top level, and the sequence ends in an expression
	if rx.Chance(rt, "redefine", 1, 2) {
		pos := rx.Range(rt, "redefpos", 1, len(units))
		extra := []string{"func replf(a int) int {\n\treturn a + 1\n}", "rv1 := replf(10)", "func replf(a int) int {\n\treturn a * 100\n}", "rv2 := replf(10)"}
		units = append(units[:pos], append(extra, units[pos:]...)...)
		globals = append(globals, "rv1", "rv2")
	}
	// a package-level constant, and later a parameter and loop variables of the same name: the local binding wins,
	// whether the constant's declaration has already been evaluated or not
	if rx.Chance(rt, "constshadow", 1, 2) {
		pos := rx.Range(rt, "cspos", 1, len(units))
		extra := []string{"const kc = 3", "var kg = kc + 1", "func usekc(kc int) int {\n\treturn kc*2 + kg\n}", "rkc := usekc(7)", "rk2 := 0", "for kc := 0; kc < 2; kc++ {\n\trk2 += kc + 10\n}", "for _, kg := range []int{5, 6} {\n\trk2 += kg\n}", "rk3 := kc + kg"}
		for _, u := range extra {
			pos = rx.Range(rt, "csnext", pos, len(units))
			units = append(units[:pos], append([]string{u}, units[pos:]...)...)
			pos++
		}
		globals = append(globals, "rkc", "rk2", "rk3", "kg")
	}
	// a function variable set by one statement, and later rebound and called by name in one unit that is never cut
	// apart (the call must reach the function assigned just before it, whatever the variable held when the unit was compiled)
	if rx.Chance(rt, "funcvar", 1, 2) {
		pos := rx.Range(rt, "fvpos", 1, len(units))
		extra := []string{"func hkA(a int) int {\n\treturn a + 1\n}", "func hkB(a int) int {\n\treturn a * 10\n}", "hk := hkA", "rh1 := hk(2)",
			"hk = hkB\nrh2 := hk(2)", "func swapHk() {\n\thk = hkA\n}", "swapHk()\nrh3 := hk(2)"}
		for _, u := range extra {
			pos = rx.Range(rt, "fvnext", pos, len(units))
			units = append(units[:pos], append([]string{u}, units[pos:]...)...)
			pos++
		}
		globals = append(globals, "rh1", "rh2", "rh3")
	}
	// script packages imported between the other statements: each import comes before its uses, anywhere else they may
	// be cut apart; two of the packages have the same package name and are told apart by their aliases
	if rx.Chance(rt, "scriptimports", 1, 2) {
		seqs := [][]string{
			{"import gu \"geom/util\"", "ra1 := gu.Area(3, 4)", "ra2 := gu.Area(2, gu.Calls)"},
			{"import tu \"text/util\"", "rp1 := tu.Pad(\"x\")", "rp2 := tu.Pad(rp1)"},
			{"import \"lib/counter\"", "rc1 := counter.Next()", "rc2 := counter.Next() + counter.N"},
		}
		for _, seq := range seqs {
			if !rx.Chance(rt, "usepkg", 2, 3) {
				continue
			}
			pos := 0
			for _, u := range seq {
				pos = rx.Range(rt, "pkgpos", pos, len(units))
				units = append(units[:pos], append([]string{u}, units[pos:]...)...)
				pos++
			}
			ev.R().Class("script_package_imported_and_used_across_statements")
		}
		globals = append(globals, "ra1", "ra2", "rp1", "rp2", "rc1", "rc2")
	}
	units = append(units, rx.Pick(rt, "lastexpr", "bi", "bs", "bf + 1.5", "len(bs) + bi", "bb"))
	return units, globals
}

func TestChunks(t *testing.T) {
	n := 0
	ev.R().RapidCheck(t, func(rt *rapid.T) *ev.Failure {
		units, globals := genUnits(rt)
		if units == nil {
			return nil
		}
		// several cuttings of the same program: a random 2-way cut, the finest cutting, and random k-way cuts
		cuts := [][]int{{rx.Range(rt, "cut2", 1, len(units)-1)}}
		var all []int
		for i := 1; i < len(units); i++ {
			all = append(all, i)
		}
		cuts = append(cuts, all)
		k := rx.Range(rt, "kways", 1, 3)
		for j := 0; j < k; j++ {
			var cs []int
			for i := 1; i < len(units); i++ {
				if rx.Chance(rt, "cuthere", 1, 4) {
					cs = append(cs, i)
				}
			}
			cuts = append(cuts, cs)
		}
		for _, cs := range cuts {
			c := &Case{Units: units, Cuts: cs, Globals: globals}
			n++
			if n%500 == 1 {
				ev.R().Sample(map[string]any{"units": len(units), "cuts": cs, "first_units": units[:min(6, len(units))]})
			}
			if f := check(c); f != nil {
				return f
			}
		}
		return nil
	})
}

func min(a, b int) int {
	if a < b {
		return a
	}
	return b
}

func TestReplay(t *testing.T) {
	ev.R().RunReplays(t, map[string]ev.ReplayFunc{
		"chunks": func(raw json.RawMessage) *ev.Failure {
			var c Case
			if err := json.Unmarshal(raw, &c); err != nil {
				return &ev.Failure{Kind: "chunks", Case: string(raw), Msg: "bad replay: " + err.Error()}
			}
			return check(&c)
		},
	})
}
