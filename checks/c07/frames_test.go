package c07

// Frame isolation, metamorphic form: a function that depends on nothing but its arguments must return the same
// value whatever ran on the operand stack before it. Each generated script defines a few pure functions whose locals
// are declared in every way the language offers (untyped constants of each kind, typed and zero declarations, loop and
// range variables, multiple assignment) and whose results spell out type-sensitive arithmetic on those locals; the
// script then calls them in a generated order (directly, in loops, nested in one expression, from one another).
// Reference: the same call evaluated alone on a fresh VM.

import (
	"encoding/json"
	"fmt"
	"sort"
	"strings"
	"testing"

	"pgregory.net/rapid"

	"verif/internal/ev"
	"verif/internal/goat"
	"verif/internal/rx"
)

type FrameCase struct {
	Defs  string   `json:"defs"`  // import + function definitions
	Calls []string `json:"calls"` // call expressions, in execution order of the main script
	Main  string   `json:"main"`  // top-level statements that perform exactly those calls, printing "#<i> <result>"
	Consts int     `json:"consts"` // number of locals declared from an untyped constant
}

type frameFn struct {
	name   string
	params []string // types
}

var frameTys = []string{"int", "float64", "int8", "uint8", "uint32", "string"}

func frameLit(rt *rapid.T, ty string) string {
	switch ty {
	case "int":
		return rx.Pick(rt, "ilit", "7", "200", "-6", "3", "100", "1000001")
	case "float64":
		return rx.Pick(rt, "flit", "1.5", "7.0", "2.25", "-0.5", "100.0")
	case "int8":
		return rx.Pick(rt, "i8lit", "7", "100", "-6", "127", "-128")
	case "uint8":
		return rx.Pick(rt, "u8lit", "7", "200", "3", "255", "0")
	case "uint32":
		return rx.Pick(rt, "u32lit", "7", "4000000000", "3", "65536")
	default:
		return rx.Pick(rt, "slit", `"s"`, `""`, `"héllo"`, `"ab"`)
	}
}

// sens spells out arithmetic on v whose printed result depends on v's dynamic type.
func sens(v, ty string) string {
	if ty == "string" {
		return fmt.Sprintf("fmt.Sprint(len(%s), %s + \"!\", \" \")", v, v)
	}
	return fmt.Sprintf("fmt.Sprint(%s/2, \",\", %s+100+100, \",\", %s-%s-1, \",\", %s*3/2, \" \")", v, v, v, v, v)
}

type frameGen struct {
	rt     *rapid.T
	sb     strings.Builder
	id     int
	fns    []frameFn
	consts int
}

func (g *frameGen) fresh(p string) string { g.id++; return fmt.Sprintf("%s%d", p, g.id) }

func (g *frameGen) line(d int, f string, a ...any) {
	g.sb.WriteString(strings.Repeat("\t", d))
	fmt.Fprintf(&g.sb, f, a...)
	g.sb.WriteString("\n")
}

func (g *frameGen) callOf(f frameFn, depth int, params []string, ptys []string) string {
	var args []string
	for _, pt := range f.params {
		// an own parameter of the same type, or a literal
		var own []string
		for i, t := range ptys {
			if t == pt {
				own = append(own, params[i])
			}
		}
		if len(own) > 0 && rapid.Bool().Draw(g.rt, "ownarg") {
			args = append(args, own[rx.Uniform(g.rt, len(own), "ownidx")])
		} else {
			args = append(args, frameLit(g.rt, pt))
		}
	}
	return fmt.Sprintf("%s(%s)", f.name, strings.Join(args, ", "))
}

func (g *frameGen) body(d int, n int, params, ptys []string, self int, inLoop bool) {
	rt := g.rt
	for i := 0; i < n; i++ {
		switch rx.Weighted(rt, "fstmt", 6, 3, 3, 3, 3, 3, 2, 2, 2, 2) {
		case 0: // local from an untyped constant
			ty := rx.Pick(rt, "cty", "int", "int", "float64", "string")
			v := g.fresh("v")
			g.consts++
			g.line(d, "%s := %s", v, frameLit(rt, ty))
			g.line(d, "out += %s", sens(v, ty))
		case 1: // typed declaration with a constant
			ty := rx.Pick(rt, "tty", frameTys...)
			v := g.fresh("v")
			if rapid.Bool().Draw(rt, "convform") {
				g.line(d, "%s := %s(%s)", v, ty, frameLit(rt, ty))
			} else {
				g.line(d, "var %s %s = %s", v, ty, frameLit(rt, ty))
			}
			g.line(d, "out += %s", sens(v, ty))
		case 2: // zero declaration, then a compound assignment with a constant
			ty := rx.Pick(rt, "zty", frameTys...)
			v := g.fresh("v")
			g.line(d, "var %s %s", v, ty)
			g.line(d, "out += %s", sens(v, ty))
			g.line(d, "%s += %s", v, frameLit(rt, ty))
			g.line(d, "out += %s", sens(v, ty))
		case 3: // three-clause loop with a local declared in the body
			if inLoop {
				continue
			}
			iv, w := g.fresh("i"), g.fresh("w")
			g.consts += 2
			g.line(d, "for %s := 0; %s < %d; %s++ {", iv, iv, rx.Range(rt, "bound", 1, 3), iv)
			g.line(d+1, "%s := %s", w, frameLit(rt, rx.Pick(rt, "wty", "int", "float64")))
			g.line(d+1, "out += fmt.Sprint(%s/2, %s*3/2, %s+%s, \" \")", iv, w, iv, iv)
			g.body(d+1, rx.Range(rt, "nin", 0, 2), params, ptys, self, true)
			g.line(d, "}")
		case 4: // range with key and value
			if inLoop {
				continue
			}
			k, x := g.fresh("k"), g.fresh("x")
			ty := rx.Pick(rt, "rty", "float64", "uint8", "int8", "int", "uint32", "string")
			var lits []string
			for j := rx.Range(rt, "nel", 1, 3); j > 0; j-- {
				lits = append(lits, frameLit(rt, ty))
			}
			g.line(d, "for %s, %s := range []%s{%s} {", k, x, ty, strings.Join(lits, ", "))
			g.line(d+1, "out += fmt.Sprint(%s/2, \":\") + %s", k, sens(x, ty))
			g.body(d+1, rx.Range(rt, "nin", 0, 2), params, ptys, self, true)
			g.line(d, "}")
		case 5: // call of an earlier function
			if self == 0 {
				continue
			}
			f := g.fns[rx.Uniform(rt, self, "callee")]
			g.line(d, "out += %s", g.callOf(f, d, params, ptys))
		case 6: // early return
			if len(params) == 0 {
				continue
			}
			pi := rx.Uniform(rt, len(params), "pi")
			if ptys[pi] == "string" {
				g.line(d, "if len(%s) > 1 {", params[pi])
			} else {
				g.line(d, "if %s > 50 {", params[pi])
			}
			g.line(d+1, "return out + \"early\"")
			g.line(d, "}")
		case 7: // multiple assignment from constants of different kinds
			a, b := g.fresh("v"), g.fresh("v")
			g.consts += 2
			g.line(d, "%s, %s := %s, %s", a, b, frameLit(rt, "int"), frameLit(rt, "float64"))
			g.line(d, "out += %s + %s", sens(a, "int"), sens(b, "float64"))
		case 8: // parameter arithmetic
			if len(params) == 0 {
				continue
			}
			pi := rx.Uniform(rt, len(params), "pi")
			g.line(d, "out += %s", sens(params[pi], ptys[pi]))
		default: // switch with a local per case
			v := g.fresh("v")
			g.consts++
			g.line(d, "switch len(out) %% 3 {")
			g.line(d, "case 0:")
			g.line(d+1, "%s := %s", v, frameLit(rt, "int"))
			g.line(d+1, "out += %s", sens(v, "int"))
			g.line(d, "case 1:")
			w := g.fresh("v")
			g.line(d+1, "%s := %s", w, frameLit(rt, "float64"))
			g.line(d+1, "out += %s", sens(w, "float64"))
			g.line(d, "default:")
			g.line(d+1, "out += \"d \"")
			g.line(d, "}")
		}
	}
}

func genFrames(rt *rapid.T) *FrameCase {
	g := &frameGen{rt: rt}
	g.sb.WriteString("import \"fmt\"\n")
	nf := rx.Range(rt, "nfuncs", 2, 5)
	for i := 0; i < nf; i++ {
		f := frameFn{name: fmt.Sprintf("f%d", i)}
		np := rx.Range(rt, "nparams", 0, 3)
		var params, decl []string
		for j := 0; j < np; j++ {
			ty := rx.Pick(rt, "pty", frameTys...)
			f.params = append(f.params, ty)
			params = append(params, fmt.Sprintf("p%d", j))
			decl = append(decl, fmt.Sprintf("p%d %s", j, ty))
		}
		g.line(0, "func %s(%s) string {", f.name, strings.Join(decl, ", "))
		g.line(1, "out := \"%s:\"", f.name)
		g.body(1, rx.Range(rt, "nstmts", 1, 6), params, f.params, i, false)
		g.line(1, "return out")
		g.line(0, "}")
		g.fns = append(g.fns, f)
	}
	c := &FrameCase{Defs: g.sb.String(), Consts: g.consts}
	var mb strings.Builder
	n := rx.Range(rt, "ncalls", 2, 8)
	emit := func(d int, call string) {
		mb.WriteString(strings.Repeat("\t", d))
		fmt.Fprintf(&mb, "println(\"#%d\", %s)\n", len(c.Calls), call)
		c.Calls = append(c.Calls, call)
	}
	for i := 0; i < n; i++ {
		f := g.fns[rx.Uniform(rt, len(g.fns), "mainfn")]
		call := g.callOf(f, 0, nil, nil)
		switch rx.Weighted(rt, "mainform", 6, 2, 2) {
		case 0:
			emit(0, call)
		case 1: // in a loop: the same call twice, recorded twice
			k := len(c.Calls)
			fmt.Fprintf(&mb, "for r%d := 0; r%d < 2; r%d++ {\n\tprintln(\"#%d\", %s)\n}\n", k, k, k, k, call)
			c.Calls = append(c.Calls, call)
			// the second iteration prints the same tag; account for it in the expectation
			c.Calls = append(c.Calls, "again:"+fmt.Sprint(k))
		default: // two calls in one expression
			f2 := g.fns[rx.Uniform(rt, len(g.fns), "mainfn2")]
			call2 := g.callOf(f2, 0, nil, nil)
			emit(0, call+" + "+call2)
		}
	}
	c.Main = mb.String()
	return c
}

func frameRef(c *FrameCase, call string, opt bool) (string, string) {
	goat.SetOptimize(opt)
	defer goat.SetOptimize(true)
	r := goat.New().Eval(nil, c.Defs+"println("+call+")\n", 2_000_000)
	if r.Failed() || r.Budget {
		return "", "failed: " + r.ErrString()
	}
	return strings.TrimSuffix(r.Stdout, "\n"), ""
}

func checkFrames(c *FrameCase) *ev.Failure {
	rec := ev.R()
	rec.Eval(1)
	for _, opt := range []bool{true, false} {
		// reference: each distinct call alone on a fresh VM
		ref := map[string]string{}
		var want []string
		for i, call := range c.Calls {
			if strings.HasPrefix(call, "again:") {
				want = append(want, want[len(want)-1])
				continue
			}
			if _, ok := ref[call]; !ok {
				out, problem := frameRef(c, call, opt)
				if problem != "" {
					return &ev.Failure{Kind: "frames", Case: c, Msg: fmt.Sprintf("the call %s evaluated alone on a fresh VM %s (optimizer %v)\n--- definitions\n%s", call, problem, opt, c.Defs)}
				}
				ref[call] = out
			}
			want = append(want, fmt.Sprintf("#%d %s", i, ref[call]))
		}
		goat.SetOptimize(opt)
		r := goat.New().Eval(nil, c.Defs+c.Main, 5_000_000)
		goat.SetOptimize(true)
		if r.Budget {
			rec.Class("discarded:budget")
			return nil
		}
		if r.Failed() {
			return &ev.Failure{Kind: "frames", Case: c, Msg: fmt.Sprintf("every call succeeds alone on a fresh VM, the script performing them in sequence failed (optimizer %v): %s\n--- script\n%s%s", opt, r.ErrString(), c.Defs, c.Main)}
		}
		if len(r.Rets) != 0 {
			return &ev.Failure{Kind: "frames", Case: c, Msg: fmt.Sprintf("a script made only of statements returned %d residual value(s) (optimizer %v)\n--- script\n%s%s", len(r.Rets), opt, c.Defs, c.Main)}
		}
		got := strings.Split(strings.TrimSuffix(r.Stdout, "\n"), "\n")
		if len(got) != len(want) {
			return &ev.Failure{Kind: "frames", Case: c, Msg: fmt.Sprintf("the script printed %d lines, %d calls were made (optimizer %v)\n--- script\n%s%s\n--- output\n%s", len(got), len(want), opt, c.Defs, c.Main, r.Stdout)}
		}
		for i := range want {
			if got[i] != want[i] {
				return &ev.Failure{Kind: "frames", Case: c, Msg: fmt.Sprintf("a pure function returned a different value after other calls had used the stack than alone on a fresh VM (optimizer %v)\n  in sequence: %s\n  alone      : %s\n--- script\n%s%s", opt, got[i], want[i], c.Defs, c.Main)}
			}
		}
	}
	distinct := map[string]bool{}
	for _, call := range c.Calls {
		if !strings.HasPrefix(call, "again:") {
			distinct[call[:strings.Index(call, "(")]] = true
		}
	}
	var names []string
	for n := range distinct {
		names = append(names, n)
	}
	sort.Strings(names)
	if len(c.Calls) >= 2 && c.Consts > 0 {
		rec.Nontrivial(ev.HashJSON(c))
		rec.Class(fmt.Sprintf("frames:distinct_entry_functions=%d", len(names)))
	}
	return nil
}

func TestFrames(t *testing.T) {
	n := 0
	ev.R().RapidCheck(t, func(rt *rapid.T) *ev.Failure {
		c := genFrames(rt)
		n++
		if n%400 == 1 {
			ev.R().Sample(map[string]any{"script": c.Defs + c.Main})
		}
		return checkFrames(c)
	})
}

func replayFrames(raw json.RawMessage) *ev.Failure {
	var c FrameCase
	if err := json.Unmarshal(raw, &c); err != nil {
		return &ev.Failure{Kind: "frames", Case: string(raw), Msg: "bad replay: " + err.Error()}
	}
	return checkFrames(&c)
}
