package c07

// Frames on a tall operand stack. The stack of one run grows while frames are active on it: by deep recursion and by
// wide composite literals that push hundreds of operands inside one frame. Wherever the growth happens, every frame
// keeps reading and writing its own local slots. Oracle: closed forms of what the functions compute.

import (
	"encoding/json"
	"fmt"
	"strings"
	"testing"

	"github.com/philhassey/goatlang"

	"verif/internal/ev"
	"verif/internal/goat"
)

type DeepCase struct {
	Depth    int  `json:"depth"`    // recursion depth before the wide function is called
	Width    int  `json:"width"`    // number of elements of the literal in the innermost function
	ViaCall  bool `json:"via_call"` // host Call instead of an Eval statement
	Optimize bool `json:"optimize"`
}

func (c *DeepCase) source() string {
	var sb strings.Builder
	sb.WriteString("func wide(n int) int {\n\ta := n + 1\n\ts := []int{")
	for i := 0; i < c.Width; i++ {
		if i > 0 {
			sb.WriteString(", ")
		}
		fmt.Fprint(&sb, i)
	}
	sb.WriteString("}\n\tb := a * 2\n\ta++\n\tt := 0\n\tfor _, x := range s {\n\t\tt += x\n\t}\n\tk := len(s)\n\treturn a + b + t + k\n}\n")
	sb.WriteString("func rec(n int) int {\n\tif n == 0 {\n\t\treturn wide(3)\n\t}\n\ta := n * 2\n\tb := a / 2\n\tr := rec(n - 1)\n\tc := a + b\n\ta++\n\treturn c - a + 1 + r\n}\n")
	return sb.String()
}

func (c *DeepCase) want() int {
	w := c.Width
	wide := (3 + 2) + 2*(3+1) + w*(w-1)/2 + w
	return c.Depth*(c.Depth+1)/2 + wide
}

func checkDeep(c *DeepCase) (f *ev.Failure) {
	mk := func(format string, a ...any) *ev.Failure {
		return &ev.Failure{Kind: "deepstack", Case: c, Msg: fmt.Sprintf("recursion depth %d, literal of %d elements in the innermost frame (via Call %v, optimizer %v): ", c.Depth, c.Width, c.ViaCall, c.Optimize) + fmt.Sprintf(format, a...)}
	}
	defer func() {
		if r := recover(); r != nil {
			f = mk("host panic: %v", r)
		}
	}()
	goat.SetOptimize(c.Optimize)
	defer goat.SetOptimize(true)
	vm := goat.New()
	if r := vm.Eval(nil, c.source(), goat.DefaultBudget); r.Failed() {
		return mk("definitions failed: %s", r.ErrString())
	}
	var r goat.Result
	if c.ViaCall {
		r = vm.Call("main.rec", 1, 50_000_000, goatlang.Int(c.Depth))
	} else {
		r = vm.Eval(nil, fmt.Sprintf("res := rec(%d)\nres\n", c.Depth), 50_000_000)
	}
	if r.Failed() || len(r.Rets) != 1 {
		return mk("the call failed: %v %s", r.RetStrings(), r.ErrString())
	}
	if got := r.Rets[0].Int(); got != c.want() {
		return mk("rec(%d) = %d, expected %d (every frame computes n from its own locals after the call returns; the innermost sums its literal)", c.Depth, got, c.want())
	}
	return nil
}

func TestDeepStack(t *testing.T) {
	r := ev.R()
	r.Disjoint()
	n := 0
	for _, depth := range []int{0, 1, 10, 50, 84, 85, 86, 100, 128, 200, 300, 600, 1200} {
		for _, width := range []int{0, 1, 50, 200, 255, 256, 257, 300, 600, 2000} {
			for _, viaCall := range []bool{false, true} {
				for _, opt := range []bool{true, false} {
					n++
					if !r.Mine(n) {
						continue
					}
					c := &DeepCase{Depth: depth, Width: width, ViaCall: viaCall, Optimize: opt}
					r.Eval(1)
					if depth >= 50 || width >= 200 {
						r.NontrivialN(1)
					}
					if n%97 == 1 {
						r.Sample(c)
					}
					if f := checkDeep(c); f != nil {
						r.Fail(t, f)
						return
					}
				}
			}
		}
	}
	r.Exhaustive("recursion depths 0-1200 x literal widths 0-2000 in the innermost frame x Eval / Call x optimizer on / off", true)
}

func replayDeep(raw json.RawMessage) *ev.Failure {
	var c DeepCase
	if err := json.Unmarshal(raw, &c); err != nil {
		return &ev.Failure{Kind: "deepstack", Case: string(raw), Msg: "bad replay: " + err.Error()}
	}
	return checkDeep(&c)
}
