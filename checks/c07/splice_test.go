package c07

// Token-level variants of generated programs that are still well-typed Go inside the supported subset (internal/gotype decides) and that goatlang
// compiles: their bytecode must satisfy the same invariants, in both optimizer modes.

import (
	"encoding/json"
	"fmt"
	"strings"
	"testing"

	"pgregory.net/rapid"

	"verif/internal/bcverify"
	"verif/internal/ev"
	"verif/internal/gen"
	"verif/internal/gotype"
	"verif/internal/rx"
	"verif/internal/tokmut"
)

func genSplice(rt *rapid.T) *Case {
	p := gen.Profiles[rx.Uniform(rt, 4, "profile")]
	p.MaxStmts = 12
	p.Panics = true
	prog, _ := gen.Program(rt, p)
	q := gen.Profiles[rx.Uniform(rt, 4, "profile2")]
	q.MaxStmts = 12
	prog2, _ := gen.Program(rt, q)
	src := strings.Join(tokmut.Mutate(rt, tokmut.Tokens(prog.Files["prog.go"]), tokmut.Tokens(prog2.Files["prog.go"])), "")
	return &Case{Files: map[string]string{"prog.go": src}}
}

func checkSplice(c *Case) *ev.Failure {
	r := ev.R()
	if why := gotype.Check(c.Files["prog.go"]); why != "" {
		if strings.HasPrefix(why, "subset:") {
			r.Class("splice:well_typed_but_outside_the_supported_subset")
		} else {
			r.Class("splice:not_well_typed_go")
		}
		return nil
	}
	r.Eval(1)
	for _, opt := range []bool{true, false} {
		code, slots, err := compileCase(c, opt)
		if err != nil {
			r.Class("splice:well_typed_but_not_compiled_by_goatlang")
			return nil
		}
		probs, st := bcverify.Verify(code, slots, false)
		if opt {
			r.Class("splice:verified")
			if st.MaxBlocksFn >= 3 && (st.BackEdges > 0 || st.EarlyExits > 1) {
				r.Nontrivial(ev.HashJSON(code))
			}
		}
		if len(probs) > 0 {
			var msgs []string
			for _, p := range probs {
				msgs = append(msgs, p.String())
			}
			return &ev.Failure{Kind: "splice", Case: c, Msg: fmt.Sprintf("bytecode of a token-level variant (well-typed Go, optimizer %v) breaks a stack/frame invariant:\n  %s\n--- source\n%s--- code\n%s", opt, strings.Join(msgs, "\n  "), source(c), listing(code))}
		}
	}
	return nil
}

func TestSplices(t *testing.T) {
	n := 0
	ev.R().RapidCheck(t, func(rt *rapid.T) *ev.Failure {
		c := genSplice(rt)
		n++
		if n%2000 == 1 {
			ev.R().Sample(map[string]any{"source": c.Files["prog.go"]})
		}
		return checkSplice(c)
	})
}

func replaySplice(raw json.RawMessage) *ev.Failure {
	var c Case
	if err := json.Unmarshal(raw, &c); err != nil {
		return &ev.Failure{Kind: "splice", Case: string(raw), Msg: "bad replay: " + err.Error()}
	}
	return checkSplice(&c)
}
