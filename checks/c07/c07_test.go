// C07 — statements are stack-neutral and call frames are isolated on every path.
//
// Oracle 1: abstract interpretation of the emitted bytecode (verif code-export hook) of every function of every
// generated program, optimizer on and off: operand-stack depth consistent at every join and loop head, never
// below the frame, equal to the declared result count at every RETURN and zero at the end, branches inside the
// function, local slot operands inside the frame, no surviving placeholders.
// Oracle 2 (dynamic): a program made only of statements leaves no residual values; a caller's locals survive any
// callee with loops and early exits (canary), compared with what the statements should print.
package c07

import (
	"encoding/json"
	"fmt"
	"strings"
	"testing"

	"github.com/philhassey/goatlang"
	"pgregory.net/rapid"

	"verif/internal/bcverify"
	"verif/internal/ev"
	"verif/internal/gen"
	"verif/internal/goat"
	"verif/internal/oracle"
	"verif/internal/rx"
)

func TestMain(m *testing.M) { ev.Main(m, "C07") }

type Case struct {
	Files map[string]string `json:"files,omitempty"` // package form (Load)
	Src   string            `json:"src,omitempty"`   // REPL form (Eval)
}

func listing(code []goatlang.VerifInstr) string {
	var sb strings.Builder
	for i, c := range code {
		fmt.Fprintf(&sb, "%4d  %-28s %s:%d\n", i, c.Text, c.Func, c.Line)
	}
	s := sb.String()
	if len(s) > 6000 {
		s = s[:6000] + "…\n"
	}
	return s
}

func compileCase(c *Case, optimize bool) (code []goatlang.VerifInstr, slots int, err error) {
	goat.SetOptimize(optimize)
	defer goat.SetOptimize(true)
	defer func() {
		if r := recover(); r != nil {
			err = fmt.Errorf("host panic during compilation: %v", r)
		}
	}()
	if c.Src != "" {
		// compiling an Eval input runs its imported script packages first: bound that run like every other
		goatlang.VerifSetBudget(2_000_000)
		defer goatlang.VerifSetBudget(-1)
		return goatlang.VerifCompileEval(goatlang.New(), goat.FS(c.Files), "eval.go", c.Src, nil)
	}
	p := &oracle.Program{Files: c.Files}
	files := map[string]string{}
	for n, s := range p.Resolved() {
		files["batch/"+n] = s
	}
	return goatlang.VerifCompileLoad(goatlang.New(), goat.FS(files), p.Root())
}

func source(c *Case) string {
	if c.Src != "" {
		return c.Src
	}
	return c.Files["prog.go"]
}

// verify runs the abstract interpreter in both optimizer modes.
func verify(c *Case, allowResidual bool) *ev.Failure {
	r := ev.R()
	r.Eval(1)
	for _, opt := range []bool{true, false} {
		code, slots, err := compileCase(c, opt)
		if err != nil && strings.Contains(err.Error(), goatlang.VerifBudgetMsg) {
			r.Class("discarded:budget")
			return nil
		}
		if err != nil {
			r.Class("not_compiled")
			r.Note("a generated program did not compile: %v", err)
			return nil
		}
		probs, st := bcverify.Verify(code, slots, allowResidual)
		if opt {
			for op, n := range st.Ops {
				r.ClassN("op:"+op, n)
			}
			r.ClassN("functions_analysed", st.Functions)
			r.ClassN("joins_checked", st.Joins)
			r.ClassN("back_edges", st.BackEdges)
			if st.MaxBlocksFn >= 3 && (st.BackEdges > 0 || st.EarlyExits > 1) {
				r.Nontrivial(ev.HashJSON(code))
			}
		}
		if len(probs) > 0 {
			var msgs []string
			for _, p := range probs {
				msgs = append(msgs, p.String())
			}
			return &ev.Failure{Kind: "bytecode", Case: c, Msg: fmt.Sprintf("bytecode (optimizer %v) breaks a stack/frame invariant:\n  %s\n--- source\n%s--- code\n%s", opt, strings.Join(msgs, "\n  "), source(c), listing(code))}
		}
	}
	return nil
}

// ---- generated whole programs -----------------------------------------------------------------

func TestPrograms(t *testing.T) {
	n := 0
	ev.R().RapidCheck(t, func(rt *rapid.T) *ev.Failure {
		p := gen.Profiles[rx.Uniform(rt, len(gen.Profiles), "profile")]
		p.Panics = true
		prog, _ := gen.Program(rt, p)
		c := &Case{Files: prog.Files}
		n++
		if n%300 == 1 {
			ev.R().Sample(map[string]any{"source": c.Files["prog.go"]})
		}
		return verify(c, false)
	})
}

// ---- statement shapes -------------------------------------------------------------------------

// stmtGen builds REPL-dialect programs made only of statements, concentrating on the places where the compiler must
// balance the stack itself: blank identifiers, multi-value assignment from calls / comma-ok / range, calls as
// statements, conditions, case expressions, loop clauses and arguments, nested function literals, early exits.
type stmtGen struct {
	rt    *rapid.T
	sb    strings.Builder
	depth int
	id    int
	budget int
}

func (g *stmtGen) line(format string, a ...any) {
	g.sb.WriteString(strings.Repeat("\t", g.depth))
	fmt.Fprintf(&g.sb, format, a...)
	g.sb.WriteString("\n")
}

func (g *stmtGen) stmts(n int, inLoop bool, inFunc bool) {
	for i := 0; i < n && g.budget > 0; i++ {
		g.stmt(inLoop, inFunc)
	}
}

func (g *stmtGen) stmt(inLoop, inFunc bool) {
	g.budget--
	g.id++
	id := g.id
	w := []int{6, 5, 5, 4, 4, 4, 4, 3, 3, 3, 3, 2, 3, 3}
	if g.depth >= 4 {
		for i := 6; i <= 10; i++ {
			w[i] = 0
		}
	}
	if !inLoop {
		w[11] = 0
	}
	if !inFunc {
		w[12] = 0
	}
	switch rx.Weighted(g.rt, "stmtshape", w...) {
	case 0:
		switch rx.Uniform(g.rt, 5, "callshape") {
		case 0:
			g.line("two()")
		case 1: // results forwarded by functions that contain function literals with other result counts
			g.line("fa%d, fb%d := fwd2()", id, id)
			g.line("_, _ = fa%d+fwd1(), fb%d", id, id)
		case 2:
			g.line("fa%d, fb%d := fwd0()", id, id)
			g.line("fc%d, _ := fwdm(p)", id)
			g.line("_, _, _ = fa%d, fb%d, fc%d", id, id, id)
		case 3: // a typed declaration of several names from one call
			g.line("var q%d, r%d int = two()", id, id)
			g.line("_, _ = q%d, r%d", id, id)
		default:
			g.line("var q%d, r%d = two()", id, id)
			g.line("x, y = q%d, r%d", id, id)
		}
	case 1:
		g.line("_, b%d := two()", id)
		g.line("_ = b%d", id)
	case 2:
		g.line("a%d, _ := two()", id)
		g.line("_, _ = a%d, one()", id)
	case 3:
		g.line("v%d, ok%d := m[\"k\"]", id, id)
		g.line("_, _ = v%d, ok%d", id, id)
		g.line("_, ok%d = m[\"zz\"]", id)
	case 4:
		g.line("sink(one(), add(one(), one()))")
		// make with a size or capacity hint that is computed by calls: the hint is consumed by the statement
		g.line("mk%d := make(map[string]int, len(s)+one())", id)
		g.line("mk%d[\"k\"] = one()", id)
		g.line("ms%d := make([]int, len(s)+add(one(), 1))", id)
		g.line("_, _ = mk%d, ms%d", id, id)
	case 5:
		g.line("x, y = y, x")
		g.line("s[0], s[1] = s[1], s[0]")
		g.line("p.V, x = x, p.V")
	case 6:
		// the condition alone, or preceded by an init statement of every kind (a call with and without results, an
		// increment, a tuple assignment, a short declaration)
		g.line("if %sok(one()) && !ok(x) || ok(y) {", rx.Pick(g.rt, "ifinit", "", "", "", "bump(); ", "one(); ", "two(); ", "x++; ", "x, y = y, x; ", "w := two2(); w > 0 && ", "_, w := two(); w > 0 || "))
		g.depth++
		g.stmts(rx.Range(g.rt, "n", 1, 3), inLoop, inFunc)
		g.depth--
		if rapid.Bool().Draw(g.rt, "else") {
			g.line("} else if v := one(); v > 0 {")
			g.depth++
			g.stmts(rx.Range(g.rt, "n", 1, 2), inLoop, inFunc)
			g.depth--
		}
		g.line("}")
	case 7:
		switch rx.Uniform(g.rt, 7, "loopform") {
		case 5: // the one-clause form whose condition is a bare call
			g.line("for below(%d) {", rx.Range(g.rt, "bound", 0, 3))
			g.line("\tbump()")
		case 6: // a negated call
			g.line("for !ok(cnt - %d) {", rx.Range(g.rt, "bound", 0, 3))
			g.line("\tbump()")
		case 3: // no condition: the body leaves the loop
			g.line("for i%d := 0; ; i%d++ {", id, id)
			g.line("\tif i%d >= %d {", id, rx.Range(g.rt, "bound", 0, 2))
			g.line("\t\tbreak")
			g.line("\t}")
		case 4: // only a condition clause between the semicolons
			g.line("for ; cnt < %d; {", rx.Range(g.rt, "bound", 0, 2))
			g.line("\tbump()")
		case 0:
			g.line("for reset(); cnt < %d; bump() {", rx.Range(g.rt, "bound", 1, 3))
		case 1:
			g.line("for i%d := one(); i%d < %d; i%d = add(i%d, 1) {", id, id, rx.Range(g.rt, "bound", 2, 4), id, id)
		default:
			g.line("for i%d, j%d := 0, one(); i%d < 2; i%d, j%d = i%d+1, j%d+two2() {", id, id, id, id, id, id, id)
		}
		g.depth++
		g.stmts(rx.Range(g.rt, "n", 1, 3), true, inFunc)
		g.depth--
		g.line("}")
	case 8:
		switch rx.Uniform(g.rt, 3, "rangeform") {
		case 0:
			g.line("for _, e%d := range s {", id)
			g.depth++
			g.line("_ = e%d", id)
		case 1:
			g.line("for k%d := range m {", id)
			g.depth++
			g.line("_ = k%d", id)
		default:
			g.line("for range s {")
			g.depth++
		}
		g.stmts(rx.Range(g.rt, "n", 1, 2), true, inFunc)
		g.depth--
		g.line("}")
	case 9:
		if rapid.Bool().Draw(g.rt, "tagged") {
			g.line("switch add(x, one()) {")
			g.line("case one(), 2:")
		} else {
			g.line("switch {")
			g.line("case ok(x), ok(one()):")
		}
		g.depth++
		g.stmts(rx.Range(g.rt, "n", 0, 2), inLoop, inFunc)
		g.depth--
		g.line("case ok(y):")
		g.depth++
		g.line("two()")
		g.depth--
		if rapid.Bool().Draw(g.rt, "default") {
			g.line("default:")
			g.depth++
			g.stmts(rx.Range(g.rt, "n", 1, 2), inLoop, inFunc)
			if rapid.Bool().Draw(g.rt, "breakdefault") {
				g.line("break")
			}
			g.depth--
		}
		g.line("}")
	case 10:
		// nested function literal (capture-free), called at once or stored
		g.line("f%d := func(a int, b int) (int, int) {", id)
		g.depth++
		g.stmts(rx.Range(g.rt, "n", 0, 2), false, false)
		g.line("if a > b {")
		g.line("\treturn b, a")
		g.line("}")
		g.line("return two()")
		g.depth--
		g.line("}")
		g.line("_, r%d := f%d(one(), 2)", id, id)
		g.line("_ = r%d", id)
	case 11:
		g.line("if ok(one()) {")
		g.line("\t%s", rx.Pick(g.rt, "jump", "break", "continue"))
		g.line("}")
	case 12:
		g.line("if ok(x) {")
		g.line("\treturn")
		g.line("}")
	default:
		g.line("n%d := copy(s, t)", id)
		g.line("x += n%d + len(append(s, one(), 2))", id)
		g.line("delete(m, \"zz\")")
	}
}

const stmtHeader = `type P struct { V int }
func one() int { return 1 }
func two() (int, int) { return 1, 2 }
func two2() int { a, _ := two(); return a }
func add(a int, b int) int { return a + b }
func ok(a int) bool { return a > 0 }
func sink(a int, b int) { }
var cnt int
func reset() int { cnt = 0; return 7 }
func bump() { cnt++ }
func below(n int) bool { return cnt < n }
func fwd2() (int, int) { lit := func() int { return 1 }; _ = lit; return two() }
func fwd1() int { lit := func() (int, int) { return 1, 2 }; _, _ = lit(); return one() }
func fwd0() (int, int) { func() { bump() }(); if cnt > 100 { return 0, 0 }; return two() }
func fwdm(p *P) (int, int) { g := func(a int) (int, int, int) { return a, a, a }; _, _, c := g(1); _ = c; return two() }
x, y := 1, 2
s := []int{1, 2, 3}
t := []int{9}
m := map[string]int{"k": 1}
p := &P{V: 5}
`

func genStmtProgram(rt *rapid.T) *Case {
	g := &stmtGen{rt: rt, budget: rx.Range(rt, "budget", 3, 25)}
	g.sb.WriteString(stmtHeader)
	inFunc := rapid.Bool().Draw(rt, "inFunc")
	if inFunc {
		g.sb.WriteString("func run() {\n")
		g.depth = 1
	}
	g.stmts(20, false, inFunc)
	if inFunc {
		g.sb.WriteString("}\nrun()\n")
	}
	return &Case{Src: g.sb.String()}
}

// genStmtPackages: the same statement programs spread over packages. One to three script packages hold statements
// at package level (the script dialect allows that) and are imported, directly or through one another, by the
// evaluated source, which has statements of its own: all of it runs in one top-level frame.
func genStmtPackages(rt *rapid.T) *Case {
	c := &Case{Files: map[string]string{}}
	n := rx.Range(rt, "nlibs", 1, 3)
	for i := 0; i < n; i++ {
		g := &stmtGen{rt: rt, budget: rx.Range(rt, "libbudget", 1, 14)}
		fmt.Fprintf(&g.sb, "package lib%d\n", i)
		if i+1 < n && rapid.Bool().Draw(rt, "chain") {
			fmt.Fprintf(&g.sb, "import \"lib%d\"\n", i+1)
		}
		g.sb.WriteString(stmtHeader)
		g.stmts(12, false, false)
		c.Files[fmt.Sprintf("lib%d/a.go", i)] = g.sb.String()
	}
	g := &stmtGen{rt: rt, budget: rx.Range(rt, "budget", 0, 12)}
	for i := 0; i < n; i++ {
		if i == 0 || rapid.Bool().Draw(rt, "importdirect") {
			fmt.Fprintf(&g.sb, "import \"lib%d\"\n", i)
		}
	}
	g.sb.WriteString(stmtHeader)
	if g.budget > 0 {
		g.stmts(12, false, false)
	}
	c.Src = g.sb.String()
	return c
}

func checkStmtProgram(c *Case) *ev.Failure {
	if f := verify(c, false); f != nil {
		return f
	}
	// dynamic: no residual values, no error, in both modes
	for _, opt := range []bool{true, false} {
		goat.SetOptimize(opt)
		r := goat.New().Eval(goat.FS(c.Files), c.Src, 2_000_000)
		goat.SetOptimize(true)
		if r.Budget {
			ev.R().Class("discarded:budget")
			continue
		}
		if r.Failed() {
			return &ev.Failure{Kind: "statements", Case: c, Msg: fmt.Sprintf("a program made only of Go statements failed (optimizer %v): %s\n--- source\n%s", opt, r.ErrString(), c.Src)}
		}
		if len(r.Rets) != 0 {
			return &ev.Failure{Kind: "statements", Case: c, Msg: fmt.Sprintf("a program made only of Go statements returned %d residual value(s) %v (optimizer %v)\n--- source\n%s", len(r.Rets), r.RetStrings(), opt, c.Src)}
		}
	}
	return nil
}

func TestStatements(t *testing.T) {
	n := 0
	ev.R().RapidCheck(t, func(rt *rapid.T) *ev.Failure {
		var c *Case
		if rx.Chance(rt, "packages", 1, 4) {
			c = genStmtPackages(rt)
			ev.R().Class("statements_spread_over_imported_packages")
		} else {
			c = genStmtProgram(rt)
		}
		n++
		if n%300 == 1 {
			ev.R().Sample(map[string]any{"source": c.Src, "files": c.Files})
		}
		return checkStmtProgram(c)
	})
}

// ---- canary: caller locals survive the callee -------------------------------------------------

func genCanary(rt *rapid.T) *Case {
	g := &stmtGen{rt: rt, budget: rx.Range(rt, "budget", 3, 20)}
	g.sb.WriteString("import \"fmt\"\n")
	g.sb.WriteString(stmtHeader)
	g.sb.WriteString("func callee(a int, b int) int {\n")
	g.depth = 1
	g.line("l1, l2, l3 := 100, 200, 300")
	g.stmts(12, false, false)
	g.line("return l1 + l2 + l3 + a + b")
	g.sb.WriteString("}\n")
	g.sb.WriteString("func caller() {\n\tc1, c2, c3, c4 := 11, \"canary\", 3.5, []int{7, 8}\n")
	k := rx.Range(rt, "ncalls", 1, 3)
	for i := 0; i < k; i++ {
		g.sb.WriteString("\tfmt.Println(callee(1, 2))\n\tfmt.Println(c1, c2, c3, c4)\n")
		g.sb.WriteString("\tfor i := 0; i < 2; i++ {\n\t\tr := callee(i, c1)\n\t\tfmt.Println(i, r, c1, c2, c3, c4)\n\t}\n")
	}
	g.sb.WriteString("}\ncaller()\n")
	return &Case{Src: g.sb.String()}
}

func checkCanary(c *Case) *ev.Failure {
	if f := verify(c, false); f != nil {
		return f
	}
	var outs []string
	for _, opt := range []bool{true, false} {
		goat.SetOptimize(opt)
		r := goat.New().Eval(nil, c.Src, 2_000_000)
		goat.SetOptimize(true)
		if r.Budget {
			ev.R().Class("discarded:budget")
			return nil
		}
		if r.Failed() || len(r.Rets) != 0 {
			return &ev.Failure{Kind: "canary", Case: c, Msg: fmt.Sprintf("canary program failed or left values (optimizer %v): %s %v\n--- source\n%s", opt, r.ErrString(), r.RetStrings(), c.Src)}
		}
		for _, l := range strings.Split(strings.TrimSpace(r.Stdout), "\n") {
			f := strings.Fields(l)
			if len(f) == 1 {
				if l != "603" {
					return &ev.Failure{Kind: "canary", Case: c, Msg: fmt.Sprintf("callee(1, 2) returned %s, its own locals must give 603 (optimizer %v)\n--- source\n%s", l, opt, c.Src)}
				}
				continue
			}
			if !strings.HasSuffix(l, "11 canary 3.5 [7 8]") {
				return &ev.Failure{Kind: "canary", Case: c, Msg: fmt.Sprintf("the caller's locals changed across a call: %q (expected ... 11 canary 3.5 [7 8]) (optimizer %v)\n--- source\n%s", l, opt, c.Src)}
			}
		}
		outs = append(outs, r.Stdout)
	}
	if len(outs) == 2 && outs[0] != outs[1] {
		return &ev.Failure{Kind: "canary", Case: c, Msg: "canary output differs between optimizer modes\n--- source\n" + c.Src}
	}
	return nil
}

func TestCanary(t *testing.T) {
	n := 0
	ev.R().RapidCheck(t, func(rt *rapid.T) *ev.Failure {
		c := genCanary(rt)
		n++
		if n%300 == 1 {
			ev.R().Sample(map[string]any{"source": c.Src})
		}
		return checkCanary(c)
	})
}

// TestTables verifies the bytecode of every test-table string of the repository that compiles (REPL dialect: residual
// values are allowed there, everything else is checked).
func TestReplay(t *testing.T) {
	ev.R().RunReplays(t, map[string]ev.ReplayFunc{
		"bytecode": func(raw json.RawMessage) *ev.Failure {
			var c Case
			if err := json.Unmarshal(raw, &c); err != nil {
				return &ev.Failure{Kind: "bytecode", Case: string(raw), Msg: "bad replay: " + err.Error()}
			}
			return verify(&c, false)
		},
		"deepstack": replayDeep,
		"statements": func(raw json.RawMessage) *ev.Failure {
			var c Case
			json.Unmarshal(raw, &c)
			return checkStmtProgram(&c)
		},
		"frames": replayFrames,
		"splice": replaySplice,
		"canary": func(raw json.RawMessage) *ev.Failure {
			var c Case
			json.Unmarshal(raw, &c)
			return checkCanary(&c)
		},
	})
}
