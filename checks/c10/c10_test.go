// C10 — script maps behave like Go maps under any history of operations.
//
// One history type, two drivers: the host-side Value API (NewMap/Get/Set/Delete/Len/Range) and the script
// syntax. The model is a native Go map; range is judged by a validity predicate (not one expected order).
package c10

import (
	"encoding/json"
	"fmt"
	"math"
	"sort"
	"strings"
	"testing"

	"github.com/philhassey/goatlang"
	"pgregory.net/rapid"

	"verif/internal/ev"
	"verif/internal/goat"
	"verif/internal/rx"
)

func TestMain(m *testing.M) { ev.Main(m, "C10") }

// ---- key kinds --------------------------------------------------------------------------------

type kind struct {
	Name  string // Go type name of the key
	GT    goatlang.Type
	Keys  []string // Go literal spelling of each pool key
	Prints []string // how fmt.Println prints the key (Go)
}

func strKeys() kind {
	lits := []string{`""`, `"a"`, `"b"`, `"é"`, `"\xff"`, `"k5"`}
	prints := []string{"", "a", "b", "é", "\xff", "k5"}
	return kind{"string", goatlang.TypeString, lits, prints}
}

func numKind(name string, gt goatlang.Type, vals []float64) kind {
	k := kind{Name: name, GT: gt}
	for _, v := range vals {
		k.Keys = append(k.Keys, fmt.Sprint(int64(v)))
		k.Prints = append(k.Prints, fmt.Sprint(int64(v)))
	}
	return k
}

var kinds = []kind{
	strKeys(),
	numKind("int", goatlang.TypeInt32, []float64{0, 1, -1, 7, math.MaxInt32, math.MinInt32}),
	numKind("int8", goatlang.TypeInt8, []float64{-128, -1, 0, 1, 7, 127}),
	numKind("uint8", goatlang.TypeUint8, []float64{0, 1, 7, 128, 255, 100}),
	numKind("uint32", goatlang.TypeUint32, []float64{0, 1, 7, 2147483648, 4294967295, 100}),
	{"float64", goatlang.TypeFloat64, []string{"0.0", "1.5", "-2.25", "1e100", "0.1", "3.0"}, []string{"0", "1.5", "-2.25", "1e+100", "0.1", "3"}},
	{"bool", goatlang.TypeBool, []string{"false", "true"}, []string{"false", "true"}},
}

func kindByName(n string) *kind {
	for i := range kinds {
		if kinds[i].Name == n {
			return &kinds[i]
		}
	}
	return nil
}

func (k *kind) value(i int) goatlang.Value {
	switch k.Name {
	case "string":
		return goatlang.String(k.Prints[i])
	case "bool":
		return goatlang.Bool(i == 1)
	}
	var f float64
	fmt.Sscan(k.Keys[i], &f)
	switch k.GT {
	case goatlang.TypeInt32:
		return goatlang.Int32(int32(f))
	case goatlang.TypeInt8:
		return goatlang.Int8(int8(f))
	case goatlang.TypeUint8:
		return goatlang.Uint8(uint8(f))
	case goatlang.TypeUint32:
		return goatlang.Uint32(uint32(f))
	}
	return goatlang.Float64(f)
}

func (k *kind) negZero(op Op) bool { return k.Name == "float64" && op.Key == 0 && op.Neg }

// val and lit give the key of an operation as a host value and as script text. Negative zero cannot be written as
// a Go constant; the script computes it by negating the variable fz (0.0).
func (k *kind) val(op Op) goatlang.Value {
	if k.negZero(op) {
		return goatlang.Float64(math.Copysign(0, -1))
	}
	return k.value(op.Key)
}

func (k *kind) lit(op Op) string {
	if k.negZero(op) {
		return "(-fz)"
	}
	return k.Keys[op.Key]
}

// keyIndex maps a goatlang key value back to the pool index (-1 if it is no pool key).
func (k *kind) keyIndex(v goatlang.Value) int {
	if v.Type() != k.GT {
		return -1
	}
	for i := range k.Keys {
		w := k.value(i)
		if k.Name == "string" {
			if v.String() == w.String() {
				return i
			}
		} else if v.Float64() == w.Float64() {
			return i
		}
	}
	return -1
}

// ---- histories --------------------------------------------------------------------------------

// Op is one step of a history.
type Op struct {
	Op  string `json:"op"` // set delete get getok len range
	Key int    `json:"key,omitempty"`
	Val int32  `json:"val,omitempty"`
	Neg bool   `json:"neg,omitempty"` // float64 maps, key #0 (zero): spell the key as negative zero (the same key in Go)
	// range: mutations performed when a given key is visited (first visit only), and an optional early break
	On    map[int][]Op `json:"on,omitempty"`
	Break int          `json:"break,omitempty"` // stop after this many visits (0 = run to the end)
	Key2  int          `json:"key2,omitempty"`  // clone: the key inserted into the clone (Key/Val go into the original)
	Val2  int32        `json:"val2,omitempty"`
	Same  bool         `json:"same,omitempty"`  // range (script form, no mutations): the value variable is called m, like the map it ranges over
	Nest  []int        `json:"nest,omitempty"`  // range: at the first visit of these keys a second, complete range over the same map runs inside the loop
}

type History struct {
	Kind    string `json:"kind"`
	Init    []int  `json:"init,omitempty"` // keys of the literal the map starts with (values 100+key)
	// Dup: keys of Init that the literal (or the host's NewMap argument) mentions twice: first with the value 7, later
	// with their real value, which wins. In the script the first mention goes through a variable (two equal constant
	// keys do not compile in Go)
	Dup     []int  `json:"dup,omitempty"`
	NilMap  bool   `json:"nil_map,omitempty"`
	Ops     []Op   `json:"ops"`
	InFunc  bool   `json:"in_func,omitempty"` // script form: run inside a function (locals) or at top level (globals)
}

func genMut(n int) *rapid.Generator[Op] {
	return rapid.Custom(func(rt *rapid.T) Op {
		if rapid.Bool().Draw(rt, "mutIsDelete") {
			return Op{Op: "delete", Key: rx.Uniform(rt, n, "mkey"), Neg: rapid.Bool().Draw(rt, "negzero")}
		}
		return Op{Op: "set", Key: rx.Uniform(rt, n, "mkey"), Neg: rapid.Bool().Draw(rt, "negzero")}
	})
}

func genOp(n int, nilMap bool) *rapid.Generator[Op] {
	return rapid.Custom(func(rt *rapid.T) Op {
		c := rx.Uniform(rt, 100, "opkind")
		switch {
		case nilMap && c < 50:
			return Op{Op: []string{"get", "getok", "len", "delete"}[c%4], Key: rx.Uniform(rt, n, "key"), Neg: rapid.Bool().Draw(rt, "negzero")}
		case nilMap:
			return Op{Op: "range"}
		case c < 28:
			return Op{Op: "set", Key: rx.Uniform(rt, n, "key"), Neg: rapid.Bool().Draw(rt, "negzero")}
		case c < 50:
			return Op{Op: "delete", Key: rx.Uniform(rt, n, "key"), Neg: rapid.Bool().Draw(rt, "negzero")}
		case c < 60:
			return Op{Op: "get", Key: rx.Uniform(rt, n, "key"), Neg: rapid.Bool().Draw(rt, "negzero")}
		case c < 70:
			return Op{Op: "getok", Key: rx.Uniform(rt, n, "key"), Neg: rapid.Bool().Draw(rt, "negzero")}
		case c < 76:
			return Op{Op: "len"}
		case c < 80:
			// a copy of the map is taken; then the original and the copy each get a key: they are independent
			return Op{Op: "clone", Key: rx.Uniform(rt, n, "key"), Key2: rx.Uniform(rt, n, "key2"), Neg: rapid.Bool().Draw(rt, "negzero")}
		}
		op := Op{Op: "range"}
		if rapid.IntRange(0, 2).Draw(rt, "mutating") > 0 {
			op.On = map[int][]Op{}
			for _, key := range rapid.SliceOfNDistinct(rapid.IntRange(0, n-1), 0, 3, rapid.ID[int]).Draw(rt, "onkeys") {
				op.On[key] = rapid.SliceOfN(genMut(n), 1, 3).Draw(rt, "muts")
			}
		}
		if rapid.IntRange(0, 5).Draw(rt, "break") == 0 {
			op.Break = rapid.IntRange(1, 3).Draw(rt, "breakAfter")
		}
		if len(op.On) == 0 && rapid.IntRange(0, 3).Draw(rt, "samename") == 0 {
			op.Same = true
			return op
		}
		if rapid.IntRange(0, 3).Draw(rt, "nested") == 0 {
			op.Nest = rapid.SliceOfNDistinct(rapid.IntRange(0, n-1), 1, 3, rapid.ID[int]).Draw(rt, "nestkeys")
			sort.Ints(op.Nest)
		}
		return op
	})
}

func genHistory(rt *rapid.T) *History {
	ki := rx.Uniform(rt, len(kinds), "kind")
	k := &kinds[ki]
	n := len(k.Keys)
	h := &History{Kind: k.Name, InFunc: rapid.Bool().Draw(rt, "inFunc")}
	if rapid.IntRange(0, 19).Draw(rt, "nil") == 0 {
		h.NilMap = true
	} else {
		h.Init = rapid.SliceOfNDistinct(rapid.IntRange(0, n-1), 0, n, rapid.ID[int]).Draw(rt, "init")
		if len(h.Init) > 0 && rx.Chance(rt, "dupkeys", 1, 4) {
			for _, ki := range h.Init {
				if rapid.Bool().Draw(rt, "dup") {
					h.Dup = append(h.Dup, ki)
				}
			}
		}
	}
	h.Ops = rapid.SliceOfN(genOp(n, h.NilMap), 1, 40).Draw(rt, "ops")
	// number the written values so that every write is identifiable
	var next int32 = 1000
	for i := range h.Ops {
		if h.Ops[i].Op == "set" {
			next++
			h.Ops[i].Val = next
		}
		if h.Ops[i].Op == "clone" {
			next += 2
			h.Ops[i].Val, h.Ops[i].Val2 = next-1, next
		}
		keys := make([]int, 0, len(h.Ops[i].On))
		for key := range h.Ops[i].On {
			keys = append(keys, key)
		}
		sort.Ints(keys)
		for _, key := range keys {
			for j := range h.Ops[i].On[key] {
				if h.Ops[i].On[key][j].Op == "set" {
					next++
					h.Ops[i].On[key][j].Val = next
				}
			}
		}
	}
	return h
}

func containsInt(s []int, x int) bool {
	for _, y := range s {
		if y == x {
			return true
		}
	}
	return false
}

func seq(n int) []int {
	s := make([]int, n)
	for i := range s {
		s[i] = i
	}
	return s
}

// ---- model ------------------------------------------------------------------------------------

type model struct {
	data map[int]int32
}

// visit is one observed range visit.
type visit struct {
	key int
	val int32
}

// rangeState judges the visits of one range loop against the model.
type rangeState struct {
	m            *model
	liveAtStart  map[int]bool // keys live since the loop began and never deleted so far
	visitedLive  map[int]bool // keys visited in their current liveness interval
}

func newRangeState(m *model) *rangeState {
	rs := &rangeState{m: m, liveAtStart: map[int]bool{}, visitedLive: map[int]bool{}}
	for k := range m.data {
		rs.liveAtStart[k] = true
	}
	return rs
}

func (rs *rangeState) onVisit(v visit) string {
	cur, live := rs.m.data[v.key]
	if !live {
		return fmt.Sprintf("range visited key #%d which is not in the map at that moment (deleted key)", v.key)
	}
	if rs.visitedLive[v.key] {
		return fmt.Sprintf("range visited key #%d twice although it was not deleted in between", v.key)
	}
	if cur != v.val {
		return fmt.Sprintf("range yielded value %d for key #%d, the map holds %d", v.val, v.key, cur)
	}
	rs.visitedLive[v.key] = true
	return ""
}

func (rs *rangeState) onDelete(k int) {
	delete(rs.liveAtStart, k)
	delete(rs.visitedLive, k)
}

func (rs *rangeState) atEnd(complete bool) string {
	if !complete {
		return ""
	}
	for k := range rs.liveAtStart {
		if !rs.visitedLive[k] {
			return fmt.Sprintf("range ended without visiting key #%d, which was in the map for the whole loop", k)
		}
	}
	return ""
}

func (m *model) apply(op Op, rs *rangeState) {
	switch op.Op {
	case "set", "clone": // for the original map a clone step is the insertion of Key
		m.data[op.Key] = op.Val
	case "delete":
		delete(m.data, op.Key)
		if rs != nil {
			rs.onDelete(op.Key)
		}
	}
}

func newModel(h *History) *model {
	m := &model{data: map[int]int32{}}
	for _, k := range h.Init {
		m.data[k] = int32(100 + k)
	}
	return m
}

func nontrivial(h *History) (bool, []string) {
	var why []string
	deleted := map[int]bool{}
	reinserted := false
	keysEver, live := map[int]bool{}, map[int]bool{}
	for _, k := range h.Init {
		live[k] = true
		keysEver[k] = true
	}
	crossed := false
	note := func(op Op) {
		switch op.Op {
		case "set":
			if deleted[op.Key] {
				reinserted = true
			}
			live[op.Key] = true
			keysEver[op.Key] = true
		case "delete":
			if live[op.Key] {
				deleted[op.Key] = true
				delete(live, op.Key)
			}
		}
		if len(live)*2 < len(keysEver) {
			crossed = true
		}
	}
	for _, op := range h.Ops {
		if op.Op == "range" {
			if reinserted {
				why = append(why, "delete_reinsert_before_range")
			}
			if len(op.On) > 0 {
				why = append(why, "mutation_inside_range")
			}
			for _, ms := range op.On {
				for _, m := range ms {
					note(m)
				}
			}
			continue
		}
		note(op)
	}
	if crossed {
		why = append(why, "crosses_compaction_threshold")
	}
	return len(why) > 0, why
}

// ---- host driver ------------------------------------------------------------------------------

func fail(kindName string, h *History, step int, msg string) *ev.Failure {
	return &ev.Failure{Kind: kindName, Case: h, Msg: fmt.Sprintf("%s map, step %d: %s", h.Kind, step, msg)}
}

func runHost(h *History) (f *ev.Failure) {
	k := kindByName(h.Kind)
	defer func() {
		if r := recover(); r != nil {
			f = fail("host", h, -1, fmt.Sprintf("host API panicked: %v", r))
		}
	}()
	var init []goatlang.Value
	for _, ki := range h.Dup {
		init = append(init, k.value(ki), goatlang.Int32(7))
	}
	for _, ki := range h.Init {
		init = append(init, k.value(ki), goatlang.Int32(int32(100+ki)))
	}
	var gm goatlang.Value
	if h.NilMap {
		// a typed nil map, as a script's `var m map[K]int` holds it: obtained from a script
		vm := goat.New()
		r := vm.Eval(nil, "var m map["+k.Name+"]int", goat.DefaultBudget)
		if r.Failed() {
			return fail("host", h, -1, "declaring a nil map failed: "+r.ErrString())
		}
		gm = vm.Get("main.m")
	} else {
		gm = goatlang.NewMap(k.GT, goatlang.TypeInt32, init)
	}
	m := newModel(h)
	for i, op := range h.Ops {
		switch op.Op {
		case "set", "clone": // the host form has no Clone: the step is the insertion into the original
			gm.Set(k.val(op), goatlang.Int32(op.Val))
			m.apply(op, nil)
		case "delete":
			gm.Delete(k.val(op))
			m.apply(op, nil)
		case "get", "getok":
			v, ok := gm.Get(k.val(op))
			want, wok := m.data[op.Key]
			if ok != wok || v.Type() != goatlang.TypeInt32 || v.Int32() != want {
				return fail("host", h, i, fmt.Sprintf("Get(key #%d) = (%v, %v), Go map gives (%d, %v)", op.Key, v.String(), ok, want, wok))
			}
		case "len":
			if gm.Len() != len(m.data) {
				return fail("host", h, i, fmt.Sprintf("Len() = %d, Go map has %d", gm.Len(), len(m.data)))
			}
		case "range":
			next := gm.Range()
			rs := newRangeState(m)
			done := map[int]bool{}
			visits := 0
			complete := true
			for {
				kv, vv, ok := next()
				if !ok {
					break
				}
				visits++
				if visits > 200 {
					return fail("host", h, i, "range does not terminate (200 visits)")
				}
				ki := k.keyIndex(kv)
				if ki < 0 {
					return fail("host", h, i, fmt.Sprintf("range yielded key %v (type %d) which was never inserted", kv.String(), kv.Type()))
				}
				if msg := rs.onVisit(visit{ki, vv.Int32()}); msg != "" {
					return fail("host", h, i, msg)
				}
				if !done[ki] && containsInt(op.Nest, ki) {
					// a second iterator over the same map, run to completion while the first is in flight
					inner := gm.Range()
					rs2 := newRangeState(m)
					for n2 := 0; ; n2++ {
						k2, v2, ok2 := inner()
						if !ok2 {
							break
						}
						if n2 > 200 {
							return fail("host", h, i, "nested range does not terminate (200 visits)")
						}
						ki2 := k.keyIndex(k2)
						if ki2 < 0 {
							return fail("host", h, i, fmt.Sprintf("nested range yielded key %v which was never inserted", k2.String()))
						}
						if msg := rs2.onVisit(visit{ki2, v2.Int32()}); msg != "" {
							return fail("host", h, i, "nested "+msg)
						}
					}
					if msg := rs2.atEnd(true); msg != "" {
						return fail("host", h, i, "nested "+msg)
					}
				}
				if !done[ki] {
					done[ki] = true
					for _, mu := range op.On[ki] {
						if mu.Op == "set" {
							gm.Set(k.val(mu), goatlang.Int32(mu.Val))
						} else {
							gm.Delete(k.val(mu))
						}
						m.apply(mu, rs)
					}
				}
				if op.Break > 0 && visits >= op.Break {
					complete = false
					break
				}
			}
			if msg := rs.atEnd(complete); msg != "" {
				return fail("host", h, i, msg)
			}
		}
		if gm.Len() != len(m.data) {
			return fail("host", h, i, fmt.Sprintf("after %s: Len() = %d, Go map has %d", op.Op, gm.Len(), len(m.data)))
		}
	}
	// final full scan
	for ki := range k.Keys {
		v, ok := gm.Get(k.value(ki))
		want, wok := m.data[ki]
		if ok != wok || v.Int32() != want {
			return fail("host", h, len(h.Ops), fmt.Sprintf("final scan: Get(key #%d) = (%v, %v), Go map gives (%d, %v)", ki, v.String(), ok, want, wok))
		}
	}
	return nil
}

// ---- script driver ----------------------------------------------------------------------------

func script(h *History) string {
	k := kindByName(h.Kind)
	var sb strings.Builder
	ind := ""
	sb.WriteString("import \"fmt\"\nimport \"golang.org/x/exp/maps\"\n")
	if h.InFunc {
		sb.WriteString("func run() {\n")
		ind = "\t"
	}
	if k.Name == "float64" {
		fmt.Fprintf(&sb, "%sfz := 0.0\n%s_ = fz\n", ind, ind)
	}
	if h.NilMap {
		fmt.Fprintf(&sb, "%svar m map[%s]int\n", ind, k.Name)
	} else {
		var items []string
		for _, ki := range h.Dup {
			fmt.Fprintf(&sb, "%svar dk%d %s = %s\n", ind, ki, k.Name, k.Keys[ki])
			items = append(items, fmt.Sprintf("dk%d: 7", ki))
		}
		for _, ki := range h.Init {
			items = append(items, fmt.Sprintf("%s: %d", k.Keys[ki], 100+ki))
		}
		fmt.Fprintf(&sb, "%sm := map[%s]int{%s}\n", ind, k.Name, strings.Join(items, ", "))
	}
	writeMut := func(ind string, mu Op) {
		if mu.Op == "set" {
			fmt.Fprintf(&sb, "%sm[%s] = %d\n", ind, k.lit(mu), mu.Val)
		} else {
			fmt.Fprintf(&sb, "%sdelete(m, %s)\n", ind, k.lit(mu))
		}
	}
	for i, op := range h.Ops {
		switch op.Op {
		case "set", "delete":
			writeMut(ind, op)
		case "clone":
			fmt.Fprintf(&sb, "%sc%d := maps.Clone(m)\n", ind, i)
			fmt.Fprintf(&sb, "%sm[%s] = %d\n", ind, k.lit(op), op.Val)
			fmt.Fprintf(&sb, "%sc%d[%s] = %d\n", ind, i, k.Keys[op.Key2], op.Val2)
			fmt.Fprintf(&sb, "%sfmt.Println(\"CL\", %d, len(c%d))\n", ind, i, i)
			fmt.Fprintf(&sb, "%sfor k, v := range c%d {\n%s\tfmt.Println(\"CV\", %d, k, v)\n%s}\n", ind, i, ind, i, ind)
			fmt.Fprintf(&sb, "%sfmt.Println(\"CE\", %d)\n", ind, i)
		case "get":
			fmt.Fprintf(&sb, "%sfmt.Println(\"G\", %d, m[%s])\n", ind, i, k.lit(op))
		case "getok":
			fmt.Fprintf(&sb, "%sv%d, ok%d := m[%s]\n%sfmt.Println(\"O\", %d, v%d, ok%d)\n", ind, i, i, k.lit(op), ind, i, i, i)
		case "len":
			fmt.Fprintf(&sb, "%sfmt.Println(\"L\", %d, len(m))\n", ind, i)
		case "range":
			if len(op.On) > 0 {
				for key := range k.Keys {
					if _, ok := op.On[key]; ok {
						fmt.Fprintf(&sb, "%sd%d_%d := false\n", ind, i, key)
					}
				}
			}
			if op.Break > 0 {
				fmt.Fprintf(&sb, "%sn%d := 0\n", ind, i)
			}
			for _, key := range op.Nest {
				fmt.Fprintf(&sb, "%sw%d_%d := false\n", ind, i, key)
			}
			if op.Same {
				// the range expression is evaluated before the loop variables exist: m on the right is still the map
				fmt.Fprintf(&sb, "%sfor k, m := range m {\n", ind)
				fmt.Fprintf(&sb, "%s\tfmt.Println(\"V\", %d, k, m)\n", ind, i)
			} else {
				fmt.Fprintf(&sb, "%sfor k, v := range m {\n", ind)
				fmt.Fprintf(&sb, "%s\tfmt.Println(\"V\", %d, k, v)\n", ind, i)
			}
			for _, key := range op.Nest {
				fmt.Fprintf(&sb, "%s\tif k == %s && !w%d_%d {\n%s\t\tw%d_%d = true\n%s\t\tfor k2, v2 := range m {\n%s\t\t\tfmt.Println(\"W\", %d, k2, v2)\n%s\t\t}\n%s\t\tfmt.Println(\"X\", %d)\n%s\t}\n", ind, k.Keys[key], i, key, ind, i, key, ind, ind, i, ind, ind, i, ind)
			}
			for key := range k.Keys {
				mus, ok := op.On[key]
				if !ok {
					continue
				}
				fmt.Fprintf(&sb, "%s\tif k == %s && !d%d_%d {\n%s\t\td%d_%d = true\n", ind, k.Keys[key], i, key, ind, i, key)
				for _, mu := range mus {
					writeMut(ind+"\t\t", mu)
				}
				fmt.Fprintf(&sb, "%s\t}\n", ind)
			}
			if op.Break > 0 {
				fmt.Fprintf(&sb, "%s\tn%d++\n%s\tif n%d >= %d {\n%s\t\tbreak\n%s\t}\n", ind, i, ind, i, op.Break, ind, ind)
			}
			fmt.Fprintf(&sb, "%s}\n%sfmt.Println(\"E\", %d)\n", ind, ind, i)
		}
	}
	fmt.Fprintf(&sb, "%sfmt.Println(\"L\", %d, len(m))\n", ind, len(h.Ops))
	for ki := range k.Keys {
		fmt.Fprintf(&sb, "%sfv%d, fok%d := m[%s]\n%sfmt.Println(\"O\", %d, fv%d, fok%d)\n", ind, ki, ki, k.Keys[ki], ind, len(h.Ops)+1+ki, ki, ki)
	}
	if h.InFunc {
		sb.WriteString("}\nrun()\n")
	}
	return sb.String()
}

func runScript(h *History) *ev.Failure {
	k := kindByName(h.Kind)
	src := script(h)
	r := goat.EvalOnce(src)
	failS := func(step int, msg string) *ev.Failure {
		return &ev.Failure{Kind: "script", Case: h, Msg: fmt.Sprintf("%s map, step %d: %s\n--- script\n%s--- output\n%s", h.Kind, step, msg, src, r.Stdout)}
	}
	if r.Failed() {
		return failS(-1, "script of valid Go map operations failed: "+r.ErrString())
	}
	lines := strings.Split(strings.TrimSuffix(r.Stdout, "\n"), "\n")
	pos := 0
	nextLine := func() (string, bool) {
		if pos >= len(lines) {
			return "", false
		}
		pos++
		return lines[pos-1], true
	}
	peek := func() string {
		if pos >= len(lines) {
			return ""
		}
		return lines[pos]
	}
	m := newModel(h)
	expect := func(step int, want string) *ev.Failure {
		got, ok := nextLine()
		if !ok || got != want {
			return failS(step, fmt.Sprintf("printed %q, a Go map gives %q", got, want))
		}
		return nil
	}
	for i, op := range h.Ops {
		switch op.Op {
		case "clone":
			cm := &model{data: map[int]int32{}}
			for kk, vv := range m.data {
				cm.data[kk] = vv
			}
			cm.data[op.Key2] = op.Val2
			m.apply(op, nil)
			if f := expect(i, fmt.Sprintf("CL %d %d", i, len(cm.data))); f != nil {
				return f
			}
			crs := newRangeState(cm)
			cprefix := fmt.Sprintf("CV %d ", i)
			for strings.HasPrefix(peek(), cprefix) {
				cl, _ := nextLine()
				crest := cl[len(cprefix):]
				csp := strings.LastIndex(crest, " ")
				if csp < 0 {
					return failS(i, fmt.Sprintf("malformed clone visit line %q", cl))
				}
				ck := -1
				for j, p := range k.Prints {
					if p == crest[:csp] {
						ck = j
					}
				}
				if ck < 0 && k.Name == "float64" && crest[:csp] == "-0" {
					ck = 0
				}
				if ck < 0 {
					return failS(i, fmt.Sprintf("range over the clone yielded key %q, which was never inserted", crest[:csp]))
				}
				var cv int32
				fmt.Sscan(crest[csp+1:], &cv)
				if msg := crs.onVisit(visit{ck, cv}); msg != "" {
					return failS(i, "clone: "+msg)
				}
			}
			if f := expect(i, fmt.Sprintf("CE %d", i)); f != nil {
				return f
			}
			if msg := crs.atEnd(true); msg != "" {
				return failS(i, "clone: "+msg)
			}
		case "set", "delete":
			m.apply(op, nil)
		case "get":
			if f := expect(i, fmt.Sprintf("G %d %d", i, m.data[op.Key])); f != nil {
				return f
			}
		case "getok":
			v, ok := m.data[op.Key]
			if f := expect(i, fmt.Sprintf("O %d %d %v", i, v, ok)); f != nil {
				return f
			}
		case "len":
			if f := expect(i, fmt.Sprintf("L %d %d", i, len(m.data))); f != nil {
				return f
			}
		case "range":
			rs := newRangeState(m)
			done := map[int]bool{}
			visits := 0
			complete := true
			prefix := fmt.Sprintf("V %d ", i)
			for strings.HasPrefix(peek(), prefix) {
				l, _ := nextLine()
				rest := l[len(prefix):]
				// "<key> <value>": the value is the last field, the key is whatever precedes it (may be empty or contain bytes)
				sp := strings.LastIndex(rest, " ")
				if sp < 0 {
					return failS(i, fmt.Sprintf("malformed visit line %q", l))
				}
				keyText, valText := rest[:sp], rest[sp+1:]
				ki := -1
				for j, p := range k.Prints {
					if p == keyText {
						ki = j
					}
				}
				if ki < 0 && k.Name == "float64" && keyText == "-0" {
					ki = 0 // Go keeps whichever zero was stored last as the key; both are key #0
				}
				if ki < 0 {
					return failS(i, fmt.Sprintf("range yielded key %q, which is not a key that was ever inserted (as Go prints them: %q)", keyText, k.Prints))
				}
				var val int32
				if _, err := fmt.Sscan(valText, &val); err != nil {
					return failS(i, fmt.Sprintf("range yielded value %q", valText))
				}
				visits++
				if msg := rs.onVisit(visit{ki, val}); msg != "" {
					return failS(i, msg)
				}
				if !done[ki] && containsInt(op.Nest, ki) {
					rs2 := newRangeState(m)
					wprefix := fmt.Sprintf("W %d ", i)
					for strings.HasPrefix(peek(), wprefix) {
						wl, _ := nextLine()
						wrest := wl[len(wprefix):]
						wsp := strings.LastIndex(wrest, " ")
						if wsp < 0 {
							return failS(i, fmt.Sprintf("malformed nested visit line %q", wl))
						}
						wk := -1
						for j, p := range k.Prints {
							if p == wrest[:wsp] {
								wk = j
							}
						}
						if wk < 0 && k.Name == "float64" && wrest[:wsp] == "-0" {
							wk = 0
						}
						if wk < 0 {
							return failS(i, fmt.Sprintf("nested range yielded key %q, which was never inserted", wrest[:wsp]))
						}
						var wv int32
						fmt.Sscan(wrest[wsp+1:], &wv)
						if msg := rs2.onVisit(visit{wk, wv}); msg != "" {
							return failS(i, "nested "+msg)
						}
					}
					if f := expect(i, fmt.Sprintf("X %d", i)); f != nil {
						return f
					}
					if msg := rs2.atEnd(true); msg != "" {
						return failS(i, "nested "+msg)
					}
				}
				if !done[ki] {
					done[ki] = true
					for _, mu := range op.On[ki] {
						m.apply(mu, rs)
					}
				}
				if op.Break > 0 && visits >= op.Break {
					complete = false
					break
				}
			}
			if f := expect(i, fmt.Sprintf("E %d", i)); f != nil {
				return f
			}
			if msg := rs.atEnd(complete); msg != "" {
				return failS(i, msg)
			}
		}
	}
	if f := expect(len(h.Ops), fmt.Sprintf("L %d %d", len(h.Ops), len(m.data))); f != nil {
		return f
	}
	for ki := range k.Keys {
		v, ok := m.data[ki]
		if f := expect(len(h.Ops)+1+ki, fmt.Sprintf("O %d %d %v", len(h.Ops)+1+ki, v, ok)); f != nil {
			return f
		}
	}
	if pos != len(lines) {
		return failS(len(h.Ops), fmt.Sprintf("extra output line %q", lines[pos]))
	}
	return nil
}

// ---- known findings ---------------------------------------------------------------------------

// (none open at the moment; exclusions would be applied in genHistory)

// ---- units ------------------------------------------------------------------------------------

func record(h *History) {
	r := ev.R()
	r.Eval(1)
	r.Class("kind=" + h.Kind)
	if nt, why := nontrivial(h); nt {
		r.Nontrivial(ev.HashJSON(h))
		for _, w := range why {
			r.Class(w)
		}
	}
	if h.NilMap {
		r.Class("nil_map")
	}
	r.Sample(h)
}

func TestHost(t *testing.T) {
	ev.R().RapidCheck(t, func(rt *rapid.T) *ev.Failure {
		h := genHistory(rt)
		h.InFunc = false
		record(h)
		return runHost(h)
	})
}

func TestScript(t *testing.T) {
	ev.R().RapidCheck(t, func(rt *rapid.T) *ev.Failure {
		h := genHistory(rt)
		record(h)
		return runScript(h)
	})
}

func TestReplay(t *testing.T) {
	dec := func(raw json.RawMessage) (*History, *ev.Failure) {
		var h History
		if err := json.Unmarshal(raw, &h); err != nil || kindByName(h.Kind) == nil {
			return nil, &ev.Failure{Kind: "host", Case: string(raw), Msg: fmt.Sprintf("bad replay: %v", err)}
		}
		return &h, nil
	}
	ev.R().RunReplays(t, map[string]ev.ReplayFunc{
		"host": func(raw json.RawMessage) *ev.Failure {
			h, f := dec(raw)
			if f != nil {
				return f
			}
			return runHost(h)
		},
		"script": func(raw json.RawMessage) *ev.Failure {
			h, f := dec(raw)
			if f != nil {
				return f
			}
			return runScript(h)
		},
	})
}
