// C15 — packages initialise once each, dependencies first, for any import graph.
package c15

import (
	"encoding/json"
	"fmt"
	"slices"
	"sort"
	"strings"
	"testing"

	"github.com/philhassey/goatlang"
	"pgregory.net/rapid"

	"verif/internal/ev"
	"verif/internal/goat"
	"verif/internal/rx"
)

func TestMain(m *testing.M) { ev.Main(m, "C15") }

// Pkg describes one generated package.
type Pkg struct {
	Name    string   `json:"name"`    // package clause name (last path element)
	Path    string   `json:"path"`    // import path
	Dir     string   `json:"dir"`     // where its files live in the tree (full path, vendor/..., or a shortened suffix)
	Imports []int    `json:"imports"` // indexes of imported packages
	Files   []File   `json:"files"`
	Alias   bool     `json:"alias"`   // importers use an explicit alias
	Blank   bool     `json:"blank,omitempty"` // importers import it for its side effects only (import _ "path")
	// Ghost: the directory exists but holds no buildable file (only _test.go files and files excluded by their constraint):
	// the import is then served by the host's native registration (or, blank, by nothing), exactly as if the directory were absent
	Ghost bool `json:"ghost,omitempty"`
	// Script: a stand-alone file (package main, //go:build ignore) kept in the directory of another package and loaded by
	// file name; it is the top of the graph
	Script bool `json:"script,omitempty"`
}

type File struct {
	Name       string `json:"name"`
	Header     string `json:"header,omitempty"` // lines before the package clause (comments, build constraint)
	Ignored    bool   `json:"ignored"`          // _test.go or excluded by constraint: must contribute nothing
	Garbage    bool   `json:"garbage,omitempty"`
	Imports    []int  `json:"imports,omitempty"`
	VarMarks   int    `json:"var_marks"`
	Stmts      int    `json:"stmts,omitempty"` // top-level statements with blocks of their own (for, if with init, range, switch), after the variables
	InitFuncs  int    `json:"init_funcs"`
	ExtraNative bool  `json:"extra_native,omitempty"` // imports a bundled native package too
	Unsupported bool  `json:"unsupported,omitempty"`  // (excluded files) body uses Go syntax outside goatlang's grammar
}

type Case struct {
	Pkgs     []Pkg  `json:"pkgs"`
	Top      int    `json:"top"`
	Negative string `json:"negative,omitempty"` // "", "cycle", "conflict"
	LoadArg  string `json:"load_arg"`
}

// ---- build constraints with a value known by construction -------------------------------------

func genConstraint(rt *rapid.T, want bool, depth int) string {
	if depth >= 3 || rx.Chance(rt, "leaf", 1, 2) {
		if want {
			return rx.Pick(rt, "ttag", "goat", "goat", "!linux", "!ignore", "!windows")
		}
		return rx.Pick(rt, "ftag", "!goat", "linux", "ignore", "windows", "darwin", "foo")
	}
	switch rx.Uniform(rt, 3, "cop") {
	case 0: // negation
		return "!(" + genConstraint(rt, !want, depth+1) + ")"
	case 1: // and
		if want {
			return "(" + genConstraint(rt, true, depth+1) + " && " + genConstraint(rt, true, depth+1) + ")"
		}
		a := rapid.Bool().Draw(rt, "afalse")
		return "(" + genConstraint(rt, !a && rapid.Bool().Draw(rt, "x"), depth+1) + " && " + genConstraint(rt, a, depth+1) + ")"
	default: // or
		if !want {
			return "(" + genConstraint(rt, false, depth+1) + " || " + genConstraint(rt, false, depth+1) + ")"
		}
		a := rapid.Bool().Draw(rt, "atrue")
		return "(" + genConstraint(rt, a || rapid.Bool().Draw(rt, "y"), depth+1) + " || " + genConstraint(rt, !a || true, depth+1) + ")"
	}
}

// evalConstraint evaluates the constraint under {goat}: self-check of genConstraint.
func evalConstraint(e string) bool {
	p := &cparser{s: strings.ReplaceAll(e, " ", "")}
	return p.or()
}

type cparser struct {
	s string
	i int
}

func (p *cparser) or() bool {
	v := p.and()
	for strings.HasPrefix(p.s[p.i:], "||") {
		p.i += 2
		w := p.and()
		v = v || w
	}
	return v
}
func (p *cparser) and() bool {
	v := p.not()
	for strings.HasPrefix(p.s[p.i:], "&&") {
		p.i += 2
		w := p.not()
		v = v && w
	}
	return v
}
func (p *cparser) not() bool {
	if p.s[p.i] == '!' {
		p.i++
		return !p.not()
	}
	if p.s[p.i] == '(' {
		p.i++
		v := p.or()
		p.i++
		return v
	}
	j := p.i
	for j < len(p.s) && (p.s[j] >= 'a' && p.s[j] <= 'z') {
		j++
	}
	tag := p.s[p.i:j]
	p.i = j
	return tag == "goat"
}

// ---- generation -------------------------------------------------------------------------------

var fileNames = []string{"a.go", "b.go", "z.go", "0.go", "main.go", "contest.go", "m_x.go", "x_testing.go", "test.go", "aa.go", "Z.go", "k9.go"}

func genCase(rt *rapid.T) *Case {
	n := rx.Range(rt, "npkgs", 1, 12)
	c := &Case{}
	prefixes := []string{"", "lib/", "m/lib/", "deep/er/still/", "github.com/u/r/"}
	for i := 0; i < n; i++ {
		name := fmt.Sprintf("p%d", i)
		p := Pkg{Name: name, Path: rx.Pick(rt, "prefix", prefixes...) + name, Alias: rx.Chance(rt, "alias", 1, 5)}
		if !p.Alias && i > 0 && rx.Chance(rt, "blank", 1, 4) {
			p.Blank = true
		}
		parts := strings.Split(p.Path, "/")
		switch rx.Uniform(rt, 4, "place") {
		case 0:
			p.Dir = "vendor/" + p.Path
		case 1:
			p.Dir = strings.Join(parts[rx.Uniform(rt, len(parts), "suffix"):], "/")
		default:
			p.Dir = p.Path
		}
		c.Pkgs = append(c.Pkgs, p)
	}
	c.Pkgs[0].Name = rx.Pick(rt, "topname", "main", "p0")
	var ghosts []int
	if rx.Chance(rt, "ghosts", 1, 3) {
		for g := rx.Range(rt, "nghosts", 1, 2); g > 0; g-- {
			name := fmt.Sprintf("gh%d", len(c.Pkgs))
			p := Pkg{Name: name, Path: rx.Pick(rt, "gprefix", prefixes...) + name, Ghost: true, Blank: rapid.Bool().Draw(rt, "gblank")}
			p.Dir = p.Path
			if rx.Chance(rt, "gvendor", 1, 4) {
				p.Dir = "vendor/" + p.Path
			}
			ghosts = append(ghosts, len(c.Pkgs))
			c.Pkgs = append(c.Pkgs, p)
		}
	}
	// DAG edges i -> j for i < j; long chains and diamonds favoured by a per-case density
	density := rx.Pick(rt, "density", 1, 2, 3, 5)
	for i := 0; i < n; i++ {
		for j := i + 1; j < n; j++ {
			if j == i+1 && rx.Chance(rt, "chain", 2, 3) || rx.Chance(rt, "edge", density, 10) {
				c.Pkgs[i].Imports = append(c.Pkgs[i].Imports, j)
			}
		}
	}
	for _, g := range ghosts {
		for k := rx.Range(rt, "gimporters", 1, 2); k > 0; k-- {
			i := rx.Uniform(rt, n, "gimporter")
			if !slices.Contains(c.Pkgs[i].Imports, g) {
				c.Pkgs[i].Imports = append(c.Pkgs[i].Imports, g)
			}
		}
	}
	if rx.Chance(rt, "script", 1, 4) {
		// the script lives in the directory of one of the packages (often the one it imports) and imports the former top
		host := rx.Uniform(rt, n, "scripthost")
		if rapid.Bool().Draw(rt, "scriptInTop") {
			host = 0
		}
		sp := Pkg{Name: "main", Path: "script", Dir: c.Pkgs[host].Dir, Script: true, Imports: []int{0}}
		if c.Pkgs[0].Name == "main" {
			c.Pkgs[0].Name = "p0"
		}
		if host != 0 && rapid.Bool().Draw(rt, "scriptImportsHost") {
			sp.Imports = append(sp.Imports, host)
		}
		c.Top = len(c.Pkgs)
		c.Pkgs = append(c.Pkgs, sp)
	}
	for i := range c.Pkgs {
		p := &c.Pkgs[i]
		if p.Script {
			p.Files = []File{{Name: "gen.go", Header: "//go:build ignore\n\n", VarMarks: rx.Range(rt, "svm", 0, 2), InitFuncs: rx.Range(rt, "sif", 1, 2), Imports: p.Imports, ExtraNative: true}}
			continue
		}
		if p.Ghost {
			if rx.Chance(rt, "gtest", 2, 3) {
				p.Files = append(p.Files, File{Name: rx.Pick(rt, "gtname", "a_test.go", "gh_test.go"), Ignored: true, Garbage: rapid.Bool().Draw(rt, "ggarbage"), VarMarks: 1, InitFuncs: 1})
			}
			if len(p.Files) == 0 || rapid.Bool().Draw(rt, "gexcl") {
				p.Files = append(p.Files, File{Name: rx.Pick(rt, "gxname", "stub.go", "doc.go"), Ignored: true, Header: "//go:build " + genConstraint(rt, false, 0) + "\n\n", VarMarks: 1, InitFuncs: 1, Unsupported: rapid.Bool().Draw(rt, "gunsupported")})
			}
			continue
		}
		nf := rx.Range(rt, "nfiles", 1, 4)
		names := rapid.Permutation(fileNames).Draw(rt, "fnames")[:nf]
		for k, fname := range names {
			f := File{Name: fname, VarMarks: rx.Range(rt, "vm", 0, 3), InitFuncs: rx.Range(rt, "if", 0, 2), Stmts: rx.Pick(rt, "stmts", 0, 0, 0, 1, 2, 3)}
			switch rx.Uniform(rt, 8, "header") {
			case 0:
				f.Header = "//go:build " + genConstraint(rt, true, 0) + "\n\n"
			case 1:
				f.Header = "// Package docs.\n"
			case 2:
				if !skip("c15-constraint-after-comment") {
					f.Header = rx.Pick(rt, "hdrcomment", "// Copyright someone.\n", "// Generator for the tables of the util package.\n", "// This package file is part of a package.\n// package main\n", "/* Copyright someone. */\n", "/*\n * Licence of the package:\n * package main\n */\n", "/* a */ /* b\n*/ // c\n") + "\n//go:build " + genConstraint(rt, true, 0) + "\n\n"
				}
			}
			p.Files = append(p.Files, f)
			_ = k
		}
		// scatter the imports over the files (each import in at least one file)
		for _, imp := range p.Imports {
			k := rx.Uniform(rt, nf, "impfile")
			p.Files[k].Imports = append(p.Files[k].Imports, imp)
			if rx.Chance(rt, "impTwice", 1, 4) {
				k2 := rx.Uniform(rt, nf, "impfile2")
				if k2 != k {
					p.Files[k2].Imports = append(p.Files[k2].Imports, imp)
				}
			}
		}
		// decoys that must be ignored
		if rx.Chance(rt, "testfile", 1, 2) {
			p.Files = append(p.Files, File{Name: rx.Pick(rt, "tname", "a_test.go", "zz_test.go", "main_test.go"), Ignored: true, Garbage: rapid.Bool().Draw(rt, "garbage"), VarMarks: 1, InitFuncs: 1})
		}
		if rx.Chance(rt, "excluded", 1, 2) {
			hdr := "//go:build " + genConstraint(rt, false, 0) + "\n\n"
			if rx.Chance(rt, "afterComment", 1, 2) && !skip("c15-constraint-after-comment") {
				// the comment above the constraint may mention the word package
				hdr = rx.Pick(rt, "xhdrcomment", "// Copyright someone.\n", "// Generator for the tables of the util package.\n", "// This package file is part of a package.\n// package main\n", "/* Copyright someone. */\n", "/*\n * Licence of the package:\n * package main\n */\n", "/* a */ /* b\n*/ // c\n") + "\n" + hdr
			}
			// an excluded file is never parsed: it may use Go that goatlang does not support (generics, channels, cgo)
			p.Files = append(p.Files, File{Name: rx.Pick(rt, "xname", "excl.go", "other_os.go", "00.go"), Ignored: true, Header: hdr, VarMarks: 1, InitFuncs: 1, Unsupported: rapid.Bool().Draw(rt, "unsupported")})
		}
		p.Files[0].ExtraNative = true
	}
	c.LoadArg = c.Pkgs[0].Dir
	if strings.HasPrefix(c.LoadArg, "vendor/") || c.Pkgs[0].Dir != c.Pkgs[0].Path {
		// the top package is named by its import path; the loader applies the same search
		c.LoadArg = c.Pkgs[0].Path
	}
	if c.Pkgs[c.Top].Script {
		c.LoadArg = c.Pkgs[c.Top].Dir + "/gen.go"
	}
	return c
}

func skip(id string) bool {
	if ev.KnownOpen("C15", id) == nil {
		return false
	}
	ev.R().Class("excluded_by_known_finding:" + id)
	return true
}

// ---- rendering --------------------------------------------------------------------------------

func (c *Case) mark(p int, f string, kind string, k int) string {
	return fmt.Sprintf("%s|%s|%s%d", c.Pkgs[p].Path, f, kind, k)
}

func (c *Case) files() map[string]string {
	out := map[string]string{}
	for pi, p := range c.Pkgs {
		for fi, f := range p.Files {
			var sb strings.Builder
			if f.Garbage {
				out[p.Dir+"/"+f.Name] = "this is }{ not go ((( at all \"\n"
				continue
			}
			sb.WriteString(f.Header)
			clause := p.Name
			if f.Ignored && strings.HasSuffix(f.Name, "_test.go") {
				clause = p.Name + "_test"
			}
			fmt.Fprintf(&sb, "package %s\n\n", clause)
			sb.WriteString("import \"fmt\"\n")
			if f.ExtraNative {
				sb.WriteString("import \"strings\"\n")
			}
			for _, imp := range f.Imports {
				q := c.Pkgs[imp]
				if q.Blank {
					fmt.Fprintf(&sb, "import _ %q\n", q.Path)
				} else if q.Alias {
					fmt.Fprintf(&sb, "import al%d %q\n", imp, q.Path)
				} else {
					fmt.Fprintf(&sb, "import %q\n", q.Path)
				}
			}
			sb.WriteString("\n")
			if f.Unsupported {
				sb.WriteString("import \"C\"\n\nfunc Map[T any](xs []T, f func(T) T) []T {\n\tch := make(chan T, 1)\n\tgo func() { ch <- xs[0] }()\n\tselect {\n\tcase v := <-ch:\n\t\treturn []T{f(v)}\n\t}\n}\n\n")
			}
			for k := 0; k < f.VarMarks; k++ {
				fmt.Fprintf(&sb, "var _ = mark%d(%q)\n", fi, c.mark(pi, f.Name, "var", k))
			}
			for k := 0; k < f.Stmts; k++ {
				// script dialect: a package may have statements at top level; they run with the variable initialisers, in source order
				m := c.mark(pi, f.Name, "stmt", k)
				switch (k + fi + pi) % 4 {
				case 0:
					fmt.Fprintf(&sb, "for i%d := 0; i%d < 1; i%d++ {\n\tmark%d(%q)\n}\n", k, k, k, fi, m)
				case 1:
					fmt.Fprintf(&sb, "if x%d := 1; x%d > 0 {\n\tmark%d(%q)\n}\n", k, k, fi, m)
				case 2:
					fmt.Fprintf(&sb, "for _, s%d := range []string{%q} {\n\tmark%d(s%d)\n}\n", k, m, fi, k)
				default:
					fmt.Fprintf(&sb, "switch {\ncase true:\n\tw%d := %q\n\tmark%d(w%d)\n}\n", k, m, fi, k)
				}
			}
			for k := 0; k < f.InitFuncs; k++ {
				if (k+fi+pi)%3 == 1 {
					// an init function that returns early: it ends itself, not the initialisation of the program
					fmt.Fprintf(&sb, "func init() {\n\tif mark%d(%q) == 0 {\n\t\treturn\n\t}\n\tpanic(\"init ran past its return\")\n}\n", fi, c.mark(pi, f.Name, "init", k))
					continue
				}
				fmt.Fprintf(&sb, "func init() {\n\tmark%d(%q)\n}\n", fi, c.mark(pi, f.Name, "init", k))
			}
			fmt.Fprintf(&sb, "func mark%d(s string) int {\n\tfmt.Println(s)\n\treturn 0\n}\n", fi)
			if f.ExtraNative {
				sb.WriteString("func Val() int { return len(strings.TrimSpace(\" x \")) }\n")
			}
			for _, imp := range f.Imports {
				q := c.Pkgs[imp]
				if q.Blank {
					continue
				}
				al := q.Name
				if q.Alias {
					al = fmt.Sprintf("al%d", imp)
				}
				fmt.Fprintf(&sb, "func use%d_%d() int { return %s.Val() }\n", fi, imp, al)
			}
			out[p.Dir+"/"+f.Name] = sb.String()
		}
	}
	return out
}

// reachable packages from the top.
func (c *Case) reachable() map[int]bool {
	seen := map[int]bool{}
	var walk func(i int)
	walk = func(i int) {
		if seen[i] {
			return
		}
		seen[i] = true
		for _, j := range c.Pkgs[i].Imports {
			walk(j)
		}
	}
	walk(c.Top)
	return seen
}

// validate applies the ordering / once-only predicate to the marker lines printed during Load.
func (c *Case) validate(stdout string) string {
	lines := strings.Split(strings.TrimSuffix(stdout, "\n"), "\n")
	if stdout == "" {
		lines = nil
	}
	pos := map[string]int{}
	for i, l := range lines {
		if _, dup := pos[l]; dup {
			return fmt.Sprintf("marker %q printed twice (a package or file was initialised more than once)", l)
		}
		pos[l] = i
	}
	reach := c.reachable()
	expected := map[string]bool{}
	first, last := map[int]int{}, map[int]int{}
	for pi, p := range c.Pkgs {
		var order []string // expected relative order inside the package: vars by sorted file then inits by sorted file
		files := append([]File(nil), p.Files...)
		sort.Slice(files, func(a, b int) bool { return files[a].Name < files[b].Name })
		var inits []string
		for _, f := range files {
			for k := 0; k < f.VarMarks; k++ {
				m := c.mark(pi, f.Name, "var", k)
				if f.Ignored || !reach[pi] {
					if _, ok := pos[m]; ok {
						if f.Ignored {
							return fmt.Sprintf("marker %q comes from a file that must be ignored (%s)", m, f.Name)
						}
						return fmt.Sprintf("marker %q comes from package %s, which is not imported (transitively) by the loaded package", m, p.Path)
					}
					continue
				}
				order = append(order, m)
			}
			for k := 0; k < f.Stmts; k++ {
				m := c.mark(pi, f.Name, "stmt", k)
				if f.Ignored || !reach[pi] {
					if _, ok := pos[m]; ok {
						if f.Ignored {
							return fmt.Sprintf("marker %q comes from a file that must be ignored (%s)", m, f.Name)
						}
						return fmt.Sprintf("marker %q comes from package %s, which is not imported (transitively) by the loaded package", m, p.Path)
					}
					continue
				}
				order = append(order, m)
			}
			for k := 0; k < f.InitFuncs; k++ {
				m := c.mark(pi, f.Name, "init", k)
				if f.Ignored || !reach[pi] {
					if _, ok := pos[m]; ok {
						if f.Ignored {
							return fmt.Sprintf("marker %q comes from a file that must be ignored (%s)", m, f.Name)
						}
						return fmt.Sprintf("marker %q comes from package %s, which is not imported (transitively) by the loaded package", m, p.Path)
					}
					continue
				}
				inits = append(inits, m)
			}
		}
		order = append(order, inits...)
		prev := -1
		for _, m := range order {
			expected[m] = true
			at, ok := pos[m]
			if !ok {
				return fmt.Sprintf("marker %q never printed: part of package %s was not initialised", m, p.Path)
			}
			if at < prev {
				return fmt.Sprintf("marker %q printed out of order inside package %s (top-level initialisers run in file-sorted source order, then init functions)", m, p.Path)
			}
			prev = at
			if _, ok := first[pi]; !ok || at < first[pi] {
				first[pi] = at
			}
			if at > last[pi] {
				last[pi] = at
			}
		}
	}
	for _, l := range lines {
		if !expected[l] {
			return fmt.Sprintf("unexpected output line %q", l)
		}
	}
	for pi, p := range c.Pkgs {
		if !reach[pi] {
			continue
		}
		for _, j := range p.Imports {
			_, hasA := first[pi]
			_, hasB := last[j]
			if hasA && hasB && last[j] > first[pi] {
				return fmt.Sprintf("package %s ran before its dependency %s had finished initialising", p.Path, c.Pkgs[j].Path)
			}
		}
	}
	return ""
}

func check(c *Case) *ev.Failure {
	files := c.files()
	vm := goat.New()
	for _, p := range c.Pkgs {
		if p.Ghost && !p.Blank {
			vm.Set(p.Path+".Val", goatlang.NewFunc(0, 1, func(*goatlang.VM) goatlang.Value { return goatlang.Int(3) }))
		}
	}
	r := vm.Load(goat.FS(files), c.LoadArg, goat.DefaultBudget)
	mk := func(msg string) *ev.Failure {
		var names []string
		for n := range files {
			names = append(names, n)
		}
		sort.Strings(names)
		var tree strings.Builder
		for _, n := range names {
			fmt.Fprintf(&tree, "=== %s\n%s", n, files[n])
		}
		t := tree.String()
		if len(t) > 5000 {
			t = t[:5000] + "\n…"
		}
		return &ev.Failure{Kind: "graph", Case: c, Msg: fmt.Sprintf("Load(%q): %s\n--- output\n%s--- tree\n%s", c.LoadArg, msg, r.Stdout, t)}
	}
	if r.Panic != nil {
		return mk(fmt.Sprintf("Go panic escaped Load: %v", r.Panic))
	}
	if c.Negative != "" {
		if r.Err == nil {
			return mk("expected an error (" + c.Negative + "), Load succeeded")
		}
		return nil
	}
	if r.Err != nil {
		return mk("Load failed: " + r.Err.Error())
	}
	if msg := c.validate(r.Stdout); msg != "" {
		return mk(msg)
	}
	return nil
}

func nontrivial(c *Case) []string {
	var why []string
	indeg := map[int]int{}
	depth := map[int]int{}
	reach := c.reachable()
	for i := range c.Pkgs {
		if !reach[i] {
			continue
		}
		for _, j := range c.Pkgs[i].Imports {
			indeg[j]++
			if depth[i]+1 > depth[j] {
				depth[j] = depth[i] + 1
			}
		}
	}
	for j, d := range indeg {
		if d >= 2 && depth[j] >= 2 {
			why = append(why, "shared_dependency_at_depth>=2")
			break
		}
	}
	for i, p := range c.Pkgs {
		if reach[i] && p.Dir != p.Path {
			why = append(why, "vendor_or_shortened_placement")
			break
		}
	}
	if c.Negative != "" {
		why = append(why, "negative_"+c.Negative)
	}
	for i, p := range c.Pkgs {
		if reach[i] && p.Ghost {
			why = append(why, "imports_directory_without_buildable_file")
			break
		}
	}
	if c.Pkgs[c.Top].Script {
		why = append(why, "script_file_inside_a_package_directory")
	}
	return why
}

func TestGraphs(t *testing.T) {
	r := ev.R()
	r.RapidCheck(t, func(rt *rapid.T) *ev.Failure {
		c := genCase(rt)
		r.Eval(1)
		if why := nontrivial(c); len(why) > 0 {
			r.Nontrivial(ev.HashJSON(c))
			for _, w := range why {
				r.Class(w)
			}
		}
		r.Class(fmt.Sprintf("reachable_packages=%02d", len(c.reachable())))
		if len(c.Pkgs) <= 3 {
			r.Sample(map[string]any{"load": c.LoadArg, "files": c.files()})
		}
		return check(c)
	})
}

// TestCycles enumerates every cyclic import graph shape up to 4 nodes (each node optionally behind an acyclic prefix),
// and the conflicting-package-clause case.
func TestCycles(t *testing.T) {
	r := ev.R()
	r.Disjoint()
	idx := 0
	run := func(c *Case, label string) bool {
		idx++
		if !r.Mine(idx) {
			return true
		}
		r.Eval(1)
		r.NontrivialN(1)
		r.Class(label)
		if idx%25 == 1 {
			r.Sample(map[string]any{"shape": label, "load": c.LoadArg, "files": c.files()})
		}
		if f := check(c); f != nil {
			r.Fail(t, f)
			return false
		}
		return true
	}
	mkPkgs := func(n int) []Pkg {
		var ps []Pkg
		for i := 0; i < n; i++ {
			name := fmt.Sprintf("p%d", i)
			ps = append(ps, Pkg{Name: name, Path: "lib/" + name, Dir: "lib/" + name, Files: []File{{Name: "a.go", VarMarks: 1, InitFuncs: 1, ExtraNative: true}}})
		}
		return ps
	}
	for n := 1; n <= 4; n++ {
		// all directed graphs on n nodes (incl. self loops) that contain a cycle reachable from node 0
		edges := n * n
		for mask := 0; mask < 1<<edges; mask++ {
			if edges > 9 && mask%7 != 3 && bitsSet(mask) > 6 { // 4 nodes: all graphs with <= 6 edges, a 1/7 sample of the denser ones
				continue
			}
			ps := mkPkgs(n)
			for i := 0; i < n; i++ {
				for j := 0; j < n; j++ {
					if mask&(1<<(i*n+j)) != 0 {
						ps[i].Imports = append(ps[i].Imports, j)
						ps[i].Files[0].Imports = append(ps[i].Files[0].Imports, j)
					}
				}
			}
			c := &Case{Pkgs: ps, LoadArg: "lib/p0"}
			if !hasReachableCycle(c) {
				continue
			}
			c.Negative = "cycle"
			if !run(c, fmt.Sprintf("cyclic_graph_nodes=%d", n)) {
				return
			}
		}
	}
	// acyclic prefix of length 1..3 leading into a 2-cycle
	for pre := 1; pre <= 3; pre++ {
		ps := mkPkgs(pre + 2)
		for i := 0; i < pre+1; i++ {
			ps[i].Imports = []int{i + 1}
			ps[i].Files[0].Imports = []int{i + 1}
		}
		ps[pre+1].Imports = []int{pre}
		ps[pre+1].Files[0].Imports = []int{pre}
		if !run(&Case{Pkgs: ps, LoadArg: "lib/p0", Negative: "cycle"}, "cycle_behind_acyclic_prefix") {
			return
		}
	}
	// two package clauses in one directory
	ps := mkPkgs(2)
	ps[0].Imports, ps[0].Files[0].Imports = []int{1}, []int{1}
	c := &Case{Pkgs: ps, LoadArg: "lib/p0", Negative: "conflict"}
	files := c.files()
	files["lib/p1/b.go"] = "package other\n\nfunc X() int { return 1 }\n"
	idx++
	r.Eval(1)
	r.NontrivialN(1)
	vm := goat.New()
	res := vm.Load(goat.FS(files), "lib/p0", goat.DefaultBudget)
	if res.Panic != nil || res.Err == nil {
		r.Fail(t, &ev.Failure{Kind: "conflict", Case: files, Msg: fmt.Sprintf("two package clauses in lib/p1: expected an error from Load, got panic=%v err=%v", res.Panic, res.Err)})
	}
	r.Exhaustive("every import graph with a cycle reachable from the loaded package on 1-3 nodes (4 nodes: all graphs with at most 6 edges plus a 1/7 sample)", true)
}

func bitsSet(m int) int {
	n := 0
	for ; m > 0; m &= m - 1 {
		n++
	}
	return n
}

func hasReachableCycle(c *Case) bool {
	color := map[int]int{}
	var dfs func(i int) bool
	dfs = func(i int) bool {
		color[i] = 1
		for _, j := range c.Pkgs[i].Imports {
			if color[j] == 1 {
				return true
			}
			if color[j] == 0 && dfs(j) {
				return true
			}
		}
		color[i] = 2
		return false
	}
	return dfs(0)
}

func TestConstraintModel(t *testing.T) {
	// self-check of the constraint generator: the value known by construction equals an independent evaluation
	r := ev.R()
	r.RapidCheck(t, func(rt *rapid.T) *ev.Failure {
		want := rapid.Bool().Draw(rt, "want")
		e := genConstraint(rt, want, 0)
		if evalConstraint(e) != want {
			r.Infra("constraint generator produced %q with value %v, intended %v", e, !want, want)
		}
		return nil
	})
}

func TestReplay(t *testing.T) {
	ev.R().RunReplays(t, map[string]ev.ReplayFunc{
		"graph": func(raw json.RawMessage) *ev.Failure {
			var c Case
			if err := json.Unmarshal(raw, &c); err != nil {
				return &ev.Failure{Kind: "graph", Case: string(raw), Msg: "bad replay: " + err.Error()}
			}
			return check(&c)
		},
		"conflict": func(raw json.RawMessage) *ev.Failure {
			var files map[string]string
			json.Unmarshal(raw, &files)
			res := goat.New().Load(goat.FS(files), "lib/p0", goat.DefaultBudget)
			if res.Panic != nil || res.Err == nil {
				return &ev.Failure{Kind: "conflict", Case: files, Msg: fmt.Sprintf("expected an error from Load, got panic=%v err=%v", res.Panic, res.Err)}
			}
			return nil
		},
	})
}
