// C20 — run-time errors point at the failing line and the active call chain.
//
// Generated call chains (functions, methods, function values, recursion; depth 1-30; calls inside loops, branches
// and switch cases; one statement per line) end in a planted fault of a known kind in a known statement shape.
// The generator knows the (function, line) of the fault and of every active call site; the error text is parsed
// into (function, line) records and compared, with the optimizer on and off.
package c20

import (
	"encoding/json"
	"fmt"
	"regexp"
	"strconv"
	"strings"
	"testing"

	"pgregory.net/rapid"

	"verif/internal/ev"
	"verif/internal/goat"
	"verif/internal/rx"
)

func TestMain(m *testing.M) { ev.Main(m, "C20") }

type Frame struct {
	Func  string `json:"func"`
	Line  int    `json:"line"`
	Line2 int    `json:"line2,omitempty"` // calls spread over several lines: any line in [Line, Line2] is accepted
	Times int    `json:"times,omitempty"` // recursion: the frame repeats this many times
}

type Case struct {
	Src    string  `json:"src"`
	Fault  Frame   `json:"fault"`
	Chain  []Frame `json:"chain"` // innermost first
	Kind   string  `json:"kind"`
	Shape  string  `json:"shape"`
	Depth  int     `json:"depth"`
	Init   bool    `json:"init,omitempty"` // the chain starts in the package's init function: Load itself fails
}

type builder struct {
	lines []string
}

func (b *builder) add(format string, a ...any) int {
	b.lines = append(b.lines, fmt.Sprintf(format, a...))
	return len(b.lines)
}

var faults = []struct{ kind, shape string; stmts []string }{
	{"index", "x = s[i]", []string{"k := a + 7", "x := gs[k]", "_ = x"}},
	{"index", "x = s[const]", []string{"loc := []int{1, 2}", "x := loc[5]", "_ = x"}},
	{"index", "s[const] = v", []string{"loc := []int{1, 2}", "loc[7] = a"}},
	{"index", "s[i] op= v", []string{"loc := []int{1, 2}", "k := a + 2", "loc[k] += a"}},
	{"nilmap", "m[k] = v", []string{"gm[\"k\"] = a"}},
	{"nilmap", "local m[const] = v", []string{"var lm map[string]int", "lm[\"k\"] = a"}},
	{"divzero", "x = a / b", []string{"z := a - a", "x := a / z", "_ = x"}},
	{"divzero", "x %= b", []string{"z := a - a", "x := a + 1", "x %= z"}},
	{"divzero", "local a / local b", []string{"p := a", "q := a - a", "x := p / q", "_ = x"}},
	{"panic", "panic(msg)", []string{"panic(\"planted\")"}},
	{"panic", "panic in branch", []string{"if a > -1000 {", "\tpanic(\"planted in branch\")", "}"}},
	{"nilstruct", "x = p.f", []string{"x := gnil.V", "_ = x"}},
	{"nilstruct", "p.f = v", []string{"var lp *T", "lp.V = a"}},
	{"nilstruct", "p.m(x)", []string{"var lp *T", "x := lp.Next.Get()", "_ = x"}},
	{"nilfunc", "f(x) global", []string{"x := gfn(a)", "_ = x"}},
	{"nilfunc", "f(x) local", []string{"var lf func(int) int", "x := lf(a)", "_ = x"}},
	{"index", "string index", []string{"str := \"ab\"", "k := a + 5", "x := str[k]", "_ = x"}},
	{"index", "slice bounds", []string{"loc := []int{1, 2}", "k := a + 5", "x := loc[1:k]", "_ = x"}},
}

// which statement of each fault body is the failing one (0-based index into stmts)
var faultLine = map[string]int{"x = s[i]": 1, "x = s[const]": 1, "s[const] = v": 1, "s[i] op= v": 2, "m[k] = v": 0, "local m[const] = v": 1, "x = a / b": 1, "x %= b": 2,
	"local a / local b": 2, "panic(msg)": 0, "panic in branch": 1, "x = p.f": 0, "p.f = v": 1, "p.m(x)": 1, "f(x) global": 0, "f(x) local": 1, "string index": 2, "slice bounds": 2}

var filler = []string{"u := a + 1", "u := a * 2 - 1", "w := []int{a, a + 1}", "w := map[string]int{\"k\": a}", "o := &T{V: a}", "u := a", "u := a - 0",
	// function literals: what follows them in the same body still belongs to the enclosing function
	// a native that calls back into the script (the comparison function) while this chain is active
	"w := sorted(a)", "w := sorted(a + 1)",
	// recursions that have returned before the fault: none of their calls is active any more
	"u := down(3)", "u := down(a + 1) + down(2)", "u := ping(a + 2)",
	"u := func(x int) int { return x + 1 }", "u := func(x int) int { return x + 1 }(a)", "w := []func() int{func() int { return 1 }}", "o := &T{V: func() int { return 2 }()}"}

func genCase(rt *rapid.T) *Case {
	b := &builder{}
	b.add("package app")
	b.add("")
	b.add("import \"fmt\"")
	b.add("import \"golang.org/x/exp/slices\"")
	b.add("")
	b.add("func lt2(x int, y int) bool {")
	b.add("\treturn x < y")
	b.add("}")
	b.add("")
	b.add("func lt1(x int, y int) bool {")
	b.add("\treturn lt2(x, y)")
	b.add("}")
	b.add("")
	b.add("func less(x int, y int) bool {")
	b.add("\treturn lt1(x, y)")
	b.add("}")
	b.add("")
	b.add("func down(n int) int {")
	b.add("\tif n <= 0 {")
	b.add("\t\treturn 0")
	b.add("\t}")
	b.add("\treturn down(n-1) + 1")
	b.add("}")
	b.add("")
	b.add("func ping(n int) int {")
	b.add("\tif n <= 0 {")
	b.add("\t\treturn 0")
	b.add("\t}")
	b.add("\tr := pong(n - 1)")
	b.add("\treturn r + 1")
	b.add("}")
	b.add("")
	b.add("func pong(n int) int {")
	b.add("\treturn ping(n-1) + 2")
	b.add("}")
	b.add("")
	b.add("func sorted(a int) []int {")
	b.add("\tw := []int{a, 3, 1, 2}")
	b.add("\tslices.SortFunc(w, less)")
	b.add("\treturn w")
	b.add("}")
	b.add("")
	b.add("type T struct {")
	b.add("\tV    int")
	b.add("\tNext *T")
	b.add("}")
	b.add("")
	b.add("func (t *T) Get() int {")
	b.add("\treturn t.V")
	b.add("}")
	b.add("")
	b.add("var gs = []int{1, 2, 3}")
	b.add("var gm map[string]int")
	b.add("var gnil *T")
	b.add("var gfn func(int) int")
	b.add("var depth int")
	b.add("")
	depth := rx.Pick(rt, "depth", 1, 2, 3, 4, 6, 10, 20, 30)
	c := &Case{Depth: depth}
	fl := faults[rx.Uniform(rt, len(faults), "fault")]
	c.Kind, c.Shape = fl.kind, fl.shape
	// functions are emitted innermost first so that every frame's line is known when its caller is written
	type fn struct {
		name   string
		method bool
	}
	var chain []Frame // innermost first
	// leaf
	leafMethod := rx.Chance(rt, "leafmethod", 1, 3)
	leafName := "leaf"
	qual := "app.leaf"
	if leafMethod {
		b.add("func (t *T) Leaf(a int, more ...int) int {")
		leafName, qual = "Leaf", "app.T.Leaf"
	} else {
		b.add("func leaf(a int, more ...int) int {")
	}
	nfill := rx.Range(rt, "leaffill", 0, 2)
	for i := 0; i < nfill; i++ {
		f := filler[rx.Uniform(rt, len(filler), "fill")]
		b.add("\t%s", strings.Replace(strings.Replace(strings.Replace(f, "u :=", fmt.Sprintf("u%d :=", i), 1), "w :=", fmt.Sprintf("w%d :=", i), 1), "o :=", fmt.Sprintf("o%d :=", i), 1))
		b.add("\t_ = %s%d", string(f[0]), i)
	}
	// now and then the failing operation stands far to the right on its line (beyond column 4096), after a long
	// statement on the same line
	wide := rx.Chance(rt, "wideline", 1, 8) && !strings.HasSuffix(fl.stmts[faultLine[fl.shape]], "{")
	for i, st := range fl.stmts {
		if wide && i == faultLine[fl.shape] {
			st = "_ = len([]int{" + strings.Repeat("0, ", 1600) + "0}); " + st
		}
		ln := b.add("\t%s", st)
		if i == faultLine[fl.shape] {
			c.Fault = Frame{Func: qual, Line: ln}
		}
	}
	b.add("\treturn a")
	b.add("}")
	b.add("")
	prev := fn{name: leafName, method: leafMethod}
	for d := depth - 1; d >= 0; d-- {
		isMethod := rx.Chance(rt, "method", 1, 4)
		name := fmt.Sprintf("f%d", d)
		q := "app." + name
		if isMethod {
			name = fmt.Sprintf("M%d", d)
			q = "app.T." + name
			b.add("func (t *T) %s(a int, more ...int) int {", name)
		} else {
			b.add("func %s(a int, more ...int) int {", name)
		}
		// recursion: this function first recurses a few times on itself, then goes on
		rec := 0
		if !isMethod && rx.Chance(rt, "recursive", 1, 5) {
			rec = rx.Range(rt, "rec", 1, 5)
			b.add("\tif depth < %d {", rec)
			b.add("\t\tdepth++")
			recLine := b.add("\t\treturn %s(a)", name)
			b.add("\t}")
			b.add("\tdepth = 0")
			chain = append(chain, Frame{}) // placeholder replaced below
			chain[len(chain)-1] = Frame{Func: "REC:" + q, Line: recLine, Times: rec}
		}
		nfill := rx.Range(rt, "fill", 0, 2)
		for i := 0; i < nfill; i++ {
			f := filler[rx.Uniform(rt, len(filler), "fill")]
			b.add("\t%s", strings.Replace(strings.Replace(strings.Replace(f, "u :=", fmt.Sprintf("u%d :=", i), 1), "w :=", fmt.Sprintf("w%d :=", i), 1), "o :=", fmt.Sprintf("o%d :=", i), 1))
			b.add("\t_ = %s%d", string(f[0]), i)
		}
		callee := prev.name + "(a)"
		if prev.method {
			b.add("\tobj := &T{V: a}")
			callee = "obj." + prev.name + "(a)"
		}
		indent := "\t"
		closers := 0
		switch rx.Uniform(rt, 5, "ctx") {
		case 1:
			b.add("\tfor i := 0; i < 2; i++ {")
			indent, closers = "\t\t", 1
		case 2:
			b.add("\tif a > -1000 {")
			indent, closers = "\t\t", 1
		case 3:
			b.add("\tswitch a {")
			b.add("\tcase a:")
			indent, closers = "\t\t", 1
		case 4:
			b.add("\tfor _, e := range gs {")
			b.add("\t\tif e > 100 {")
			b.add("\t\t\tcontinue")
			b.add("\t\t}")
			indent, closers = "\t\t", 1
		}
		var callLine, callLine2 int
		shape := rx.Uniform(rt, 10, "callshape")
		if shape == 9 && !prev.method {
			shape = 0
		}
		switch shape {
		case 9:
			// the receiver stands on the line before the method name and the parenthesis: the call is where the parenthesis is
			b.add("%sr := obj.", indent)
			callLine = b.add("%s\t%s(a)", indent, prev.name)
			b.add("%s_ = r", indent)
		case 7:
			// the surplus arguments come from a slice that is spread
			b.add("%ssp := []int{a, 1}", indent)
			callLine = b.add("%sr := %s(a, sp...)", indent, strings.TrimSuffix(callee, "(a)"))
			b.add("%s_ = r", indent)
		case 8:
			// the returned call starts on the line after return
			b.add("%sreturn (", indent)
			callLine = b.add("%s\t%s)", indent, callee)
		case 0:
			callLine = b.add("%sr := %s", indent, callee)
			b.add("%s_ = r", indent)
		case 1:
			callLine = b.add("%sreturn %s", indent, callee)
		case 2:
			b.add("%sr := 1", indent)
			callLine = b.add("%sr += %s", indent, callee)
			b.add("%s_ = r", indent)
		case 3:
			callLine = b.add("%s%s", indent, callee)
		case 4:
			// function value / bound method value taken first
			b.add("%sfv := %s", indent, strings.TrimSuffix(callee, "(a)"))
			callLine = b.add("%sr := fv(a)", indent)
			b.add("%s_ = r", indent)
		case 5:
			callLine = b.add("%sfmt.Println(%s)", indent, callee)
		default:
			// call spread over several lines
			callLine = b.add("%sr := %s(", indent, strings.TrimSuffix(callee, "(a)"))
			callLine2 = b.add("%s\ta,", indent)
			callLine2 = b.add("%s)", indent)
			b.add("%s_ = r", indent)
		}
		for i := 0; i < closers; i++ {
			b.add("\t}")
		}
		b.add("\treturn a")
		b.add("}")
		b.add("")
		fr := Frame{Func: q, Line: callLine, Line2: callLine2}
		// insert the call frame before this function's recursion frames (the call happens in the deepest activation)
		if rec > 0 {
			recFrame := chain[len(chain)-1]
			recFrame.Func = strings.TrimPrefix(recFrame.Func, "REC:")
			chain[len(chain)-1] = fr
			chain = append(chain, recFrame)
		} else {
			chain = append(chain, fr)
		}
		prev = fn{name: name, method: isMethod}
	}
	c.Init = rx.Chance(rt, "frominit", 1, 5)
	declLine := 0
	if c.Init {
		declLine = b.add("func init() {")
	} else {
		b.add("func Entry() {")
	}
	b.add("\tfmt.Println(\"start\")")
	var entryLine int
	if prev.method {
		b.add("\tobj := &T{V: 1}")
		entryLine = b.add("\tobj.%s(1)", prev.name)
	} else {
		entryLine = b.add("\t%s(1)", prev.name)
	}
	b.add("\tfmt.Println(\"unreachable\")")
	closeLine := b.add("}")
	b.add("")
	b.add("func Reset() {")
	b.add("\tdepth = 0")
	b.add("}")
	if c.Init {
		// init is called by the package's top-level code: no function name, a position inside the declaration
		chain = append(chain, Frame{Func: "app.init", Line: entryLine}, Frame{Func: "", Line: declLine, Line2: closeLine})
	} else {
		chain = append(chain, Frame{Func: "app.Entry", Line: entryLine})
	}
	c.Chain = chain
	c.Src = strings.Join(b.lines, "\n") + "\n"
	return c
}

var recRe = regexp.MustCompile(`^\t?(?:(\S+)\(\.\.\.\) )?(\S+?):(\d+):(\d+)`)

type rec struct {
	Func string
	Line int
}

func parseErr(err string) []rec {
	var out []rec
	for _, l := range strings.Split(err, "\n") {
		m := recRe.FindStringSubmatch(l)
		if m == nil {
			continue
		}
		n, _ := strconv.Atoi(m[3])
		out = append(out, rec{m[1], n})
	}
	return out
}

func expand(c *Case) []Frame {
	out := []Frame{c.Fault}
	for _, f := range c.Chain {
		t := f.Times
		if t == 0 {
			t = 1
		}
		for i := 0; i < t; i++ {
			out = append(out, f)
		}
	}
	return out
}

func run(c *Case, optimize bool) (goat.Result, []rec) {
	goat.SetOptimize(optimize)
	defer goat.SetOptimize(true)
	vm := goat.New()
	r := vm.Load(goat.FS(map[string]string{"app/app.go": c.Src}), "app", goat.DefaultBudget)
	if c.Init && r.Err != nil && r.Panic == nil {
		return r, parseErr(strings.TrimPrefix(r.Err.Error(), "error in run: "))
	}
	if r.Failed() || c.Init {
		return r, nil
	}
	r = vm.Call("app.Entry", 0, goat.DefaultBudget)
	if r.Err == nil {
		return r, nil
	}
	recs := parseErr(r.Err.Error())
	// the same VM, after the failure: the report of a second failure must not carry anything over from the first
	if strings.Contains(c.Src, "func Reset()") {
		if rr := vm.Call("app.Reset", 0, goat.DefaultBudget); !rr.Failed() {
			r2 := vm.Call("app.Entry", 0, goat.DefaultBudget)
			if r2.Panic != nil {
				r.Panic = r2.Panic
				return r, recs
			}
			if r2.Err == nil || r2.Err.Error() != r.Err.Error() {
				r.Err = fmt.Errorf("%s\n=== the same call repeated on the same VM after the failure reports instead:\n%s", r.Err.Error(), r2.ErrString())
				return r, []rec{{Func: "second-run-differs"}}
			}
		}
	}
	return r, recs
}

func check(c *Case) *ev.Failure {
	rr := ev.R()
	rr.Eval(1)
	rr.Class("fault=" + c.Kind)
	rr.Class("shape=" + c.Shape)
	if c.Init {
		rr.Class("chain_rooted_in_package_init")
	}
	if c.Depth >= 3 {
		rr.Nontrivial(ev.Hash(c.Src))
	}
	want := expand(c)
	var seqs [][]rec
	for _, opt := range []bool{true, false} {
		r, recs := run(c, opt)
		mk := func(msg string) *ev.Failure {
			return &ev.Failure{Kind: "chain", Case: c, Msg: fmt.Sprintf("%s fault in shape %q at depth %d (optimizer %v): %s\n--- error text\n%s\n--- source\n%s", c.Kind, c.Shape, c.Depth, opt, msg, r.ErrString(), numbered(c.Src))}
		}
		if r.Panic != nil {
			return mk(fmt.Sprintf("Go panic escaped: %v", r.Panic))
		}
		if r.Err == nil {
			return mk("the planted fault produced no error")
		}
		if !strings.HasPrefix(r.Stdout, "start\n") || strings.Contains(r.Stdout, "unreachable") {
			return mk(fmt.Sprintf("unexpected output %q", r.Stdout))
		}
		if len(recs) != len(want) {
			return mk(fmt.Sprintf("the error lists %d position(s), expected %d (the failing operation plus one per active call, innermost first): want %v", len(recs), len(want), want))
		}
		for i, w := range want {
			g := recs[i]
			lineOK := g.Line == w.Line || (w.Line2 > 0 && g.Line >= w.Line && g.Line <= w.Line2)
			if g.Func != w.Func || !lineOK {
				what := "the failing operation"
				if i > 0 {
					what = fmt.Sprintf("active call #%d (innermost first)", i)
				}
				return mk(fmt.Sprintf("%s is reported as %s line %d, expected %s line %d", what, g.Func, g.Line, w.Func, w.Line))
			}
		}
		seqs = append(seqs, recs)
	}
	for i := range seqs[0] {
		if seqs[0][i] != seqs[1][i] {
			return &ev.Failure{Kind: "chain", Case: c, Msg: fmt.Sprintf("position %d differs between optimizer on (%v) and off (%v)\n--- source\n%s", i, seqs[0][i], seqs[1][i], numbered(c.Src))}
		}
	}
	return nil
}

func numbered(src string) string {
	var sb strings.Builder
	for i, l := range strings.Split(src, "\n") {
		fmt.Fprintf(&sb, "%3d  %s\n", i+1, l)
	}
	return sb.String()
}

func TestChains(t *testing.T) {
	n := 0
	ev.R().RapidCheck(t, func(rt *rapid.T) *ev.Failure {
		c := genCase(rt)
		n++
		if n%400 == 1 {
			ev.R().Sample(map[string]any{"fault": c.Fault, "chain": c.Chain, "kind": c.Kind, "shape": c.Shape, "source": c.Src})
		}
		return check(c)
	})
}

func TestReplay(t *testing.T) {
	ev.R().RunReplays(t, map[string]ev.ReplayFunc{
		"chain": func(raw json.RawMessage) *ev.Failure {
			var c Case
			if err := json.Unmarshal(raw, &c); err != nil {
				return &ev.Failure{Kind: "chain", Case: string(raw), Msg: "bad replay: " + err.Error()}
			}
			return check(&c)
		},
	})
}
