// C13 — strings are immutable UTF-8 byte sequences with Go's operations.
//
// Each case is a script over two or three generated strings (ASCII, multi-byte, invalid UTF-8) spelled as
// Go literals; the expected output is computed by the same operations on native Go strings in the harness,
// literal spellings are validated with strconv.Unquote / UnquoteChar (Go's own literal rules).
package c13

import (
	"encoding/json"
	"fmt"
	"strconv"
	"strings"
	"testing"
	"unicode/utf8"

	"pgregory.net/rapid"

	"verif/internal/ev"
	"verif/internal/goat"
	"verif/internal/rx"
)

func TestMain(m *testing.M) { ev.Main(m, "C13") }

// ---- string content and spelling --------------------------------------------------------------

var pieces = []string{
	"a", "b", "z", "A", "0", " ", "ab", "abc", "~",
	"\u00e9", "\u00fc", "\u00f1", "\u20ac", "\u6f22", "\U0001f600", "\u00a0", "\u2003", "\ufeff", "\u0301",
	"\xff", "\xc3", "\x80", "\xed\xa0\x80", "\xf4\x90\x80\x80", "\xe2\x82", "\xc0\xaf",
	"\x00", "\"", "'", "\\", "\n", "\t", "`", "\r", "\x7f", "\x01",
}

// Str is a string together with the Go literal that spells it.
type Str struct {
	Bytes []byte `json:"bytes"`
	Lit   string `json:"lit"`
}

func (s Str) S() string { return string(s.Bytes) }

func spellPiece(rt *rapid.T, p string) string {
	valid := utf8.ValidString(p)
	var opts []string
	allHex, allOct := "", ""
	for i := 0; i < len(p); i++ {
		allHex += fmt.Sprintf(`\x%02x`, p[i])
		allOct += fmt.Sprintf(`\%03o`, p[i])
	}
	opts = append(opts, allHex, allOct)
	if valid {
		raw := true
		u := ""
		for _, r := range p {
			if r < 0x20 || r == '"' || r == '\\' || r == 0x7f || r == 0xfeff {
				raw = false
			}
			if r <= 0xffff {
				u += fmt.Sprintf(`\u%04x`, r)
			} else {
				u += fmt.Sprintf(`\U%08x`, r)
			}
		}
		if raw {
			opts = append(opts, p, p, p)
		}
		opts = append(opts, u)
		q := strconv.Quote(p)
		opts = append(opts, q[1:len(q)-1])
	}
	return rx.Pick(rt, "spell", opts...)
}

func genStr(rt *rapid.T, label string, maxPieces int) Str {
	n := rx.Range(rt, label+"n", 0, maxPieces)
	var content, lit string
	for i := 0; i < n; i++ {
		p := rx.Pick(rt, label+"piece", pieces...)
		content += p
		lit += spellPiece(rt, p)
	}
	full := `"` + lit + `"`
	// raw string spelling where Go allows it
	if utf8.ValidString(content) && !strings.ContainsAny(content, "`\r\ufeff\x00") && rx.Chance(rt, label+"raw", 1, 5) {
		full = "`" + content + "`"
		if len(content) > 0 && rx.Chance(rt, label+"cr", 1, 3) {
			// carriage returns inside a raw string literal are discarded from its value (a script saved with CRLF line ends)
			at := rx.Uniform(rt, len(content)+1, label+"crat")
			for !utf8.RuneStart(append([]byte(content), 'x')[at]) {
				at--
			}
			full = "`" + content[:at] + "\r" + content[at:] + "`"
		}
	}
	if got, err := strconv.Unquote(full); err != nil || got != content {
		// e.g. "\x41" followed by a digit is fine, but be safe: fall back to the all-hex spelling
		full = `"`
		for i := 0; i < len(content); i++ {
			full += fmt.Sprintf(`\x%02x`, content[i])
		}
		full += `"`
	}
	return Str{Bytes: []byte(content), Lit: full}
}

// ---- case -------------------------------------------------------------------------------------

type Case struct {
	A, B, C Str
	InFunc  bool     `json:"in_func"`
	Idx     []int    `json:"idx"`    // index positions into A (in range)
	Slices  [][2]int `json:"slices"` // in-range slice bounds of A
	Runes   []int32  `json:"runes"`  // for string(rune)
	Chars   []string `json:"chars"`  // character literal spellings
	OobIdx  int      `json:"oob_idx"` // -1 or an out-of-range index used last
	Twin    int      `json:"twin,omitempty"` // 0 none; 1 / 2: the other-quote twin of A's literal appears before / after A's
}

// twin returns the literal that has the same text between its quotes as lit but the other kind of quotes (raw for
// interpreted and vice versa), and the bytes that literal denotes; ok is false where Go does not accept the twin.
func twin(lit string) (other string, content string, ok bool) {
	inner := lit[1 : len(lit)-1]
	if lit[0] == '"' {
		if strings.ContainsAny(inner, "`\r\n") || !utf8.ValidString(inner) {
			return "", "", false
		}
		return "`" + inner + "`", inner, true
	}
	if strings.Contains(inner, "\r") {
		return "", "", false
	}
	other = `"` + inner + `"`
	got, err := strconv.Unquote(other)
	if err != nil {
		return "", "", false
	}
	return other, got, true
}

var charLits = []string{`'a'`, `'\''`, `'"'`, `'\\'`, `'\n'`, `'\t'`, `'\r'`, `'\x41'`, `'\x00'`, `'\xff'`, `'\000'`, `'\101'`, `'\377'`, `'é'`, `'€'`, `'😀'`, `'é'`, `'\U0001F600'`, `'\a'`, `'\b'`, `'\f'`, `'\v'`, `'0'`, `' '`, `'~'`, `' '`, `'漢'`}

var runePool = []int32{0, 65, 97, 0x7f, 0x80, 0xe9, 0x7ff, 0x800, 0x20ac, 0xd7ff, 0xd800, 0xdfff, 0xe000, 0xfffd, 0xffff, 0x10000, 0x1f600, 0x10ffff, 0x110000, -1, 0x7fffffff}

func genCase(rt *rapid.T) *Case {
	c := &Case{A: genStr(rt, "a", 8), B: genStr(rt, "b", 4), C: genStr(rt, "c", 4), InFunc: rapid.Bool().Draw(rt, "inFunc"), OobIdx: -1}
	// B often shares a long prefix with A (comparison must be bytewise and total)
	if rx.Chance(rt, "prefix", 1, 2) {
		k := rx.Range(rt, "prefixlen", 0, len(c.A.Bytes))
		pre := append([]byte(nil), c.A.Bytes[:k]...)
		c.B = Str{Bytes: append(pre, c.B.Bytes...)}
		c.B.Lit = hexLit(c.B.Bytes)
	}
	la := len(c.A.Bytes)
	if la > 0 {
		for i := 0; i < 4; i++ {
			c.Idx = append(c.Idx, rx.Range(rt, "idx", 0, la-1))
		}
	}
	for i := 0; i < 4; i++ {
		lo := rx.Range(rt, "lo", 0, la)
		hi := rx.Range(rt, "hi", lo, la)
		c.Slices = append(c.Slices, [2]int{lo, hi})
	}
	for i := 0; i < 3; i++ {
		c.Runes = append(c.Runes, rx.Pick(rt, "rune", runePool...))
		c.Chars = append(c.Chars, rx.Pick(rt, "char", charLits...))
	}
	if rx.Chance(rt, "oob", 1, 12) {
		c.OobIdx = la + rx.Range(rt, "beyond", 0, 2)
	}
	c.Twin = rx.Uniform(rt, 3, "twin")
	return c
}

func hexLit(b []byte) string {
	s := `"`
	for _, x := range b {
		s += fmt.Sprintf(`\x%02x`, x)
	}
	return s + `"`
}

// build renders the script and, in parallel, what Go prints for it.
func (c *Case) build() (src, want string, panics bool) {
	var sb, wb strings.Builder
	ind := ""
	sb.WriteString("import \"fmt\"\n")
	if c.InFunc {
		sb.WriteString("func run() {\n")
		ind = "\t"
	}
	stmt := func(format string, a ...any) { sb.WriteString(ind + fmt.Sprintf(format, a...) + "\n") }
	out := func(a ...any) { fmt.Fprintln(&wb, a...) }
	A, B, C := c.A.S(), c.B.S(), c.C.S()
	tw, twContent, twOK := twin(c.A.Lit)
	if c.Twin == 1 && twOK {
		stmt(`fmt.Println("twin", len(%s), []byte(%s))`, tw, tw)
		out("twin", len(twContent), []byte(twContent))
	}
	stmt("a := %s", c.A.Lit)
	stmt("b := %s", c.B.Lit)
	stmt("c := %s", c.C.Lit)
	// length in bytes
	stmt(`fmt.Println("len", len(a), len(b), len(c), len(%s))`, c.A.Lit)
	out("len", len(A), len(B), len(C), len(A))
	// bytes
	stmt(`fmt.Println("bytes", []byte(a), []byte(b))`)
	out("bytes", []byte(A), []byte(B))
	// indexing: value, and the uint8 type (adding 200 twice wraps)
	for n, i := range c.Idx {
		stmt("x%d := a[%d]", n, i)
		stmt("x%d += 200", n)
		stmt("x%d += 100", n)
		stmt(`fmt.Println("idx", %d, a[%d], x%d)`, i, i, n)
		x := A[i]
		x += 200
		x += 100
		out("idx", i, A[i], x)
		stmt("i%d := %d", n, i)
		stmt(`fmt.Println("idxv", a[i%d] == a[%d], a[i%d] < 128)`, n, i, n)
		out("idxv", true, A[i] < 128)
	}
	// slicing
	for n, s := range c.Slices {
		lo, hi := s[0], s[1]
		var e string
		switch n % 4 {
		case 0:
			e = fmt.Sprintf("a[%d:%d]", lo, hi)
		case 1:
			e = fmt.Sprintf("a[%d:]", lo)
			hi = len(A)
		case 2:
			e = fmt.Sprintf("a[:%d]", hi)
			lo = 0
		default:
			stmt("lo%d, hi%d := %d, %d", n, n, lo, hi)
			e = fmt.Sprintf("a[lo%d:hi%d]", n, n)
		}
		stmt(`fmt.Println("slice", []byte(%s), len(%s))`, e, e)
		out("slice", []byte(A[lo:hi]), len(A[lo:hi]))
	}
	// range decodes runes and yields byte offsets
	stmt("for i, r := range a {")
	stmt("\tfmt.Println(\"range\", i, r)")
	stmt("}")
	for i, r := range A {
		out("range", i, r)
	}
	stmt("n := 0")
	stmt("for i := range b {")
	stmt("\tn += i")
	stmt("}")
	stmt(`fmt.Println("rangekeys", n)`)
	n := 0
	for i := range B {
		n += i
	}
	out("rangekeys", n)
	// conversions round-trip
	stmt("bs := []byte(a)")
	stmt("t := string(bs)")
	stmt(`fmt.Println("roundtrip", t == a, len(t), len(bs))`)
	out("roundtrip", true, len(A), len(A))
	stmt("if len(bs) > 0 {")
	stmt("\tbs[0] = 33")
	stmt("}")
	stmt(`fmt.Println("immutable", []byte(a), []byte(t))`)
	out("immutable", []byte(A), []byte(A))
	for n, r := range c.Runes {
		stmt("r%d := rune(%d)", n, r)
		stmt(`fmt.Println("rune", []byte(string(r%d)))`, n)
		out("rune", []byte(string(rune(r))))
	}
	// comparison is bytewise lexicographic
	stmt(`fmt.Println("cmp", a < b, a <= b, a == b, a != b, a > b, a >= b, b < c, a == a, a < a)`)
	out("cmp", A < B, A <= B, A == B, A != B, A > B, A >= B, B < C, true, false)
	// concatenation never alters its operands
	stmt("u := a + b")
	stmt("v := a")
	stmt("v += c")
	stmt("w := b + a + c + b")
	stmt(`fmt.Println("cat", []byte(u), []byte(v), len(w))`)
	out("cat", []byte(A+B), []byte(A+C), len(B+A+C+B))
	stmt(`fmt.Println("operands", []byte(a), []byte(b), []byte(c))`)
	out("operands", []byte(A), []byte(B), []byte(C))
	stmt(`fmt.Println("self", u == a+b, []byte(u[len(a):]))`)
	out("self", true, []byte(B))
	if c.Twin == 2 && twOK {
		stmt(`fmt.Println("twin", len(%s), []byte(%s), %s == a, len(%s))`, tw, tw, tw, c.A.Lit)
		out("twin", len(twContent), []byte(twContent), twContent == A, len(A))
	}
	// a conversion of the literal yields fresh bytes every time it is evaluated: writing into one result does not
	// show in the next
	if len(A) > 0 {
		stmt("for round := 0; round < 3; round++ {")
		stmt("\tfresh := []byte(%s)", c.A.Lit)
		stmt("\tfresh[round%%len(fresh)] = 33")
		stmt("\tfmt.Println(\"fresh\", round, fresh)")
		stmt("}")
		for round := 0; round < 3; round++ {
			fb := []byte(A)
			fb[round%len(fb)] = 33
			out("fresh", round, fb)
		}
	}
	// literals written next to each other with + denote the concatenation of what each denotes alone, whatever their
	// kinds (interpreted next to raw)
	stmt(`fmt.Println("litcat", []byte(%s + %s), len(%s + %s + %s))`, c.A.Lit, c.B.Lit, c.C.Lit, c.A.Lit, c.B.Lit)
	out("litcat", []byte(A+B), len(C+A+B))
	// string(b) of a byte value is the UTF-8 encoding of the code point b, like string(rune(b))
	for n, i := range c.Idx {
		if n < 2 {
			stmt(`fmt.Println("strbyte", []byte(string(a[%d])), len(string(a[i%d])))`, i, n)
			out("strbyte", []byte(string(rune(A[i]))), len(string(rune(A[i]))))
		}
	}
	// copy from a string moves bytes
	stmt("cp := []byte(b)")
	stmt("ncp := copy(cp, a)")
	stmt(`fmt.Println("copy", ncp, cp, []byte(a))`)
	{
		cp := []byte(B)
		ncp := copy(cp, A)
		out("copy", ncp, cp, []byte(A))
	}
	// character literals, also under a sign
	for n, ch := range c.Chars {
		v, _, _, err := strconv.UnquoteChar(ch[1:len(ch)-1], '\'')
		if err != nil {
			panic("bad char literal in pool: " + ch)
		}
		stmt(`fmt.Println("char", %s)`, ch)
		out("char", v)
		stmt("d%d := 7 + -%s", n, ch)
		stmt(`fmt.Println("charsign", -%s, - -%s, 1000 - %s, d%d)`, ch, ch, ch, n)
		out("charsign", -v, v, 1000-v, 7-v)
	}
	if c.OobIdx >= 0 {
		stmt("k := %d", c.OobIdx)
		stmt(`fmt.Println("oob", a[k])`)
		panics = true
	}
	stmt(`fmt.Println("end")`)
	if !panics {
		out("end")
	}
	if c.InFunc {
		sb.WriteString("}\nrun()\n")
	}
	return sb.String(), wb.String(), panics
}

func check(c *Case) *ev.Failure {
	src, want, panics := c.build()
	r := goat.EvalOnce(src)
	mk := func(msg string) *ev.Failure {
		return &ev.Failure{Kind: "strings", Case: c, Msg: fmt.Sprintf("%s\n--- script\n%s--- goatlang\n%s--- Go\n%s", msg, src, diffHint(r.Stdout, want), want)}
	}
	if r.Panic != nil {
		return mk("host panic: " + r.ErrString())
	}
	if panics {
		if r.Err == nil {
			return mk("Go panics on the out-of-range index; goatlang reported no error")
		}
	} else if r.Err != nil {
		return mk("goatlang failed: " + r.Err.Error())
	}
	if r.Stdout != want {
		return mk("outputs differ")
	}
	return nil
}

func diffHint(got, want string) string {
	g, w := strings.Split(got, "\n"), strings.Split(want, "\n")
	for i := range g {
		if i >= len(w) || g[i] != w[i] {
			wl := ""
			if i < len(w) {
				wl = w[i]
			}
			return fmt.Sprintf("%s\n(first difference at line %d: goatlang %q, Go %q)\n", got, i+1, g[i], wl)
		}
	}
	return got
}

func nontrivial(c *Case) bool {
	for _, s := range []Str{c.A, c.B, c.C} {
		if !utf8.Valid(s.Bytes) || len(s.Bytes) != utf8.RuneCount(s.Bytes) || strings.Contains(s.Lit, `\`) {
			return true
		}
	}
	return false
}

func TestStrings(t *testing.T) {
	r := ev.R()
	r.RapidCheck(t, func(rt *rapid.T) *ev.Failure {
		c := genCase(rt)
		r.Eval(1)
		if nontrivial(c) {
			r.Nontrivial(ev.HashJSON(c))
		}
		if !utf8.Valid(c.A.Bytes) {
			r.Class("A_has_invalid_utf8")
		}
		if len(c.A.Bytes) != utf8.RuneCount(c.A.Bytes) {
			r.Class("A_has_multibyte")
		}
		if strings.HasPrefix(c.A.Lit, "`") {
			r.Class("A_raw_string_literal")
			if strings.Contains(c.A.Lit, "\r") {
				r.Class("A_raw_string_literal_with_carriage_return")
			}
		}
		if strings.Contains(c.A.Lit, `\`) {
			r.Class("A_literal_with_escapes")
		}
		if c.OobIdx >= 0 {
			r.Class("planted_out_of_range_index")
		}
		if _, tc, ok := twin(c.A.Lit); ok && c.Twin > 0 && tc != c.A.S() {
			r.Class("raw_and_interpreted_literal_with_the_same_spelling_differ")
		}
		r.Sample(map[string]any{"a": c.A.Lit, "b": c.B.Lit, "c": c.C.Lit, "chars": c.Chars, "runes": c.Runes, "in_func": c.InFunc})
		return check(c)
	})
}

// TestCharLits checks every character literal of the pool and every escape form on its own (enumerated).
func TestCharLits(t *testing.T) {
	r := ev.R()
	r.Disjoint()
	var lits []string
	lits = append(lits, charLits...)
	for b := 0; b < 256; b++ {
		lits = append(lits, fmt.Sprintf(`'\x%02x'`, b), fmt.Sprintf(`'\%03o'`, b))
	}
	for _, u := range []int{0, 0x41, 0xe9, 0x7ff, 0x800, 0xffff, 0xd7ff, 0xe000} {
		lits = append(lits, fmt.Sprintf(`'\u%04x'`, u))
	}
	for _, u := range []int{0x10000, 0x1f600, 0x10ffff} {
		lits = append(lits, fmt.Sprintf(`'\U%08x'`, u))
	}
	for i, l := range lits {
		if !r.Mine(i) {
			continue
		}
		want, _, _, err := strconv.UnquoteChar(l[1:len(l)-1], '\'')
		if err != nil {
			t.Fatalf("bad literal %s", l)
		}
		r.Eval(1)
		r.NontrivialN(1)
		src := "import \"fmt\"\nx := " + l + "\ny := -" + l + "\nfmt.Println(x, " + l + ", y, 1 - -" + l + ")\n"
		res := goat.EvalOnce(src)
		exp := fmt.Sprintln(want, want, -want, 1+want)
		if res.Failed() || res.Stdout != exp {
			r.Fail(t, &ev.Failure{Kind: "charlit", Case: l, Msg: fmt.Sprintf("character literal %s: Go gives %d, goatlang printed %q %s", l, want, res.Stdout, res.ErrString())})
			return
		}
	}
	r.Sample(map[string]any{"literals": len(lits), "first": lits[0], "last": lits[len(lits)-1]})
	r.Exhaustive("every \\x and octal character escape (256 each) plus the named, \\u and \\U forms", true)
}

func TestReplay(t *testing.T) {
	ev.R().RunReplays(t, map[string]ev.ReplayFunc{
		"strings": func(raw json.RawMessage) *ev.Failure {
			var c Case
			if err := json.Unmarshal(raw, &c); err != nil {
				return &ev.Failure{Kind: "strings", Case: string(raw), Msg: "bad replay: " + err.Error()}
			}
			for _, s := range []Str{c.A, c.B, c.C} {
				if got, err := strconv.Unquote(s.Lit); err != nil || got != s.S() {
					return &ev.Failure{Kind: "strings", Case: c, Msg: "replay literal does not spell its bytes: " + s.Lit}
				}
			}
			return check(&c)
		},
		"charlit": func(raw json.RawMessage) *ev.Failure {
			var l string
			json.Unmarshal(raw, &l)
			want, _, _, err := strconv.UnquoteChar(l[1:len(l)-1], '\'')
			if err != nil {
				return &ev.Failure{Kind: "charlit", Case: l, Msg: "bad literal"}
			}
			res := goat.EvalOnce("import \"fmt\"\nx := " + l + "\nfmt.Println(x, " + l + ")\n")
			if res.Failed() || res.Stdout != fmt.Sprintln(want, want) {
				return &ev.Failure{Kind: "charlit", Case: l, Msg: fmt.Sprintf("character literal %s: Go gives %d, goatlang printed %q %s", l, want, res.Stdout, res.ErrString())}
			}
			return nil
		},
	})
}
