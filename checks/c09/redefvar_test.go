package c09

// Redefinition that changes the kind of a parameter list. One VM evaluates a first definition of total (variadic over
// one element type, or taking a slice), optionally calls it, then evaluates a second definition with another element
// type and calls that with untyped constants. Oracle: a fresh VM that only ever saw the second definition; the call
// must print the same there (surplus constants are converted to the element type of the definition in force).

import (
	"encoding/json"
	"fmt"
	"testing"

	"verif/internal/ev"
	"verif/internal/goat"
)

type RVCase struct {
	First      string `json:"first"`  // element type of the first definition, "slice" for a non-variadic []int parameter
	Second     string `json:"second"` // element type of the second definition
	CallFirst  bool   `json:"call_first"`
	ViaWrapper bool   `json:"via_wrapper"` // the final call is made from a function compiled after the second definition
}

var rvTypes = []string{"slice", "int", "uint8", "int8", "uint32", "float64"}

// constants that are representable in the element type; their sum wraps for the narrow types
var rvArgs = map[string]string{"int": "1000, 3", "uint8": "200, 101", "int8": "100, 101", "uint32": "4000000000, 1000000001", "float64": "1, 2"}

func rvDef(t string) string {
	if t == "slice" {
		return "func total(xs []int) int {\n\ts := 0\n\tfor _, x := range xs {\n\t\ts += x\n\t}\n\treturn s / 2\n}\n"
	}
	return fmt.Sprintf("func total(xs ...%s) %s {\n\tvar s %s\n\tfor _, x := range xs {\n\t\ts += x\n\t}\n\treturn s / 2\n}\n", t, t, t)
}

func rvCall(t string, wrapper bool) string {
	call := "total(" + rvArgs[t] + ")"
	if t == "slice" {
		call = "total([]int{1000, 3})"
	}
	if wrapper {
		return "func viaTotal() {\n\tk := 5\n\tprintln(" + call + ", k)\n}\nviaTotal()\n"
	}
	return "println(" + call + ")\n"
}

func checkRedefVariadic(c *RVCase) (f *ev.Failure) {
	mk := func(format string, a ...any) *ev.Failure {
		return &ev.Failure{Kind: "redefvariadic", Case: c, Msg: fmt.Sprintf(format, a...)}
	}
	defer func() {
		if r := recover(); r != nil {
			f = mk("host panic: %v", r)
		}
	}()
	fresh := goat.New()
	second := rvDef(c.Second) + rvCall(c.Second, c.ViaWrapper)
	want := fresh.Eval(nil, second, goat.DefaultBudget)
	if want.Failed() {
		return mk("a fresh VM fails on the second definition alone: %s\n--- script\n%s", want.ErrString(), second)
	}
	vm := goat.New()
	first := rvDef(c.First)
	if c.CallFirst {
		first += rvCall(c.First, false)
	}
	if r := vm.Eval(nil, first, goat.DefaultBudget); r.Failed() {
		return mk("the first definition failed: %s\n--- script\n%s", r.ErrString(), first)
	}
	got := vm.Eval(nil, second, goat.DefaultBudget)
	if got.Failed() || got.Stdout != want.Stdout {
		return mk("after total was first defined over %s, redefining it over %s and calling it with constants prints %q %s; a VM that only saw the second definition prints %q\n--- first Eval\n%s--- second Eval\n%s", c.First, c.Second, got.Stdout, got.ErrString(), want.Stdout, first, second)
	}
	return nil
}

func TestRedefinedVariadic(t *testing.T) {
	r := ev.R()
	r.Disjoint()
	n := 0
	for _, a := range rvTypes {
		for _, b := range rvTypes {
			for _, callFirst := range []bool{false, true} {
				for _, wrapper := range []bool{false, true} {
					n++
					if !r.Mine(n) {
						continue
					}
					c := &RVCase{First: a, Second: b, CallFirst: callFirst, ViaWrapper: wrapper}
					r.Eval(1)
					if a != b {
						r.NontrivialN(1)
					}
					if n%29 == 1 {
						r.Sample(c)
					}
					if f := checkRedefVariadic(c); f != nil {
						r.Fail(t, f)
						return
					}
				}
			}
		}
	}
	r.Exhaustive("every ordered pair of parameter kinds (slice, variadic over int, uint8, int8, uint32, float64) for a function redefined on one VM, with and without a call in between, final call direct and from a new function", true)
}

func replayRedefVariadic(raw json.RawMessage) *ev.Failure {
	var c RVCase
	if err := json.Unmarshal(raw, &c); err != nil {
		return &ev.Failure{Kind: "redefvariadic", Case: string(raw), Msg: "bad replay: " + err.Error()}
	}
	return checkRedefVariadic(&c)
}
