package c09

// Functions that carry the name of a builtin. The package scope shadows the universe scope and parameters and locals
// shadow both: a program that declares its own len, delete, append, copy or panic (as a function, a parameter or a
// local function value) calls that, with exactly the arguments written, and the frame around the call stays intact.
// Oracle: closed form.

import (
	"encoding/json"
	"fmt"
	"testing"

	"verif/internal/ev"
	"verif/internal/goat"
)

type BNCase struct {
	Name string `json:"name"`
	Load bool   `json:"load"` // as a package through Load + Call instead of one Eval
}

var bnCases = []struct {
	name, decls, want string
}{
	{"delete_func", "func delete(id int) int {\n\treturn id * 2\n}\nfunc Probe() int {\n\ta := 1\n\tb := delete(5)\n\tc := 100\n\treturn a + b + c\n}\n", "111"},
	{"len_func", "func len(s string) int {\n\treturn 42\n}\nfunc Probe() int {\n\ta := 1\n\tc := len(\"abc\")\n\treturn a + c\n}\n", "43"},
	{"append_func", "func append(a, b, c int) int {\n\treturn a*100 + b*10 + c\n}\nfunc Probe() int {\n\tk := 7\n\tr := append(1, 2, 3)\n\treturn r + k\n}\n", "130"},
	{"copy_func", "func copy(x int) int {\n\treturn x + 1\n}\nfunc Probe() int {\n\tk := 7\n\tr := copy(4)\n\treturn r*10 + k\n}\n", "57"},
	{"panic_func", "func panic(msg string, n int) int {\n\treturn n + 1\n}\nfunc Probe() int {\n\tk := 7\n\tr := panic(\"no\", 4)\n\treturn r*10 + k\n}\n", "57"},
	{"len_param", "func seven(s string) int {\n\treturn 7\n}\nfunc inner(len func(string) int) int {\n\tk := 3\n\treturn len(\"ab\") + k\n}\nfunc Probe() int {\n\treturn inner(seven)\n}\n", "10"},
	{"copy_local", "func triple(a int) int {\n\treturn a * 3\n}\nfunc Probe() int {\n\tcopy := triple\n\tk := 2\n\treturn copy(4) + k\n}\n", "14"},
	{"delete_later", "func Probe() int {\n\ta := 1\n\tb := delete(5, 6)\n\treturn a + b\n}\nfunc delete(x int, y int) int {\n\treturn x*10 + y\n}\n", "57"},
}

func checkBuiltinName(c *BNCase) (f *ev.Failure) {
	mk := func(format string, a ...any) *ev.Failure {
		return &ev.Failure{Kind: "builtinname", Case: c, Msg: fmt.Sprintf("case %s (through Load: %v): ", c.Name, c.Load) + fmt.Sprintf(format, a...)}
	}
	defer func() {
		if r := recover(); r != nil {
			f = mk("host panic: %v", r)
		}
	}()
	for _, bc := range bnCases {
		if bc.name != c.Name {
			continue
		}
		vm := goat.New()
		var r goat.Result
		if c.Load {
			if r = vm.Load(goat.FS(map[string]string{"app/app.go": "package app\n\n" + bc.decls}), "app", goat.DefaultBudget); r.Failed() {
				return mk("Load failed: %s\n--- source\n%s", r.ErrString(), bc.decls)
			}
			r = vm.Call("app.Probe", 1, goat.DefaultBudget)
		} else {
			r = vm.Eval(nil, bc.decls+"res := Probe()\nres\n", goat.DefaultBudget)
		}
		if r.Failed() || len(r.Rets) != 1 || r.Rets[0].String() != bc.want {
			return mk("Probe() gives %v %s, expected %s: the call must reach the program's own declaration of the name\n--- source\n%s", r.RetStrings(), r.ErrString(), bc.want, bc.decls)
		}
		return nil
	}
	return mk("unknown case")
}

func TestBuiltinNames(t *testing.T) {
	r := ev.R()
	r.Disjoint()
	for _, bc := range bnCases {
		for _, load := range []bool{false, true} {
			c := &BNCase{Name: bc.name, Load: load}
			r.Eval(1)
			r.NontrivialN(1)
			if f := checkBuiltinName(c); f != nil {
				r.Fail(t, f)
				return
			}
		}
	}
	r.Exhaustive("program-declared len, delete, append, copy, panic as package-level functions (declared before and after the caller), a parameter and a local function value; Eval and Load", true)
}

func replayBuiltinName(raw json.RawMessage) *ev.Failure {
	var c BNCase
	if err := json.Unmarshal(raw, &c); err != nil {
		return &ev.Failure{Kind: "builtinname", Case: string(raw), Msg: "bad replay: " + err.Error()}
	}
	return checkBuiltinName(&c)
}
