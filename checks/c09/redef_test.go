package c09

// Calls against redefined signatures. One VM lives through a generated history of Eval calls that define and redefine
// a function and a method with a changing number of parameters, create instances, and call both in every form (direct,
// method value taken now, wrapper compiled now, wrapper compiled before the latest redefinition, host Call). Model: the
// current signature of each callee. A call whose argument count matches the current signature must deliver every
// argument in order to the current body and its result to the caller; any other call must be reported as an error
// (no Go panic, no silent misalignment) and leave the VM usable.

import (
	"encoding/json"
	"fmt"
	"strings"
	"testing"

	"github.com/philhassey/goatlang"
	"pgregory.net/rapid"

	"verif/internal/ev"
	"verif/internal/goat"
	"verif/internal/rx"
)

type RStep struct {
	Kind   string `json:"kind"`             // deffn defm new call
	Arity  int    `json:"arity,omitempty"`  // def*: number of parameters
	Target string `json:"target,omitempty"` // call: fn | m
	Inst   int    `json:"inst,omitempty"`   // call m: instance index
	Form   string `json:"form,omitempty"`   // direct value wrapper oldwrapper host
	N      int    `json:"n,omitempty"`      // call: number of arguments given
	Old    int    `json:"old,omitempty"`    // oldwrapper: index of the wrapper
}

type RCase struct {
	Steps []RStep `json:"steps"`
}

func genRedef(rt *rapid.T) *RCase {
	c := &RCase{}
	c.Steps = append(c.Steps, RStep{Kind: "deffn", Arity: rx.Range(rt, "a0", 0, 3)}, RStep{Kind: "defm", Arity: rx.Range(rt, "a1", 0, 3)}, RStep{Kind: "new"})
	insts, wrappers := 1, 0
	n := rx.Range(rt, "nsteps", 3, 14)
	for i := 0; i < n; i++ {
		switch rx.Weighted(rt, "step", 2, 3, 2, 10) {
		case 0:
			c.Steps = append(c.Steps, RStep{Kind: "deffn", Arity: rx.Range(rt, "arity", 0, 3)})
		case 1:
			c.Steps = append(c.Steps, RStep{Kind: "defm", Arity: rx.Range(rt, "arity", 0, 3)})
		case 2:
			c.Steps = append(c.Steps, RStep{Kind: "new"})
			insts++
		default:
			s := RStep{Kind: "call", Target: rx.Pick(rt, "target", "fn", "m", "m"), N: rx.Range(rt, "nargs", 0, 4)}
			forms := []string{"direct", "direct", "value", "wrapper"}
			if wrappers > 0 {
				forms = append(forms, "oldwrapper", "oldwrapper")
			}
			if s.Target == "fn" {
				forms = append(forms, "host")
			}
			s.Form = rx.Pick(rt, "form", forms...)
			s.Inst = rx.Uniform(rt, insts, "inst")
			if s.Form == "oldwrapper" {
				s.Old = rx.Uniform(rt, wrappers, "old")
			}
			if s.Form == "wrapper" {
				wrappers++
			}
			c.Steps = append(c.Steps, s)
		}
	}
	return c
}

type rWrapper struct {
	target string
	n      int
}

func checkRedef(c *RCase) (f *ev.Failure) {
	rec := ev.R()
	rec.Eval(1)
	var log strings.Builder
	mk := func(format string, a ...any) *ev.Failure {
		return &ev.Failure{Kind: "redef", Case: c, Msg: fmt.Sprintf(format, a...) + "\n--- history (one Eval per block)\n" + log.String()}
	}
	defer func() {
		if r := recover(); r != nil {
			f = mk("host panic: %v", r)
		}
	}()
	vm := goat.New()
	eval := func(src string) goat.Result {
		fmt.Fprintf(&log, "%s\n--\n", src)
		return vm.Eval(nil, src, goat.DefaultBudget)
	}
	if r := eval("type T struct { n int }"); r.Failed() {
		return mk("type definition failed: %s", r.ErrString())
	}
	arity := map[string]int{}
	version := map[string]int{}
	weights := []int{1, 10, 100}
	expect := func(target string, inst int) int {
		v := version[target] * 1000
		for i := 0; i < arity[target]; i++ {
			v += (i + 1) * weights[i]
		}
		if target == "m" {
			v += (inst + 1) * 7
		}
		return v
	}
	insts := 0
	var wrappers []rWrapper
	redefs, mismatches, stale := 0, 0, 0
	for si, s := range c.Steps {
		switch s.Kind {
		case "deffn", "defm":
			target := "fn"
			if s.Kind == "defm" {
				target = "m"
			}
			if _, had := arity[target]; had && arity[target] != s.Arity {
				redefs++
			}
			version[target]++
			arity[target] = s.Arity
			var ps []string
			sum := fmt.Sprint(version[target] * 1000)
			for i := 0; i < s.Arity; i++ {
				ps = append(ps, fmt.Sprintf("a%d int", i))
				sum += fmt.Sprintf(" + a%d*%d", i, weights[i])
			}
			var src string
			if target == "fn" {
				src = fmt.Sprintf("func fn(%s) int { return %s }", strings.Join(ps, ", "), sum)
			} else {
				src = fmt.Sprintf("func (t *T) m(%s) int { return %s + t.n*7 }", strings.Join(ps, ", "), sum)
			}
			if r := eval(src); r.Failed() {
				return mk("step %d: (re)definition with %d parameters failed: %s", si, s.Arity, r.ErrString())
			}
		case "new":
			if r := eval(fmt.Sprintf("var o%d = &T{n: %d}", insts, insts+1)); r.Failed() {
				return mk("step %d: creating an instance failed: %s", si, r.ErrString())
			}
			insts++
		case "call":
			var args []string
			var params []goatlang.Value
			for i := 0; i < s.N; i++ {
				args = append(args, fmt.Sprint(i+1))
				params = append(params, goatlang.Int(i+1))
			}
			al := strings.Join(args, ", ")
			callee := "fn"
			if s.Target == "m" {
				callee = fmt.Sprintf("o%d.m", s.Inst)
			}
			given := s.N
			target := s.Target
			inst := s.Inst
			var r goat.Result
			switch s.Form {
			case "direct":
				r = eval(fmt.Sprintf("println(%s(%s))", callee, al))
			case "value":
				r = eval(fmt.Sprintf("f%d := %s\nprintln(f%d(%s))", si, callee, si, al))
			case "wrapper":
				k := len(wrappers)
				wrappers = append(wrappers, rWrapper{target: s.Target, n: s.N})
				if s.Target == "fn" {
					r = eval(fmt.Sprintf("func w%d(o *T) int {\n\tk := 7\n\tr := fn(%s)\n\treturn r + k - 7\n}\nprintln(w%d(o%d))", k, al, k, s.Inst))
				} else {
					r = eval(fmt.Sprintf("func w%d(o *T) int {\n\tk := 7\n\tr := o.m(%s)\n\treturn r + k - 7\n}\nprintln(w%d(o%d))", k, al, k, s.Inst))
				}
			case "oldwrapper":
				w := wrappers[s.Old]
				target, given = w.target, w.n
				stale++
				r = eval(fmt.Sprintf("println(w%d(o%d))", s.Old, s.Inst))
			case "host":
				fmt.Fprintf(&log, "host: Call(\"main.fn\", 1, %s)\n--\n", al)
				r = vm.Call("main.fn", 1, goat.DefaultBudget, params...)
				if !r.Failed() && len(r.Rets) == 1 {
					r.Stdout = r.Rets[0].String() + "\n"
				}
			}
			if r.Panic != nil {
				return mk("step %d: a Go panic escaped: %v", si, r.Panic)
			}
			if given != arity[target] {
				mismatches++
				if r.Err == nil {
					return mk("step %d: %s currently takes %d parameters and was called with %d arguments (%s): no error was reported, it printed %q", si, target, arity[target], given, s.Form, r.Stdout)
				}
			} else {
				want := fmt.Sprint(expect(target, inst)) + "\n"
				if r.Err != nil {
					return mk("step %d: %s currently takes %d parameters and was called with %d arguments (%s): the call failed: %s", si, target, arity[target], given, s.Form, r.ErrString())
				}
				if r.Stdout != want {
					return mk("step %d: %s (version %d, %d parameters) called with matching arguments (%s) printed %q, expected %q", si, target, version[target], arity[target], s.Form, r.Stdout, want)
				}
			}
			// the VM is still aligned
			if r2 := vm.Eval(nil, "q := 40 + 2; q", goat.DefaultBudget); r2.Failed() || len(r2.Rets) != 1 || r2.Rets[0].Int() != 42 {
				return mk("step %d: afterwards `q := 40 + 2; q` gives %v %s", si, r2.RetStrings(), r2.ErrString())
			}
		}
	}
	if redefs > 0 {
		rec.Nontrivial(ev.HashJSON(c))
		rec.Class("redef:signature_changed_in_history")
	}
	rec.ClassN("redef:mismatching_calls_rejected", mismatches)
	rec.ClassN("redef:calls_through_code_compiled_earlier", stale)
	return nil
}

func TestRedefined(t *testing.T) {
	n := 0
	ev.R().RapidCheck(t, func(rt *rapid.T) *ev.Failure {
		c := genRedef(rt)
		n++
		if n%300 == 1 {
			ev.R().Sample(c)
		}
		return checkRedef(c)
	})
}

func replayRedef(raw json.RawMessage) *ev.Failure {
	var c RCase
	if err := json.Unmarshal(raw, &c); err != nil {
		return &ev.Failure{Kind: "redef", Case: string(raw), Msg: "bad replay: " + err.Error()}
	}
	return checkRedef(&c)
}
