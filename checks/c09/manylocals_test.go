package c09

// Calls through function-typed locals in functions with many locals. The callee of g(x) is whatever the local g holds,
// wherever g sits among the function's locals and whatever else the program declares (named types, other globals).
// Oracle: closed form.

import (
	"encoding/json"
	"fmt"
	"strings"
	"testing"

	"verif/internal/ev"
	"verif/internal/goat"
)

type MLCase struct {
	Locals   int  `json:"locals"` // locals declared before the function-typed one
	Types    int  `json:"types"`  // named numeric types declared by the program
	Method   bool `json:"method"` // the local holds a bound method instead of a function
	Optimize bool `json:"optimize"`
}

func (c *MLCase) source() string {
	var sb strings.Builder
	kinds := []string{"int", "float64", "uint8", "int8", "uint32"}
	for i := 0; i < c.Types; i++ {
		fmt.Fprintf(&sb, "type Unit%d %s\n", i, kinds[i%len(kinds)])
	}
	sb.WriteString("type Box struct {\n\tK int\n}\nfunc (b *Box) scale(x int) int {\n\treturn x*b.K + 100\n}\nfunc twice(x int) int {\n\treturn x*2 + 100\n}\n")
	sb.WriteString("func many(seed int) int {\n")
	for i := 0; i < c.Locals; i++ {
		fmt.Fprintf(&sb, "\tv%d := seed + %d\n", i, i)
	}
	if c.Method {
		sb.WriteString("\tb := &Box{K: 2}\n\tg := b.scale\n")
	} else {
		sb.WriteString("\tg := twice\n")
	}
	sb.WriteString("\tr := g(21)\n")
	for i := 0; i < c.Locals; i++ {
		fmt.Fprintf(&sb, "\tr += v%d\n", i)
	}
	sb.WriteString("\treturn r\n}\nres := many(1)\nres\n")
	return sb.String()
}

func (c *MLCase) want() int {
	r := 21*2 + 100
	for i := 0; i < c.Locals; i++ {
		r += 1 + i
	}
	return r
}

func checkManyLocals(c *MLCase) (f *ev.Failure) {
	mk := func(format string, a ...any) *ev.Failure {
		return &ev.Failure{Kind: "manylocals", Case: c, Msg: fmt.Sprintf("function-typed local declared after %d other locals, %d named types in the program (bound method %v, optimizer %v): ", c.Locals, c.Types, c.Method, c.Optimize) + fmt.Sprintf(format, a...)}
	}
	defer func() {
		if r := recover(); r != nil {
			f = mk("host panic: %v", r)
		}
	}()
	goat.SetOptimize(c.Optimize)
	defer goat.SetOptimize(true)
	r := goat.EvalOnce(c.source())
	if r.Failed() || len(r.Rets) != 1 {
		return mk("the script failed: %v %s", r.RetStrings(), r.ErrString())
	}
	if got := r.Rets[0].Int(); got != c.want() {
		return mk("many(1) = %d, expected %d: g(21) must call the function the local holds and deliver 21", got, c.want())
	}
	return nil
}

func TestManyLocals(t *testing.T) {
	r := ev.R()
	r.Disjoint()
	n := 0
	for locals := 0; locals <= 200; locals++ {
		for _, types := range []int{0, 1, 12} {
			for _, method := range []bool{false, true} {
				for _, opt := range []bool{true, false} {
					n++
					if !r.Mine(n) {
						continue
					}
					c := &MLCase{Locals: locals, Types: types, Method: method, Optimize: opt}
					r.Eval(1)
					if locals >= 32 {
						r.NontrivialN(1)
					}
					if n%397 == 1 {
						r.Sample(c)
					}
					if f := checkManyLocals(c); f != nil {
						r.Fail(t, f)
						return
					}
				}
			}
		}
	}
	r.Exhaustive("0-200 locals before a function-typed local x 0 / 1 / 12 named numeric types x function / bound method x optimizer on / off", true)
}

func replayManyLocals(raw json.RawMessage) *ev.Failure {
	var c MLCase
	if err := json.Unmarshal(raw, &c); err != nil {
		return &ev.Failure{Kind: "manylocals", Case: string(raw), Msg: "bad replay: " + err.Error()}
	}
	return checkManyLocals(&c)
}
