// C09 — calls deliver arguments and results in order and with their declared types.
//
// Valid-Go part: generated functions and methods (0-5 parameters of every supported type, variadic tails,
// 0-3 results) called in every form; callee prints what it received, caller prints what it got back; the Go
// toolchain (GOARCH=386) is the oracle. Error clause (not expressible in Go): wrong argument or result counts
// through Eval, Call and Func must be errors and must leave the VM usable.
package c09

import (
	"encoding/json"
	"fmt"
	"regexp"
	"strconv"
	"strings"
	"testing"

	"github.com/philhassey/goatlang"
	"pgregory.net/rapid"

	"verif/internal/diffgo"
	"verif/internal/ev"
	"verif/internal/goat"
	"verif/internal/oracle"
	"verif/internal/rx"
)

func TestMain(m *testing.M) { ev.Main(m, "C09") }

var paramTypes = []string{"int", "int8", "uint8", "uint32", "float64", "string", "bool", "[]int", "map[string]int", "*T", "func(int) int", "I", "any"}
var resultTypes = []string{"int", "int8", "uint8", "uint32", "float64", "string", "bool", "[]int", "*T"}

type Fn struct {
	Name     string   `json:"name"`
	Method   bool     `json:"method"`
	Params   []string `json:"params"`
	Variadic string   `json:"variadic,omitempty"` // element type of the variadic tail ("" = none)
	Blank    []bool   `json:"blank,omitempty"`    // parameters declared with the blank identifier (received, never read)
	Results  []string `json:"results"`
	RetExpr  []string `json:"ret_expr"`
}

type Call struct {
	Fn     int      `json:"fn"`
	Args   []string `json:"args"`
	Tail   []string `json:"tail,omitempty"`
	Spread bool     `json:"spread,omitempty"`
	Form   string   `json:"form"`
	Blanks int      `json:"blanks,omitempty"` // form multi: that many trailing results go to the blank identifier, inside an if block
}

type Prog struct {
	Fns    []Fn   `json:"fns"`
	Calls  []Call `json:"calls"`
	Depth  int    `json:"depth"`          // recursion depth exercised
	Locals int    `json:"locals"`         // extra locals per frame of the constant-passing recursion
	Keep   []int  `json:"keep,omitempty"` // retained variadic slices: argument count of each call (the callee kind rotates)
}

// value returns a Go expression of the given type. untyped constants and nil are used where Go converts them.
func value(rt *rapid.T, t string, label string) string {
	switch t {
	case "int":
		return rx.Pick(rt, label, "0", "1", "-7", "42", "vi", "vi + 3", "2147483647", "len(vs)")
	case "int8":
		return rx.Pick(rt, label, "0", "-128", "127", "5", "vi8")
	case "uint8":
		return rx.Pick(rt, label, "0", "255", "200", "vu8", "'a'")
	case "uint32":
		return rx.Pick(rt, label, "0", "4000000000", "7", "vu32")
	case "float64":
		return rx.Pick(rt, label, "1.5", "3", "-0.25", "vf", "vf * 2", "1e21")
	case "string":
		return rx.Pick(rt, label, "\"\"", "\"a\"", "\"hello\"", "vstr", "vstr + \"!\"")
	case "bool":
		return rx.Pick(rt, label, "true", "false", "vi > 0", "vb")
	case "[]int":
		return rx.Pick(rt, label, "nil", "[]int{}", "[]int{1, 2, 3}", "vs", "vs[1:]")
	case "map[string]int":
		return rx.Pick(rt, label, "nil", "map[string]int{}", "map[string]int{\"k\": 7}", "vm")
	case "*T":
		return rx.Pick(rt, label, "&T{V: 3}", "vt", "&T{}")
	case "func(int) int":
		return rx.Pick(rt, label, "nil", "double", "inc", "vt.Add", "func(a int) int { return a + 100 }", "vfn")
	case "I":
		return rx.Pick(rt, label, "vt", "&T{V: 9}")
	case "any":
		return rx.Pick(rt, label, "1", "\"s\"", "2.5", "true", "vi8", "vstr")
	}
	panic(t)
}

// show returns the expressions with which a callee (or caller) prints a value of the type held in name.
func show(t, name string) []string {
	switch t {
	case "[]int":
		return []string{"len(" + name + ")", name}
	case "map[string]int":
		return []string{"len(" + name + ")", name + "[\"k\"]"}
	case "*T":
		return []string{name + ".V"}
	case "func(int) int":
		return []string{"callOrNil(" + name + ")"}
	case "I":
		return []string{name + ".Get()"}
	case "int", "int8", "uint8", "uint32", "float64":
		// the value, and arithmetic whose result depends on the type the value really has (a constant that was not
		// converted to the declared type divides and wraps differently)
		return []string{name, name + "/2", name + "*3+100"}
	}
	return []string{name}
}

func genFn(rt *rapid.T, idx int) Fn {
	f := Fn{Name: fmt.Sprintf("f%d", idx), Method: rx.Chance(rt, "method", 1, 4)}
	if f.Method {
		f.Name = fmt.Sprintf("M%d", idx)
	}
	np := rx.Range(rt, "nparams", 0, 5)
	for i := 0; i < np; i++ {
		f.Params = append(f.Params, rx.Pick(rt, "ptype", paramTypes...))
		f.Blank = append(f.Blank, rx.Chance(rt, "blankparam", 1, 6))
	}
	if rx.Chance(rt, "variadic", 1, 4) {
		f.Variadic = rx.Pick(rt, "vtype", "int", "string", "float64", "any", "uint8", "int8", "uint32", "float64")
	}
	nr := rx.Range(rt, "nresults", 0, 3)
	for i := 0; i < nr; i++ {
		t := rx.Pick(rt, "rtype", resultTypes...)
		f.Results = append(f.Results, t)
		// result expression: a parameter of the same type, or an untyped constant / nil that must be converted
		var cands []string
		for pi, pt := range f.Params {
			if pt == t && !f.blank(pi) {
				cands = append(cands, fmt.Sprintf("p%d", pi))
			}
		}
		switch t {
		case "int":
			cands = append(cands, "7", "len(rest)+1000")
		case "int8":
			cands = append(cands, "-100", "100")
		case "uint8":
			cands = append(cands, "100", "255")
		case "uint32":
			cands = append(cands, "4000000000", "3")
		case "float64":
			cands = append(cands, "2", "0.5")
		case "string":
			cands = append(cands, "\"r\"")
		case "bool":
			cands = append(cands, "true")
		case "[]int":
			cands = append(cands, "nil", "[]int{9}")
		case "*T":
			cands = append(cands, "&T{V: 77}")
		}
		e := rx.Pick(rt, "rexpr", cands...)
		if e == "len(rest)+1000" && f.Variadic == "" {
			e = "7"
		}
		f.RetExpr = append(f.RetExpr, e)
	}
	return f
}

func (f Fn) blank(i int) bool { return i < len(f.Blank) && f.Blank[i] }

func (f Fn) sig() (params, results string) { return f.sigNamed(false) }

// sigNamed renders the signature; with allNamed every parameter has a name (the forwarding wrapper needs them all).
func (f Fn) sigNamed(allNamed bool) (params, results string) {
	var ps []string
	for i, t := range f.Params {
		if f.blank(i) && !allNamed {
			ps = append(ps, "_ "+t)
			continue
		}
		ps = append(ps, fmt.Sprintf("p%d %s", i, t))
	}
	if f.Variadic != "" {
		ps = append(ps, "rest ..."+f.Variadic)
	}
	switch len(f.Results) {
	case 0:
	case 1:
		results = " " + f.Results[0]
	default:
		results = " (" + strings.Join(f.Results, ", ") + ")"
	}
	return strings.Join(ps, ", "), results
}

func (f Fn) decl() string {
	var sb strings.Builder
	ps, rs := f.sig()
	recv := ""
	if f.Method {
		recv = "(t *T) "
	}
	fmt.Fprintf(&sb, "func %s%s(%s)%s {\n", recv, f.Name, ps, rs)
	var shows []string
	if f.Method {
		shows = append(shows, "t.V")
	}
	for i, t := range f.Params {
		if f.blank(i) {
			continue
		}
		shows = append(shows, show(t, fmt.Sprintf("p%d", i))...)
	}
	if f.Variadic != "" {
		shows = append(shows, "len(rest)", "rest")
	}
	fmt.Fprintf(&sb, "\tfmt.Println(%s)\n", strings.Join(append([]string{fmt.Sprintf("%q", f.Name)}, shows...), ", "))
	switch f.Variadic {
	case "int", "int8", "uint8", "uint32", "float64":
		fmt.Fprintf(&sb, "\tfor _, e := range rest {\n\t\tfmt.Println(\"e\", e/2, e*3+100)\n\t}\n")
	}
	if len(f.Results) > 0 {
		fmt.Fprintf(&sb, "\treturn %s\n", strings.Join(f.RetExpr, ", "))
	}
	sb.WriteString("}\n\n")
	// a wrapper that forwards all results with `return f(...)`
	if len(f.Results) > 0 {
		var args []string
		for i := range f.Params {
			args = append(args, fmt.Sprintf("p%d", i))
		}
		if f.Variadic != "" {
			args = append(args, "rest...")
		}
		target := f.Name
		if f.Method {
			target = "t." + f.Name
		}
		wps, _ := f.sigNamed(true)
		// the wrapper first declares a function literal with another number of results: what it forwards is still
		// its own callee's result list
		lit := "func() (int, int, int, int) {\n\t\treturn 1, 2, 3, 4\n\t}"
		if len(f.Results) == 4 || len(f.Name)%2 == 0 {
			lit = "func(a int) {\n\t}"
		}
		fmt.Fprintf(&sb, "func %sw%s(%s)%s {\n\tlit := %s\n\t_ = lit\n\treturn %s(%s)\n}\n\n", recv, f.Name, wps, rs, lit, target, strings.Join(args, ", "))
	}
	src := sb.String()
	for i := range f.Params {
		if f.blank(i) && f.Name[len(f.Name)-1]%2 == 1 {
			// beside blank parameters the named ones are called _0, _1, ...: identifiers like any other
			// (numbered one ahead, so that a name can be the number of a blank parameter's position)
			return paramName.ReplaceAllStringFunc(src, func(m string) string {
				k, _ := strconv.Atoi(m[1:])
				return fmt.Sprintf("_%d", (k+1)%len(f.Params))
			})
		}
	}
	return src
}

var paramName = regexp.MustCompile(`\bp(\d+)\b`)

func genProg(rt *rapid.T) *Prog {
	p := &Prog{}
	nf := rx.Range(rt, "nfns", 1, 5)
	for i := 0; i < nf; i++ {
		p.Fns = append(p.Fns, genFn(rt, i))
	}
	nc := rx.Range(rt, "ncalls", 1, 10)
	for i := 0; i < nc; i++ {
		fi := rx.Uniform(rt, nf, "callfn")
		f := p.Fns[fi]
		c := Call{Fn: fi}
		for ai, t := range f.Params {
			c.Args = append(c.Args, value(rt, t, fmt.Sprintf("arg%d", ai)))
		}
		if f.Variadic != "" {
			if rx.Chance(rt, "spread", 1, 3) {
				c.Spread = true
			} else {
				k := rx.Pick(rt, "ntail", 0, 1, 2, 5)
				for j := 0; j < k; j++ {
					c.Tail = append(c.Tail, value(rt, f.Variadic, "tail"))
				}
			}
		}
		forms := []string{"stmt"}
		switch {
		case len(f.Results) == 1:
			forms = append(forms, "value", "value", "argument", "wrapper", "methodvalue", "funcvar", "param", "element")
		case len(f.Results) >= 2:
			forms = append(forms, "multi", "multi", "wrapper", "methodvalue", "funcvar")
		default:
			forms = append(forms, "methodvalue", "funcvar")
		}
		c.Form = rx.Pick(rt, "form", forms...)
		if c.Form == "multi" && rx.Chance(rt, "blanktail", 1, 2) {
			c.Blanks = rx.Range(rt, "nblanks", 1, len(f.Results)-1)
		}
		if c.Form == "element" {
			for _, t := range f.Params {
				if t == "I" { // a bare named type in an unnamed-parameter function type is read as a parameter name by goatlang's parser; not part of this check
					c.Form = "value"
				}
			}
		}
		p.Calls = append(p.Calls, c)
	}
	p.Depth = rx.Pick(rt, "depth", 1, 2, 10, 50, 100, 200, 400, 1000, 5000)
	p.Locals = rx.Range(rt, "locals", 0, 7)
	for i := rx.Range(rt, "nkeep", 0, 6); i > 0; i-- {
		p.Keep = append(p.Keep, rx.Range(rt, "keepargs", 0, 5))
	}
	return p
}

func (p *Prog) funcType(f Fn) string {
	ps, rs := f.sig()
	// strip parameter names
	var ts []string
	for _, t := range f.Params {
		ts = append(ts, t)
	}
	if f.Variadic != "" {
		ts = append(ts, "..."+f.Variadic)
	}
	_ = ps
	return "func(" + strings.Join(ts, ", ") + ")" + rs
}

func spreadExpr(vt string) string {
	switch vt {
	case "int":
		return "vs..."
	case "string":
		return "vss..."
	case "float64":
		return "vfs..."
	case "uint8":
		return "vu8s..."
	case "int8":
		return "vi8s..."
	case "uint32":
		return "vu32s..."
	}
	return "vas..."
}

func (p *Prog) Source() string {
	var sb strings.Builder
	sb.WriteString("package prog\n\nimport \"fmt\"\n\n")
	sb.WriteString("type T struct {\n\tV int\n\tF func(int) int\n}\n\nfunc (t *T) Get() int {\n\treturn t.V\n}\n\nfunc (t *T) Add(a int) int {\n\treturn t.V + a\n}\n\n")
	sb.WriteString("type I interface {\n\tGet() int\n}\n\nfunc double(a int) int {\n\treturn a * 2\n}\n\nfunc inc(a int) int {\n\treturn a + 1\n}\n\n")
	sb.WriteString("func callOrNil(f func(int) int) int {\n\tif f == nil {\n\t\treturn -1\n\t}\n\treturn f(3)\n}\n\n")
	sb.WriteString("func apply1(f func(int) int, a int) int {\n\treturn f(a)\n}\n\n")
	sb.WriteString("func rec(n int, acc int) int {\n\ta := n * 2\n\tb := acc + 1\n\tif n == 0 {\n\t\treturn acc\n\t}\n\tr := rec(n-1, acc+n%7)\n\treturn r + a - a + b - b\n}\n\n")
	sb.WriteString("func even(n int) bool {\n\tif n == 0 {\n\t\treturn true\n\t}\n\treturn odd(n - 1)\n}\n\nfunc odd(n int) bool {\n\tif n == 0 {\n\t\treturn false\n\t}\n\treturn even(n - 1)\n}\n\n")
	// a recursion whose every call passes an untyped constant and nil for typed parameters, with a varying frame size
	sb.WriteString("func half(n int, x float64, s []int, t uint8) float64 {\n")
	for i := 0; i < p.Locals; i++ {
		fmt.Fprintf(&sb, "\tl%d := n + %d\n", i, i)
	}
	sb.WriteString("\tt += 200\n\tif n == 0 {\n\t\treturn x/2 + float64(t)\n\t}\n\tr := half(n-1, 1, nil, 100) + x/2 + float64(len(s)) + float64(t)\n")
	for i := 0; i < p.Locals; i++ {
		fmt.Fprintf(&sb, "\tr += float64(l%d - n - %d)\n", i, i)
	}
	sb.WriteString("\treturn r\n}\n\n")
	// callees that keep the slice their surplus arguments were packed into: every call packs into a slice of its own
	sb.WriteString("var kept [][]int\n\nfunc keepI(xs ...int) []int {\n\treturn xs\n}\n\nfunc (t *T) KeepM(pre string, xs ...float64) []float64 {\n\treturn xs\n}\n\nfunc stash(xs ...int) {\n\tkept = append(kept, xs)\n}\n\n")
	for _, f := range p.Fns {
		sb.WriteString(f.decl())
	}
	sb.WriteString("func Main() {\n")
	sb.WriteString("\tvi, vi8, vu8, vu32, vf, vstr, vb := 5, int8(-3), uint8(250), uint32(3000000000), 2.5, \"str\", true\n")
	sb.WriteString("\tvs, vss, vfs, vas := []int{10, 20, 30}, []string{\"x\", \"y\"}, []float64{0.5}, []any{1, \"two\"}\n")
	sb.WriteString("\tvm := map[string]int{\"k\": 11}\n\tvt := &T{V: 4}\n\tvar vfn func(int) int = inc\n")
	sb.WriteString("\tvu8s, vi8s, vu32s := []uint8{200, 7}, []int8{-100, 100}, []uint32{4000000000}\n\t_, _, _ = vu8s, vi8s, vu32s\n")
	sb.WriteString("\t_, _, _, _, _, _, _ = vi, vi8, vu8, vu32, vf, vstr, vb\n\t_, _, _, _, _, _, _ = vs, vss, vfs, vas, vm, vt, vfn\n")
	for ci, c := range p.Calls {
		f := p.Fns[c.Fn]
		args := append([]string(nil), c.Args...)
		if f.Variadic != "" {
			if c.Spread {
				args = append(args, spreadExpr(f.Variadic))
			} else {
				args = append(args, c.Tail...)
			}
		}
		al := strings.Join(args, ", ")
		target := f.Name
		if f.Method {
			target = "vt." + f.Name
		}
		fmt.Fprintf(&sb, "\tfmt.Println(\"call\", %d)\n", ci)
		var rnames []string
		var rshow []string
		for ri, t := range f.Results {
			n := fmt.Sprintf("r%d_%d", ci, ri)
			rnames = append(rnames, n)
			rshow = append(rshow, show(t, n)...)
		}
		printResults := func() {
			fmt.Fprintf(&sb, "\tfmt.Println(%s)\n", strings.Join(rshow, ", "))
			for ri, t := range f.Results {
				// typed results: arithmetic must wrap in the declared type
				if t == "uint8" || t == "int8" {
					fmt.Fprintf(&sb, "\t%s += 100\n\t%s += 100\n\tfmt.Println(%s)\n", rnames[ri], rnames[ri], rnames[ri])
				}
				if t == "uint32" {
					fmt.Fprintf(&sb, "\t%s += 4000000000\n\tfmt.Println(%s)\n", rnames[ri], rnames[ri])
				}
			}
		}
		switch c.Form {
		case "stmt":
			fmt.Fprintf(&sb, "\t%s(%s)\n", target, al)
		case "value", "multi":
			if c.Blanks > 0 && c.Blanks < len(rnames) {
				// trailing results dropped, in a block of its own: the statement after the block runs
				keep := len(rnames) - c.Blanks
				lhs := append(append([]string(nil), rnames[:keep]...), strings.Split(strings.Repeat("_", c.Blanks), "")...)
				var shown []string
				for ri := 0; ri < keep; ri++ {
					shown = append(shown, show(f.Results[ri], rnames[ri])...)
				}
				cond := []string{"vb", "!vb", "vi > 5"}[ci%3] // taken, skipped, skipped
				fmt.Fprintf(&sb, "\tif %s {\n\t\t%s := %s(%s)\n\t\tfmt.Println(%s)\n\t}\n\tvi++\n\tfmt.Println(\"after\", %d, vi)\n", cond, strings.Join(lhs, ", "), target, al, strings.Join(shown, ", "), ci)
				break
			}
			fmt.Fprintf(&sb, "\t%s := %s(%s)\n", strings.Join(rnames, ", "), target, al)
			printResults()
		case "argument":
			fmt.Fprintf(&sb, "\tfmt.Println(%s)\n", strings.Join(show(f.Results[0], target+"("+al+")"), ", "))
		case "wrapper":
			wt := "w" + f.Name
			if f.Method {
				wt = "vt.w" + f.Name
			}
			fmt.Fprintf(&sb, "\t%s := %s(%s)\n", strings.Join(rnames, ", "), wt, al)
			printResults()
		case "methodvalue", "funcvar":
			// the function (or bound method) is taken as a value first and called later
			fmt.Fprintf(&sb, "\tfv%d := %s\n", ci, target)
			fmt.Fprintf(&sb, "\tvt.V++\n")
			if len(rnames) > 0 {
				fmt.Fprintf(&sb, "\t%s := fv%d(%s)\n", strings.Join(rnames, ", "), ci, al)
				printResults()
			} else {
				fmt.Fprintf(&sb, "\tfv%d(%s)\n", ci, al)
			}
		case "param":
			// passed as a function-typed parameter (only for func(int) int shaped functions; otherwise a field)
			if !f.Method && len(f.Params) == 1 && f.Params[0] == "int" && f.Variadic == "" && f.Results[0] == "int" {
				fmt.Fprintf(&sb, "\tfmt.Println(apply1(%s, %s))\n", f.Name, c.Args[0])
				fmt.Fprintf(&sb, "\tvt.F = %s\n\tfmt.Println(vt.F(%s))\n", f.Name, c.Args[0])
			} else {
				fmt.Fprintf(&sb, "\t%s := %s(%s)\n", rnames[0], target, al)
				printResults()
			}
		case "element":
			fmt.Fprintf(&sb, "\tfs%d := []%s{%s}\n", ci, p.funcType(f), target)
			fmt.Fprintf(&sb, "\t%s := fs%d[0](%s)\n", rnames[0], ci, al)
			printResults()
		}
	}
	var keptNames []string
	for i, n := range p.Keep {
		var args []string
		for j := 0; j < n; j++ {
			args = append(args, fmt.Sprint(i*10+j+1))
		}
		switch i % 3 {
		case 0:
			fmt.Fprintf(&sb, "\tk%d := keepI(%s)\n", i, strings.Join(args, ", "))
			keptNames = append(keptNames, fmt.Sprintf("k%d", i))
		case 1:
			fmt.Fprintf(&sb, "\tk%d := vt.KeepM(%s)\n", i, strings.Join(append([]string{"\"p\""}, args...), ", "))
			keptNames = append(keptNames, fmt.Sprintf("k%d", i))
		default:
			fmt.Fprintf(&sb, "\tstash(%s)\n", strings.Join(args, ", "))
		}
	}
	if len(p.Keep) > 0 {
		fmt.Fprintf(&sb, "\tfmt.Println(%s)\n", strings.Join(append([]string{"\"kept\"", "kept"}, keptNames...), ", "))
	}
	fmt.Fprintf(&sb, "\tfmt.Println(rec(%d, 0), even(%d), odd(%d))\n", p.Depth, p.Depth%2000, p.Depth%2000)
	fmt.Fprintf(&sb, "\tfmt.Println(half(%d, 3, nil, 7))\n", p.Depth%1500)
	sb.WriteString("\tfmt.Println(vt.V, len(vs), vm[\"k\"])\n}\n")
	return sb.String()
}

func check(p *Prog) *ev.Failure {
	r := ev.R()
	src := p.Source()
	op := oracle.Single(src)
	v := diffgo.Compare(op, 50_000_000)
	r.Eval(1)
	if v.Skip != "" {
		r.Class("skipped:" + v.Skip)
		if v.Skip == "go_rejected" {
			r.Note("Go rejected a generated program: %s", firstLines(v.Msg, 2))
		}
		return nil
	}
	nt := p.Depth >= 100
	for _, c := range p.Calls {
		f := p.Fns[c.Fn]
		kinds := map[string]bool{}
		for _, t := range f.Params {
			kinds[t] = true
		}
		if (len(f.Params) >= 3 && len(kinds) >= 2) || f.Variadic != "" || c.Form == "methodvalue" || c.Form == "funcvar" {
			nt = true
		}
		r.Class("form=" + c.Form)
	}
	if nt {
		r.Nontrivial(ev.Hash(op.Key()))
	}
	if v.OK {
		return nil
	}
	return &ev.Failure{Kind: "prog", Case: p, Msg: v.Msg + "\n" + diffgo.Show(op, v)}
}

func firstLines(s string, n int) string {
	l := strings.Split(s, "\n")
	if len(l) > n {
		l = l[:n]
	}
	return strings.Join(l, " | ")
}

func TestCalls(t *testing.T) {
	n := 0
	diffgo.TwoPass(t, genProg, func(p *Prog) []*oracle.Program { return []*oracle.Program{oracle.Single(p.Source())} }, func(p *Prog) *ev.Failure {
		n++
		if n%60 == 1 {
			ev.R().Sample(map[string]any{"source": p.Source()})
		}
		return check(p)
	})
}

// ---- error clause -----------------------------------------------------------------------------

type ErrCase struct {
	Params  int    `json:"params"`
	Results int    `json:"results"`
	Given   int    `json:"given"`  // arguments supplied
	Wanted  int    `json:"wanted"` // results requested
	Via     string `json:"via"`    // eval call func method variadic
}

func checkErr(c *ErrCase) (f *ev.Failure) {
	var ps, rs, rv []string
	for i := 0; i < c.Params; i++ {
		ps = append(ps, fmt.Sprintf("p%d int", i))
	}
	for i := 0; i < c.Results; i++ {
		rs = append(rs, "int")
		rv = append(rv, fmt.Sprint(10+i))
	}
	sig := "(" + strings.Join(ps, ", ") + ")"
	if c.Via == "variadic" {
		sig = "(" + strings.Join(append(ps, "rest ...int"), ", ") + ")"
	}
	if len(rs) > 0 {
		sig += " (" + strings.Join(rs, ", ") + ")"
	}
	body := " { calls++ }"
	if len(rv) > 0 {
		body = " { calls++; return " + strings.Join(rv, ", ") + " }"
	}
	src := "var calls int\ntype T struct { V int }\nfunc f" + sig + body + "\nfunc (t *T) m" + sig + body + "\nfunc sum(a int, b int) int { return a*10 + b }\nvt := &T{V: 1}\n"
	mk := func(msg string) *ev.Failure {
		return &ev.Failure{Kind: "arity", Case: c, Msg: fmt.Sprintf("function with %d parameters and %d results, %d arguments given, %d results requested, via %s: %s\n--- definitions\n%s", c.Params, c.Results, c.Given, c.Wanted, c.Via, msg, src)}
	}
	defer func() {
		if r := recover(); r != nil {
			f = mk(fmt.Sprintf("host panic: %v", r))
		}
	}()
	vm := goat.New()
	if r := vm.Eval(nil, src, goat.DefaultBudget); r.Failed() {
		return mk("definitions failed: " + r.ErrString())
	}
	var args []string
	var params []goatlang.Value
	for i := 0; i < c.Given; i++ {
		args = append(args, fmt.Sprint(i+1))
		params = append(params, goatlang.Int(i+1))
	}
	var lhs []string
	for i := 0; i < c.Wanted; i++ {
		lhs = append(lhs, fmt.Sprintf("x%d", i))
	}
	wrongArgs := c.Given != c.Params
	if c.Via == "variadic" {
		wrongArgs = c.Given < c.Params
	}
	expectErr := wrongArgs || c.Wanted > c.Results
	var r goat.Result
	switch c.Via {
	case "eval", "method", "variadic":
		target := "f"
		if c.Via == "method" {
			target = "vt.m"
		}
		call := target + "(" + strings.Join(args, ", ") + ")"
		stmt := call
		if c.Wanted > 0 {
			stmt = strings.Join(lhs, ", ") + " := " + call
		}
		r = vm.Eval(nil, stmt, goat.DefaultBudget)
	case "call":
		r = vm.Call("main.f", c.Wanted, goat.DefaultBudget, params...)
	case "func":
		r = vm.Func(vm.Get("main.f"), c.Wanted, goat.DefaultBudget, params...)
	}
	if r.Panic != nil {
		return mk(fmt.Sprintf("Go panic escaped: %v", r.Panic))
	}
	if expectErr && r.Err == nil {
		return mk(fmt.Sprintf("no error was reported (values %v)", r.RetStrings()))
	}
	if !expectErr && r.Err != nil {
		return mk("a correct call failed: " + r.Err.Error())
	}
	if !expectErr && (c.Via == "call" || c.Via == "func") {
		if len(r.Rets) != c.Wanted {
			return mk(fmt.Sprintf("%d values returned", len(r.Rets)))
		}
		for i, v := range r.Rets {
			if v.Int() != 10+i {
				return mk(fmt.Sprintf("result %d is %v, expected %d (leading results in order)", i, v.String(), 10+i))
			}
		}
	}
	// the same VM still answers a correct call correctly: the stack was not silently misaligned
	r2 := vm.Eval(nil, "y := sum(4, 2); y", goat.DefaultBudget)
	if r2.Failed() || len(r2.Rets) != 1 || r2.Rets[0].Int() != 42 {
		return mk(fmt.Sprintf("afterwards sum(4, 2) gives %v %s (expected 42, one value)", r2.RetStrings(), r2.ErrString()))
	}
	r3 := vm.Call("main.sum", 1, goat.DefaultBudget, goatlang.Int(7), goatlang.Int(3))
	if r3.Failed() || len(r3.Rets) != 1 || r3.Rets[0].Int() != 73 {
		return mk(fmt.Sprintf("afterwards Call(sum, 7, 3) gives %v %s (expected 73)", r3.RetStrings(), r3.ErrString()))
	}
	return nil
}

func TestArityErrors(t *testing.T) {
	r := ev.R()
	r.Disjoint()
	idx := 0
	for _, via := range []string{"eval", "call", "func", "method", "variadic"} {
		for params := 0; params <= 4; params++ {
			for results := 0; results <= 3; results++ {
				for given := 0; given <= 6; given++ {
					for wanted := 0; wanted <= 4; wanted++ {
						idx++
						if !r.Mine(idx) {
							continue
						}
						c := &ErrCase{Params: params, Results: results, Given: given, Wanted: wanted, Via: via}
						r.Eval(1)
						if given != params || wanted > results {
							r.NontrivialN(1)
						}
						if idx%400 == 1 {
							r.Sample(c)
						}
						if f := checkErr(c); f != nil {
							r.Fail(t, f)
							return
						}
					}
				}
			}
		}
	}
	r.Exhaustive("arity grid: 0-4 parameters x 0-3 results x 0-6 arguments given x 0-4 results requested x {Eval, Call, Func, method call, variadic}", true)
}

func TestReplay(t *testing.T) {
	ev.R().RunReplays(t, map[string]ev.ReplayFunc{
		"prog": func(raw json.RawMessage) *ev.Failure {
			var p Prog
			if err := json.Unmarshal(raw, &p); err != nil {
				return &ev.Failure{Kind: "prog", Case: string(raw), Msg: "bad replay: " + err.Error()}
			}
			return check(&p)
		},
		"redef":         replayRedef,
		"redefvariadic": replayRedefVariadic,
		"manylocals":    replayManyLocals,
		"builtinname":   replayBuiltinName,
		"arity": func(raw json.RawMessage) *ev.Failure {
			var c ErrCase
			json.Unmarshal(raw, &c)
			return checkErr(&c)
		},
		"source": func(raw json.RawMessage) *ev.Failure {
			var c struct {
				Src string `json:"src"`
			}
			json.Unmarshal(raw, &c)
			op := oracle.Single(c.Src)
			v := diffgo.Compare(op, 50_000_000)
			if v.OK || v.Skip != "" {
				return nil
			}
			return &ev.Failure{Kind: "source", Case: c, Msg: v.Msg + "\n" + diffgo.Show(op, v)}
		},
	})
}
