// C12 — struct fields are independent, typed, and shared through references.
//
// (a) table level: a rapid state machine drives the robin-hood hash table behind struct fields (verif hook)
// against a Go map, checking the structural invariant after every step;
// (b) script level: struct types with 0..200 fields and 0..40 methods, field names interned in shuffled order
// with gaps, several instances and aliases, histories of writes / reads / op= / ++ / method calls / method
// values / alias assignment, against a field model in the harness.
package c12

import (
	"encoding/json"
	"fmt"
	"sort"
	"strings"
	"testing"

	"github.com/philhassey/goatlang"
	"pgregory.net/rapid"

	"verif/internal/ev"
	"verif/internal/goat"
	"verif/internal/rx"
)

func TestMain(m *testing.M) { ev.Main(m, "C12") }

// ================================ (a) table level ===============================================

type TOp struct {
	Op    string `json:"op"` // set assign get delete copy switch len
	Key   int    `json:"key,omitempty"`
	Val   int32  `json:"val,omitempty"`
	Table int    `json:"table,omitempty"`
}

type THistory struct {
	Alloc int   `json:"alloc"`
	Ops   []TOp `json:"ops"`
}

func genKey(rt *rapid.T) int {
	switch rx.Uniform(rt, 6, "keyfamily") {
	case 0: // dense run
		return rx.Range(rt, "dense", 0, 120)
	case 1: // collisions modulo 16
		return rx.Range(rt, "c16", 0, 3) + 16*rx.Range(rt, "j16", 0, 40)
	case 2: // collisions modulo 64
		return rx.Range(rt, "c64", 0, 2) + 64*rx.Range(rt, "j64", 0, 30)
	case 3: // collisions modulo 256
		return 5 + 256*rx.Range(rt, "j256", 0, 20)
	case 4: // near the wrap-around of small tables
		return 16*rx.Range(rt, "jw", 0, 8) + rx.Range(rt, "cw", 13, 15)
	default:
		return rx.Range(rt, "any", 0, 5000)
	}
}

func genTHistory(rt *rapid.T) *THistory {
	h := &THistory{Alloc: rx.Pick(rt, "alloc", 0, 0, 1, 8, 9, 20, 100)}
	n := rx.Range(rt, "steps", 1, 400)
	var pool []int
	var val int32
	for i := 0; i < n; i++ {
		// re-use earlier keys often (delete/update of existing entries)
		key := genKey(rt)
		if len(pool) > 0 && rx.Chance(rt, "reuse", 1, 2) {
			key = pool[rx.Uniform(rt, len(pool), "poolidx")]
		} else {
			pool = append(pool, key)
		}
		val++
		switch rx.Weighted(rt, "op", 40, 8, 10, 30, 3, 5, 4) {
		case 0:
			h.Ops = append(h.Ops, TOp{Op: "set", Key: key, Val: val})
		case 1:
			h.Ops = append(h.Ops, TOp{Op: "assign", Key: key, Val: val})
		case 2:
			h.Ops = append(h.Ops, TOp{Op: "get", Key: key})
		case 3:
			h.Ops = append(h.Ops, TOp{Op: "delete", Key: key})
		case 4:
			h.Ops = append(h.Ops, TOp{Op: "copy"})
		case 5:
			h.Ops = append(h.Ops, TOp{Op: "switch", Table: rx.Range(rt, "table", 0, 5)})
		default:
			h.Ops = append(h.Ops, TOp{Op: "len"})
		}
	}
	return h
}

// invariant checks the robin-hood structure of one table.
func invariant(w *goatlang.VerifIntMap, model map[int]int32) string {
	size := w.Size()
	if size < 16 || size&(size-1) != 0 {
		return fmt.Sprintf("table size %d is not a power of two >= 16", size)
	}
	mask := size - 1
	dump := w.Dump()
	if len(dump) != len(model) || w.Len() != len(model) {
		return fmt.Sprintf("table holds %d entries, Len() = %d, model has %d", len(dump), w.Len(), len(model))
	}
	occ := map[int]goatlang.VerifIntMapSlot{}
	seen := map[int]bool{}
	for _, s := range dump {
		occ[s.Slot] = s
		if seen[s.Key] {
			return fmt.Sprintf("key %d stored twice", s.Key)
		}
		seen[s.Key] = true
		if _, ok := model[s.Key]; !ok {
			return fmt.Sprintf("key %d is in the table but not in the model", s.Key)
		}
		home := s.Key & mask
		if want := ((s.Slot-home)&mask + 1); s.Distance != want {
			return fmt.Sprintf("key %d at slot %d (home %d) records distance %d, actual %d", s.Key, s.Slot, home, s.Distance, want)
		}
	}
	for _, s := range dump {
		if s.Distance > 1 {
			prev, ok := occ[(s.Slot-1)&mask]
			if !ok {
				return fmt.Sprintf("empty slot between the home of key %d and its position %d", s.Key, s.Slot)
			}
			_ = prev
		}
	}
	if len(model) >= size {
		return fmt.Sprintf("%d entries in a table of %d slots: the table is full, so probing for an absent key cannot terminate", len(model), size)
	}
	return ""
}

func runTable(h *THistory) (f *ev.Failure, crossed, displaced bool) {
	defer func() {
		if r := recover(); r != nil {
			f = &ev.Failure{Kind: "table", Case: h, Msg: fmt.Sprintf("hash table panicked: %v", r)}
		}
	}()
	tables := []*goatlang.VerifIntMap{goatlang.VerifNewIntMap(h.Alloc)}
	models := []map[int]int32{{}}
	cur := 0
	keys := map[int]bool{}
	lastSize := tables[0].Size()
	fail := func(i int, msg string) *ev.Failure {
		return &ev.Failure{Kind: "table", Case: h, Msg: fmt.Sprintf("step %d (%+v), table %d: %s", i, h.Ops[i], cur, msg)}
	}
	for i, op := range h.Ops {
		w, m := tables[cur], models[cur]
		switch op.Op {
		case "set":
			w.Set(op.Key, goatlang.Int32(op.Val))
			m[op.Key] = op.Val
			keys[op.Key] = true
		case "assign":
			w.Assign(op.Key, goatlang.Int32(op.Val))
			if _, ok := m[op.Key]; ok {
				m[op.Key] = op.Val
			}
			keys[op.Key] = true
		case "get":
			keys[op.Key] = true
		case "delete":
			w.Delete(op.Key)
			delete(m, op.Key)
			keys[op.Key] = true
		case "copy":
			if len(tables) < 6 {
				tables = append(tables, w.Copy())
				cp := map[int]int32{}
				for k, v := range m {
					cp[k] = v
				}
				models = append(models, cp)
			}
		case "switch":
			cur = op.Table % len(tables)
		case "len":
		}
		// every table (copies must stay independent), every key ever used
		for ti, tw := range tables {
			tm := models[ti]
			if msg := invariant(tw, tm); msg != "" {
				return fail(i, fmt.Sprintf("table %d: %s", ti, msg)), crossed, displaced
			}
			if ti != cur && i%8 != 0 {
				continue
			}
			for k := range keys {
				v, ok := tw.Get(k)
				want, wok := tm[k]
				if ok != wok || (ok && v.Int32() != want) {
					return fail(i, fmt.Sprintf("table %d: Get(%d) = (%v, %v), model has (%d, %v)", ti, k, v.String(), ok, want, wok)), crossed, displaced
				}
			}
		}
		if s := tables[cur].Size(); s != lastSize {
			crossed = true
			lastSize = s
		}
		if !displaced {
			for _, s := range tables[cur].Dump() {
				if s.Distance > 1 {
					displaced = true
					break
				}
			}
		}
	}
	return nil, crossed, displaced
}

func TestTable(t *testing.T) {
	r := ev.R()
	r.RapidCheck(t, func(rt *rapid.T) *ev.Failure {
		h := genTHistory(rt)
		f, crossed, displaced := runTable(h)
		r.Eval(1)
		if crossed {
			r.Class("crossed_a_resize")
		}
		if displaced {
			r.Class("displaced_entries")
		}
		if crossed || displaced {
			r.Nontrivial(ev.HashJSON(h))
		}
		if len(h.Ops) <= 12 {
			r.Sample(h)
		}
		return f
	})
}

// ================================ (b) script level ==============================================

type Field struct {
	Name string `json:"name"`
	Type string `json:"type"` // int float64 string bool byte []int
}

type SOp struct {
	Op    string `json:"op"` // write read addeq inc call_set call_get methodvalue alias dump
	Inst  int    `json:"inst"`
	Inst2 int    `json:"inst2,omitempty"`
	Field int    `json:"field,omitempty"`
	Val   int    `json:"val,omitempty"`
}

type SCase struct {
	Fields  []Field  `json:"fields"`
	Intern  []string `json:"intern"` // names mentioned before the type is declared (decoys and shuffled field names)
	Methods int      `json:"methods"` // number of extra do-nothing methods
	Late    int      `json:"late,omitempty"` // methods defined by a second Eval, after the instances exist (top-level form only)
	// Earlier: an earlier Eval on the same VM declared T without fields and with methods named like the first Earlier
	// fields (what was a method in an older version of the script is a field now)
	Earlier int `json:"earlier,omitempty"`
	NInst   int      `json:"ninst"`
	UseAliasType bool `json:"use_alias_type"`
	InFunc  bool     `json:"in_func"`
	Ops     []SOp    `json:"ops"`
}

var fieldTypes = []string{"int", "float64", "string", "bool", "byte", "[]int", "int", "int", "[]float64"}

func genSCase(rt *rapid.T) *SCase {
	c := &SCase{InFunc: rapid.Bool().Draw(rt, "inFunc"), UseAliasType: rx.Chance(rt, "aliasType", 1, 3)}
	var nf int
	switch rx.Uniform(rt, 5, "size") {
	case 0:
		nf = rx.Range(rt, "nf", 0, 3)
	case 1:
		nf = rx.Range(rt, "nf", 4, 16)
	case 2:
		nf = rx.Range(rt, "nf", 17, 60)
	case 3:
		nf = rx.Range(rt, "nf", 12, 13) * rx.Pick(rt, "mult", 1, 2, 4, 8) // around the 3/4 load thresholds 12, 24, 48, 96
	default:
		nf = rx.Range(rt, "nf", 61, 200)
	}
	for i := 0; i < nf; i++ {
		c.Fields = append(c.Fields, Field{Name: fmt.Sprintf("F%d", i), Type: rx.Pick(rt, "ftype", fieldTypes...)})
	}
	// intern order: a shuffled subset of the field names interleaved with decoys
	for i := 0; i < nf; i++ {
		if rx.Chance(rt, "pre", 1, 2) {
			c.Intern = append(c.Intern, fmt.Sprintf("F%d", i))
		}
		if rx.Chance(rt, "decoy", 1, 3) {
			c.Intern = append(c.Intern, fmt.Sprintf("D%d", i))
		}
	}
	if len(c.Intern) > 1 {
		c.Intern = rapid.Permutation(c.Intern).Draw(rt, "internorder")
	}
	c.Methods = rx.Pick(rt, "methods", 0, 0, 1, 5, 12, 13, 40)
	c.Late = rx.Pick(rt, "late", 0, 0, 1, 3, 12, 13, 25, 40)
	c.NInst = rx.Range(rt, "ninst", 2, 4)
	if nf > 0 && rx.Chance(rt, "earlier", 1, 4) {
		c.Earlier = rx.Range(rt, "nearlier", 1, min(nf, 20))
	}
	n := rx.Range(rt, "steps", 1, 60)
	for i := 0; i < n; i++ {
		op := SOp{Inst: rx.Uniform(rt, c.NInst+1, "inst")} // the extra index is the alias variable
		if nf > 0 {
			op.Field = rx.Uniform(rt, nf, "field")
		}
		op.Val = i + 1
		kinds := []string{"write", "write", "write", "read", "addeq", "inc", "call_set", "call_get", "methodvalue", "alias", "dump", "copyadd", "copyadd", "nilreset"}
		op.Op = rx.Pick(rt, "sop", kinds...)
		if nf == 0 && op.Op != "alias" && op.Op != "dump" {
			op.Op = "dump"
		}
		if op.Op == "alias" {
			op.Inst2 = rx.Uniform(rt, c.NInst, "inst2")
		}
		if op.Op == "copyadd" {
			op.Inst2 = rx.Uniform(rt, c.NInst+1, "src")
		}
		c.Ops = append(c.Ops, op)
	}
	c.Ops = append(c.Ops, SOp{Op: "dump"})
	return c
}

func valLit(t string, v int) string {
	switch t {
	case "int":
		return fmt.Sprint(v * 7)
	case "float64":
		return fmt.Sprintf("%d.5", v)
	case "string":
		return fmt.Sprintf("%q", fmt.Sprintf("s%d", v))
	case "bool":
		return fmt.Sprint(v%2 == 1)
	case "byte":
		return fmt.Sprint(v % 256)
	case "[]int":
		return fmt.Sprintf("[]int{%d, %d}", v, v+1)
	case "[]float64":
		return fmt.Sprintf("[]float64{%d, %d}", v, v+1)
	}
	panic(t)
}

func valShow(t string, v int, set bool) string {
	if !set {
		switch t {
		case "int", "byte":
			return "0"
		case "float64":
			return "0"
		case "string":
			return ""
		case "bool":
			return "false"
		case "[]int", "[]float64":
			return "[]"
		}
	}
	switch t {
	case "int":
		return fmt.Sprint(v * 7)
	case "float64":
		return fmt.Sprintf("%d.5", v)
	case "string":
		return fmt.Sprintf("s%d", v)
	case "bool":
		return fmt.Sprint(v%2 == 1)
	case "byte":
		return fmt.Sprint(v % 256)
	case "[]int", "[]float64":
		return fmt.Sprintf("[%d %d]", v, v+1)
	}
	panic(t)
}

// fieldState: the model value of a field is described by (base value id, set?, added increments)
type fstate struct {
	set bool
	v   int
	add int // accumulated += / ++ on numeric fields (applied to the shown value)
}

func (c *SCase) show(fi int, s fstate) string {
	t := c.Fields[fi].Type
	switch t {
	case "int":
		base := 0
		if s.set {
			base = s.v * 7
		}
		return fmt.Sprint(int32(base + s.add))
	case "byte":
		base := 0
		if s.set {
			base = s.v % 256
		}
		return fmt.Sprint(uint8(base + s.add))
	case "float64":
		base := 0.0
		if s.set {
			base = float64(s.v) + 0.5
		}
		return fmt.Sprint(base + float64(s.add))
	case "string":
		out := valShow(t, s.v, s.set)
		for i := 0; i < s.add; i++ {
			out += "+"
		}
		return out
	}
	return valShow(t, s.v, s.set)
}

func (c *SCase) typeName() string { return "T" }

// build renders the script and the expected output.
func (c *SCase) build() (string, string) {
	var sb, wb strings.Builder
	sb.WriteString("import \"fmt\"\n")
	// interning: a decoy struct mentions names first, in shuffled order with gaps
	if len(c.Intern) > 0 {
		sb.WriteString("type Pre struct {\n")
		for _, n := range c.Intern {
			fmt.Fprintf(&sb, "\t%s int\n", n)
		}
		sb.WriteString("}\n")
	}
	sb.WriteString("type T struct {\n")
	for _, f := range c.Fields {
		fmt.Fprintf(&sb, "\t%s %s\n", f.Name, f.Type)
	}
	sb.WriteString("}\n")
	tn := "T"
	if c.UseAliasType {
		sb.WriteString("type U = T\n")
		tn = "U"
	}
	for i, f := range c.Fields {
		fmt.Fprintf(&sb, "func (t *T) Set%d(v %s) { t.%s = v }\n", i, f.Type, f.Name)
		fmt.Fprintf(&sb, "func (t *T) Get%d() %s { return t.%s }\n", i, f.Type, f.Name)
	}
	for i := 0; i < c.Methods; i++ {
		fmt.Fprintf(&sb, "func (t *T) M%d() int { return %d }\n", i, i)
	}
	if len(c.Fields) > 0 {
		// another struct type with a method of the same name: one call site (in viaGetter) receives both
		t0 := c.Fields[0].Type
		fmt.Fprintf(&sb, "type W struct { K int }\nfunc (w *W) Get0() %s { var z %s; return z }\ntype getter0 interface { Get0() %s }\nfunc viaGetter(g getter0) %s { return g.Get0() }\n", t0, t0, t0, t0)
	}
	ind := ""
	if c.InFunc {
		sb.WriteString("func run() {\n")
		ind = "\t"
	}
	stmt := func(format string, a ...any) { sb.WriteString(ind + fmt.Sprintf(format, a...) + "\n") }
	out := func(format string, a ...any) { wb.WriteString(fmt.Sprintf(format, a...) + "\n") }
	names := []string{}
	for i := 0; i < c.NInst; i++ {
		names = append(names, fmt.Sprintf("x%d", i))
		stmt("x%d := &%s{}", i, tn)
	}
	names = append(names, "al")
	stmt("al := x0")
	if len(c.Fields) > 0 {
		stmt("wv := &W{K: 1}")
	}
	// model: instance storage; variable -> storage
	store := make([][]fstate, c.NInst)
	for i := range store {
		store[i] = make([]fstate, len(c.Fields))
	}
	ref := make([]int, c.NInst+1)
	for i := 0; i < c.NInst; i++ {
		ref[i] = i
	}
	ref[c.NInst] = 0
	if c.Methods > 0 {
		stmt("fmt.Println(\"m\", x0.M%d(), al.M0())", c.Methods-1)
		out("m %d 0", c.Methods-1)
	}
	for n, op := range c.Ops {
		v := names[op.Inst]
		var st []fstate
		if op.Op != "alias" && op.Op != "dump" {
			st = store[ref[op.Inst]]
		}
		fi := op.Field
		switch op.Op {
		case "write":
			stmt("%s.%s = %s", v, c.Fields[fi].Name, valLit(c.Fields[fi].Type, op.Val))
			st[fi] = fstate{set: true, v: op.Val}
		case "read":
		case "addeq":
			switch c.Fields[fi].Type {
			case "int", "byte", "float64":
				stmt("%s.%s += 3", v, c.Fields[fi].Name)
				st[fi].add += 3
			case "string":
				stmt("%s.%s += \"+\"", v, c.Fields[fi].Name)
				st[fi].add++
			default:
				stmt("%s.%s = %s", v, c.Fields[fi].Name, valLit(c.Fields[fi].Type, op.Val))
				st[fi] = fstate{set: true, v: op.Val}
			}
		case "inc":
			switch c.Fields[fi].Type {
			case "int", "byte", "float64":
				stmt("%s.%s++", v, c.Fields[fi].Name)
				st[fi].add++
			}
		case "copyadd":
			// the same field of another variable (another instance, or an alias of this one) plus a constant
			src := names[op.Inst2]
			sst := store[ref[op.Inst2]]
			switch c.Fields[fi].Type {
			case "int", "byte", "float64":
				stmt("%s.%s = %s.%s + 2", v, c.Fields[fi].Name, src, c.Fields[fi].Name)
				st[fi] = sst[fi]
				st[fi].add += 2
			case "string":
				stmt("%s.%s = %s.%s + \"+\"", v, c.Fields[fi].Name, src, c.Fields[fi].Name)
				st[fi] = sst[fi]
				st[fi].add++
			default:
				stmt("%s.%s = %s.%s", v, c.Fields[fi].Name, src, c.Fields[fi].Name)
				st[fi] = sst[fi]
			}
			// the source is printed too: it must be unchanged
			stmt("fmt.Println(\"src\", %d, %s.%s)", n, src, c.Fields[fi].Name)
			out("src %d %s", n, c.show(fi, store[ref[op.Inst2]][fi]))
		case "nilreset":
			// a slice field is set to nil and appended to: it is still a slice of its declared element type
			switch c.Fields[fi].Type {
			case "[]int", "[]float64":
				stmt("%s.%s = nil", v, c.Fields[fi].Name)
				stmt("fmt.Println(\"nil\", %d, len(%s.%s), %s.%s == nil)", n, v, c.Fields[fi].Name, v, c.Fields[fi].Name)
				out("nil %d 0 true", n)
				stmt("%s.%s = append(%s.%s, 1, 2)", v, c.Fields[fi].Name, v, c.Fields[fi].Name)
				stmt("fmt.Println(\"half\", %d, %s.%s[0]/2)", n, v, c.Fields[fi].Name)
				if c.Fields[fi].Type == "[]float64" {
					out("half %d 0.5", n)
				} else {
					out("half %d 0", n)
				}
				st[fi] = fstate{set: true, v: 1}
			default:
				stmt("%s.%s = %s", v, c.Fields[fi].Name, valLit(c.Fields[fi].Type, op.Val))
				st[fi] = fstate{set: true, v: op.Val}
			}
		case "call_set":
			stmt("%s.Set%d(%s)", v, fi, valLit(c.Fields[fi].Type, op.Val))
			st[fi] = fstate{set: true, v: op.Val}
		case "call_get":
			if fi == 0 {
				stmt("fmt.Println(\"w\", %d, viaGetter(wv))", n)
				out("w %d %s", n, valShow(c.Fields[0].Type, 0, false))
				stmt("fmt.Println(\"get\", %d, viaGetter(%s))", n, v)
			} else {
				stmt("fmt.Println(\"get\", %d, %s.Get%d())", n, v, fi)
			}
			out("get %d %s", n, c.show(fi, st[fi]))
		case "methodvalue":
			stmt("g%d := %s.Get%d", n, v, fi)
			stmt("s%d := %s.Set%d", n, v, fi)
			stmt("s%d(%s)", n, valLit(c.Fields[fi].Type, op.Val))
			stmt("fmt.Println(\"mv\", %d, g%d())", n, n)
			st[fi] = fstate{set: true, v: op.Val}
			out("mv %d %s", n, c.show(fi, st[fi]))
		case "alias":
			stmt("al = x%d", op.Inst2)
			ref[c.NInst] = op.Inst2
		case "dump":
			for vi, name := range names {
				var parts []string
				var exp []string
				for fi := range c.Fields {
					if len(c.Fields) > 24 && (fi+n)%7 != 0 && fi != len(c.Fields)-1 && fi != 0 {
						continue // large types: a rotating subset each time, all fields at the end
					}
					parts = append(parts, fmt.Sprintf("%s.%s", name, c.Fields[fi].Name))
					exp = append(exp, c.show(fi, store[ref[vi]][fi]))
				}
				if len(parts) == 0 {
					continue
				}
				for len(parts) > 0 {
					k := len(parts)
					if k > 16 {
						k = 16
					}
					stmt("fmt.Println(\"d\", %d, %s)", n, strings.Join(parts[:k], ", "))
					out("d %d %s", n, strings.Join(exp[:k], " "))
					parts, exp = parts[k:], exp[k:]
				}
			}
		}
		if st != nil && len(c.Fields) > 0 {
			stmt("fmt.Println(\"f\", %d, %s.%s)", n, v, c.Fields[fi].Name)
			out("f %d %s", n, c.show(fi, st[fi]))
		}
	}
	// final: every field of every variable
	for vi, name := range names {
		for fi := range c.Fields {
			stmt("fmt.Println(\"z\", %s.%s)", name, c.Fields[fi].Name)
			out("z %s", c.show(fi, store[ref[vi]][fi]))
		}
	}
	if c.InFunc {
		sb.WriteString("}\nrun()\n")
	}
	return sb.String(), wb.String()
}

var goatFieldType = map[string]goatlang.Type{"int": goatlang.TypeInt32, "float64": goatlang.TypeFloat64, "string": goatlang.TypeString, "bool": goatlang.TypeBool, "byte": goatlang.TypeUint8, "[]int": goatlang.TypeSlice, "[]float64": goatlang.TypeSlice}

func checkS(c *SCase) *ev.Failure {
	src, want := c.build()
	vm := goat.New()
	if c.Earlier > 0 {
		var sb strings.Builder
		sb.WriteString("type T struct {\n}\n")
		for i := 0; i < c.Earlier && i < len(c.Fields); i++ {
			fmt.Fprintf(&sb, "func (t *T) %s() int { return -1 }\n", c.Fields[i].Name)
		}
		sb.WriteString("old := &T{}\nr0 := old." + c.Fields[0].Name + "()\nr0\n")
		if r0 := vm.Eval(nil, sb.String(), 50_000_000); r0.Failed() || len(r0.Rets) != 1 || r0.Rets[0].Int() != -1 {
			return &ev.Failure{Kind: "struct", Case: c, Msg: fmt.Sprintf("the earlier declaration of T (no fields, %d methods) failed: %v %s\n--- script\n%s", c.Earlier, r0.RetStrings(), r0.ErrString(), sb.String())}
		}
		ev.R().Class("fields_that_were_methods_of_an_earlier_declaration")
	}
	r := vm.Eval(nil, src, 50_000_000)
	mk := func(msg string) *ev.Failure {
		s := src
		if len(s) > 6000 {
			s = s[:3000] + "\n…\n" + s[len(s)-3000:]
		}
		return &ev.Failure{Kind: "struct", Case: c, Msg: fmt.Sprintf("struct with %d fields, %d extra methods: %s\n--- script\n%s", len(c.Fields), c.Methods, msg, s)}
	}
	if r.Failed() {
		return mk("script failed: " + r.ErrString())
	}
	if r.Stdout != want {
		g, w := strings.Split(r.Stdout, "\n"), strings.Split(want, "\n")
		for i := range w {
			if i >= len(g) || g[i] != w[i] {
				gl := ""
				if i < len(g) {
					gl = g[i]
				}
				return mk(fmt.Sprintf("output line %d: goatlang %q, Go %q", i+1, gl, w[i]))
			}
		}
		return mk("goatlang printed extra lines")
	}
	// methods that arrive after the instances exist (a later Eval on the same VM) are found on the old instances,
	// and so are the old methods
	if !c.InFunc && c.Late > 0 {
		var sb, wb strings.Builder
		sb.WriteString("import \"fmt\"\n")
		for i := 0; i < c.Late; i++ {
			fmt.Fprintf(&sb, "func (t *T) L%d() int { return %d }\n", i, 1000+i)
		}
		for vi := 0; vi <= c.NInst; vi++ {
			name := fmt.Sprintf("x%d", vi)
			if vi == c.NInst {
				name = "al"
			}
			for i := 0; i < c.Late; i++ {
				fmt.Fprintf(&sb, "fmt.Println(\"late\", %d, %d, %s.L%d())\n", vi, i, name, i)
				fmt.Fprintf(&wb, "late %d %d %d\n", vi, i, 1000+i)
			}
			if c.Methods > 0 {
				fmt.Fprintf(&sb, "fmt.Println(\"old\", %s.M%d(), %s.M0())\n", name, c.Methods-1, name)
				fmt.Fprintf(&wb, "old %d 0\n", c.Methods-1)
			}
		}
		fmt.Fprintf(&sb, "y := &T{}\nfmt.Println(\"fresh\", y.L%d())\n", c.Late-1)
		fmt.Fprintf(&wb, "fresh %d\n", 1000+c.Late-1)
		r2 := vm.Eval(nil, sb.String(), 50_000_000)
		if r2.Failed() {
			return mk(fmt.Sprintf("a second Eval defined %d more methods and called them on the existing instances: %s\n--- second script\n%s", c.Late, r2.ErrString(), sb.String()))
		}
		if r2.Stdout != wb.String() {
			return mk(fmt.Sprintf("a second Eval defined %d more methods and called them on the existing instances: printed\n%s\nexpected\n%s\n--- second script\n%s", c.Late, r2.Stdout, wb.String(), sb.String()))
		}
		ev.R().Class("methods_added_after_instances")
	}
	// dynamic type of every field (host side, top-level variant only)
	if !c.InFunc {
		x0 := vm.Get("main.x0")
		for _, f := range c.Fields {
			got := func() (t goatlang.Type) {
				defer func() {
					if recover() != nil {
						t = -1
					}
				}()
				return x0.GetAttr(f.Name).Type()
			}()
			if got != goatFieldType[f.Type] {
				return mk(fmt.Sprintf("field %s declared %s holds a value of dynamic type %d", f.Name, f.Type, got))
			}
		}
	}
	return nil
}

func TestStructs(t *testing.T) {
	r := ev.R()
	r.RapidCheck(t, func(rt *rapid.T) *ev.Failure {
		c := genSCase(rt)
		r.Eval(1)
		nf := len(c.Fields)
		switch {
		case nf == 0:
			r.Class("fields=0")
		case nf <= 12:
			r.Class("fields=1..12")
		case nf <= 48:
			r.Class("fields=13..48")
		case nf <= 96:
			r.Class("fields=49..96")
		default:
			r.Class("fields=97..200")
		}
		if nf >= 13 || divergent(c) {
			r.Nontrivial(ev.HashJSON(c))
		}
		if nf <= 3 && len(c.Ops) <= 8 {
			src, _ := c.build()
			r.Sample(map[string]any{"script": src})
		}
		return checkS(c)
	})
}

// divergent: two instances receive different values in the same field.
func divergent(c *SCase) bool {
	w := map[int]map[int]bool{}
	for _, op := range c.Ops {
		if op.Op == "write" || op.Op == "call_set" || op.Op == "methodvalue" {
			if w[op.Field] == nil {
				w[op.Field] = map[int]bool{}
			}
			w[op.Field][op.Inst] = true
		}
	}
	for _, m := range w {
		if len(m) >= 2 {
			return true
		}
	}
	return false
}

func TestReplay(t *testing.T) {
	ev.R().RunReplays(t, map[string]ev.ReplayFunc{
		"table": func(raw json.RawMessage) *ev.Failure {
			var h THistory
			if err := json.Unmarshal(raw, &h); err != nil {
				return &ev.Failure{Kind: "table", Case: string(raw), Msg: "bad replay: " + err.Error()}
			}
			f, _, _ := runTable(&h)
			return f
		},
		"struct": func(raw json.RawMessage) *ev.Failure {
			var c SCase
			if err := json.Unmarshal(raw, &c); err != nil {
				return &ev.Failure{Kind: "struct", Case: string(raw), Msg: "bad replay: " + err.Error()}
			}
			return checkS(&c)
		},
	})
}

var _ = sort.Ints
