// C04 — fixed-width numeric semantics equal Go's for every operand value.
//
// One script per (type, position family) defines one function per (operator, position[, constant]); it is
// loaded once and the functions are called through the host API with typed values. The expected result
// is computed natively by Go's own fixed-width operators (generics over int8/uint8/int32/uint32, float64).
package c04

import (
	"encoding/json"
	"fmt"
	"math"
	"strings"
	"testing"

	"github.com/philhassey/goatlang"
	"pgregory.net/rapid"

	"verif/internal/ev"
	"verif/internal/goat"
)

func TestMain(m *testing.M) { ev.Main(m, "C04") }

// ---- types and values -------------------------------------------------------------------------

type ntype int

const (
	tI8 ntype = iota
	tU8
	tI32
	tU32
	tF64
)

var allTypes = []ntype{tI8, tU8, tI32, tU32, tF64}
var typeName = map[ntype]string{tI8: "int8", tU8: "uint8", tI32: "int32", tU32: "uint32", tF64: "float64"}
var typeSpell = map[ntype][]string{tI8: {"int8"}, tU8: {"uint8", "byte"}, tI32: {"int32", "int", "rune"}, tU32: {"uint32", "uint"}, tF64: {"float64"}}
var goatType = map[ntype]goatlang.Type{tI8: goatlang.TypeInt8, tU8: goatlang.TypeUint8, tI32: goatlang.TypeInt32, tU32: goatlang.TypeUint32, tF64: goatlang.TypeFloat64}

func typeByName(n string) ntype {
	for t, ss := range typeSpell {
		for _, s := range ss {
			if s == n {
				return t
			}
		}
	}
	panic("type " + n)
}

// num is a value of one of the five types; integers are kept as int64 in the type's range.
type num struct {
	T ntype
	I int64
	F float64
}

func (n num) String() string {
	if n.T == tF64 {
		return fmt.Sprintf("%s(%v /*bits %#x*/)", typeName[n.T], n.F, math.Float64bits(n.F))
	}
	return fmt.Sprintf("%s(%d)", typeName[n.T], n.I)
}

type numJSON struct {
	T     string `json:"type"`
	I     int64  `json:"int,omitempty"`
	FBits string `json:"float_bits,omitempty"`
	FRepr string `json:"float,omitempty"`
}

func (n num) MarshalJSON() ([]byte, error) {
	j := numJSON{T: typeName[n.T], I: n.I}
	if n.T == tF64 {
		j.FBits = fmt.Sprintf("%#x", math.Float64bits(n.F))
		j.FRepr = fmt.Sprint(n.F)
	}
	return json.Marshal(j)
}

func (n *num) UnmarshalJSON(b []byte) error {
	var j numJSON
	if err := json.Unmarshal(b, &j); err != nil {
		return err
	}
	n.T = typeByName(j.T)
	n.I = j.I
	if n.T == tF64 {
		var bits uint64
		if _, err := fmt.Sscanf(j.FBits, "0x%x", &bits); err != nil {
			return err
		}
		n.F = math.Float64frombits(bits)
	}
	return nil
}

func (n num) lit() string { // Go literal of the value (as an untyped constant)
	if n.T == tF64 {
		return fmt.Sprintf("%v", n.F)
	}
	return fmt.Sprint(n.I)
}

func (n num) value() goatlang.Value {
	switch n.T {
	case tI8:
		return goatlang.Int8(int8(n.I))
	case tU8:
		return goatlang.Uint8(uint8(n.I))
	case tI32:
		return goatlang.Int32(int32(n.I))
	case tU32:
		return goatlang.Uint32(uint32(n.I))
	}
	return goatlang.Float64(n.F)
}

func mk(t ntype, i int64) num {
	switch t {
	case tI8:
		return num{T: t, I: int64(int8(i))}
	case tU8:
		return num{T: t, I: int64(uint8(i))}
	case tI32:
		return num{T: t, I: int64(int32(i))}
	case tU32:
		return num{T: t, I: int64(uint32(i))}
	}
	return num{T: t, F: float64(i)}
}

func mkf(f float64) num { return num{T: tF64, F: f} }

func rangeOf(t ntype) (lo, hi int64) {
	switch t {
	case tI8:
		return -128, 127
	case tU8:
		return 0, 255
	case tI32:
		return math.MinInt32, math.MaxInt32
	case tU32:
		return 0, math.MaxUint32
	}
	return 0, 0
}

// outcome of an operation: a number, a bool, or a run-time panic.
type outcome struct {
	Num    *num
	Bool   *bool
	Panics bool
}

func (o outcome) String() string {
	switch {
	case o.Panics:
		return "run-time panic"
	case o.Bool != nil:
		return fmt.Sprintf("bool(%v)", *o.Bool)
	case o.Num != nil:
		return o.Num.String()
	}
	return "?"
}

func onum(n num) outcome   { return outcome{Num: &n} }
func obool(b bool) outcome { return outcome{Bool: &b} }

type integer interface {
	~int8 | ~uint8 | ~int32 | ~uint32
}

func arith[T integer](op string, a, b T) (r T, isBool, bres, panicked bool) {
	defer func() {
		if recover() != nil {
			panicked = true
		}
	}()
	switch op {
	case "+":
		r = a + b
	case "-":
		r = a - b
	case "*":
		r = a * b
	case "/":
		r = a / b
	case "%":
		r = a % b
	case "&":
		r = a & b
	case "|":
		r = a | b
	case "^":
		r = a ^ b
	case "&^":
		r = a &^ b
	case "<<":
		r = a << b
	case ">>":
		r = a >> b
	case "==":
		return 0, true, a == b, false
	case "!=":
		return 0, true, a != b, false
	case "<":
		return 0, true, a < b, false
	case "<=":
		return 0, true, a <= b, false
	case ">":
		return 0, true, a > b, false
	case ">=":
		return 0, true, a >= b, false
	default:
		panic("op " + op)
	}
	return
}

func shiftMixed[T integer, U integer](op string, a T, n U) (r T, panicked bool) {
	defer func() {
		if recover() != nil {
			panicked = true
		}
	}()
	if op == "<<" {
		return a << n, false
	}
	return a >> n, false
}

// native computes a OP b with Go's own operators on the real types.
func native(op string, a, b num) outcome {
	if a.T != b.T {
		panic("mixed types")
	}
	wrap := func(r int64, isBool, bres, p bool) outcome {
		if p {
			return outcome{Panics: true}
		}
		if isBool {
			return obool(bres)
		}
		return onum(num{T: a.T, I: r})
	}
	switch a.T {
	case tI8:
		r, ib, br, p := arith(op, int8(a.I), int8(b.I))
		return wrap(int64(r), ib, br, p)
	case tU8:
		r, ib, br, p := arith(op, uint8(a.I), uint8(b.I))
		return wrap(int64(r), ib, br, p)
	case tI32:
		r, ib, br, p := arith(op, int32(a.I), int32(b.I))
		return wrap(int64(r), ib, br, p)
	case tU32:
		r, ib, br, p := arith(op, uint32(a.I), uint32(b.I))
		return wrap(int64(r), ib, br, p)
	}
	x, y := a.F, b.F
	switch op {
	case "+":
		return onum(mkf(x + y))
	case "-":
		return onum(mkf(x - y))
	case "*":
		return onum(mkf(x * y))
	case "/":
		return onum(mkf(x / y))
	case "==":
		return obool(x == y)
	case "!=":
		return obool(x != y)
	case "<":
		return obool(x < y)
	case "<=":
		return obool(x <= y)
	case ">":
		return obool(x > y)
	case ">=":
		return obool(x >= y)
	}
	panic("float op " + op)
}

func nativeShiftMixed(op string, a, n num) outcome {
	do := func(r int64, p bool) outcome {
		if p {
			return outcome{Panics: true}
		}
		return onum(num{T: a.T, I: r})
	}
	type sh = func() (int64, bool)
	pick := func(f8 sh, fu8 sh, f32 sh, fu32 sh) outcome {
		switch n.T {
		case tI8:
			return do(f8())
		case tU8:
			return do(fu8())
		case tI32:
			return do(f32())
		default:
			return do(fu32())
		}
	}
	switch a.T {
	case tI8:
		x := int8(a.I)
		return pick(func() (int64, bool) { r, p := shiftMixed(op, x, int8(n.I)); return int64(r), p },
			func() (int64, bool) { r, p := shiftMixed(op, x, uint8(n.I)); return int64(r), p },
			func() (int64, bool) { r, p := shiftMixed(op, x, int32(n.I)); return int64(r), p },
			func() (int64, bool) { r, p := shiftMixed(op, x, uint32(n.I)); return int64(r), p })
	case tU8:
		x := uint8(a.I)
		return pick(func() (int64, bool) { r, p := shiftMixed(op, x, int8(n.I)); return int64(r), p },
			func() (int64, bool) { r, p := shiftMixed(op, x, uint8(n.I)); return int64(r), p },
			func() (int64, bool) { r, p := shiftMixed(op, x, int32(n.I)); return int64(r), p },
			func() (int64, bool) { r, p := shiftMixed(op, x, uint32(n.I)); return int64(r), p })
	case tI32:
		x := int32(a.I)
		return pick(func() (int64, bool) { r, p := shiftMixed(op, x, int8(n.I)); return int64(r), p },
			func() (int64, bool) { r, p := shiftMixed(op, x, uint8(n.I)); return int64(r), p },
			func() (int64, bool) { r, p := shiftMixed(op, x, int32(n.I)); return int64(r), p },
			func() (int64, bool) { r, p := shiftMixed(op, x, uint32(n.I)); return int64(r), p })
	default:
		x := uint32(a.I)
		return pick(func() (int64, bool) { r, p := shiftMixed(op, x, int8(n.I)); return int64(r), p },
			func() (int64, bool) { r, p := shiftMixed(op, x, uint8(n.I)); return int64(r), p },
			func() (int64, bool) { r, p := shiftMixed(op, x, int32(n.I)); return int64(r), p },
			func() (int64, bool) { r, p := shiftMixed(op, x, uint32(n.I)); return int64(r), p })
	}
}

func nativeUnary(op string, a num) outcome {
	if a.T == tF64 {
		return onum(mkf(-a.F))
	}
	switch a.T {
	case tI8:
		x := int8(a.I)
		if op == "-" {
			return onum(mk(a.T, int64(-x)))
		}
		return onum(mk(a.T, int64(^x)))
	case tU8:
		x := uint8(a.I)
		if op == "-" {
			return onum(mk(a.T, int64(-x)))
		}
		return onum(mk(a.T, int64(^x)))
	case tI32:
		x := int32(a.I)
		if op == "-" {
			return onum(mk(a.T, int64(-x)))
		}
		return onum(mk(a.T, int64(^x)))
	default:
		x := uint32(a.I)
		if op == "-" {
			return onum(mk(a.T, int64(-x)))
		}
		return onum(mk(a.T, int64(^x)))
	}
}

// nativeConvert computes T(a); ok=false when Go leaves the result implementation-defined (float out of range, NaN).
func nativeConvert(to ntype, a num) (num, bool) {
	if a.T == tF64 {
		if to == tF64 {
			return a, true
		}
		f := math.Trunc(a.F)
		lo, hi := rangeOf(to)
		if math.IsNaN(a.F) || f < float64(lo) || f > float64(hi) {
			return num{}, false
		}
		return mk(to, int64(f)), true
	}
	if to == tF64 {
		return mkf(float64(a.I)), true
	}
	return mk(to, a.I), true
}

// ---- value pools ------------------------------------------------------------------------------

func boundary(t ntype) []num {
	var res []num
	add := func(i int64) {
		lo, hi := rangeOf(t)
		if i >= lo && i <= hi {
			res = append(res, mk(t, i))
		}
	}
	switch t {
	case tI8, tU8:
		for _, i := range []int64{0, 1, 2, 3, 7, 8, 15, 16, 31, 32, 63, 64, 100, 126, 127, 128, 129, 200, 254, 255, -1, -2, -3, -7, -8, -64, -100, -127, -128} {
			add(i)
		}
	case tI32, tU32:
		for _, i := range []int64{0, 1, 2, 3, 5, 7, 8, 10, 16, 31, 32, 33, 100, 127, 128, 255, 256, 0x7fff, 0x8000, 0xffff, 0x10000, 0x10001, 46340, 46341, 65535, 65536, 1 << 20, 1 << 24, (1 << 24) + 1, 1 << 30, (1 << 30) + 1, math.MaxInt32 - 1, math.MaxInt32, 1 << 31, (1 << 31) + 1, 3000000000, 4000000000, math.MaxUint32 - 1, math.MaxUint32,
			-1, -2, -3, -7, -8, -128, -129, -0x8000, -0x8001, -65536, -(1 << 30), math.MinInt32 + 1, math.MinInt32} {
			add(i)
		}
	case tF64:
		for _, f := range []float64{0, math.Copysign(0, -1), 1, -1, 2, 0.5, -0.5, 0.1, 0.2, 1.5, -2.5, 3, 7, 10, 100, 255, 256, 1e-5, 1e-4, 1e20, 1e21, 1e22, 123456789, 0.000001234, 1 << 31, 1<<31 - 1, -(1 << 31), 1 << 32, 1<<53 - 1, 1 << 53, 1<<53 + 2,
			math.MaxFloat64, -math.MaxFloat64, math.SmallestNonzeroFloat64, 2.2250738585072014e-308, math.Inf(1), math.Inf(-1), math.NaN(), math.Pi, math.E, 1.0 / 3.0} {
			res = append(res, mkf(f))
		}
	}
	return res
}

// constPool: untyped constants representable in t, as written in a program.
func constPool(t ntype, full bool) []num {
	if full && (t == tI8 || t == tU8) {
		lo, hi := rangeOf(t)
		var res []num
		for i := lo; i <= hi; i++ {
			res = append(res, mk(t, i))
		}
		return res
	}
	if t == tF64 {
		var res []num
		for _, f := range []float64{0, 1, 2, 3, 10, 255, 256, 0.5, 1.5, 0.1, 2.25, 100, 1e6, 1e21, 4000000000, 123456.789} {
			res = append(res, mkf(f))
			if f != 0 {
				res = append(res, mkf(-f))
			}
		}
		return res
	}
	return boundary(t)
}

func genNum(rt *rapid.T, t ntype, label string) num {
	switch t {
	case tI8:
		return mk(t, int64(rapid.Int8().Draw(rt, label)))
	case tU8:
		return mk(t, int64(rapid.Uint8().Draw(rt, label)))
	case tI32:
		if rapid.IntRange(0, 3).Draw(rt, label+"k") == 0 {
			b := boundary(t)
			return b[rapid.IntRange(0, len(b)-1).Draw(rt, label+"b")]
		}
		return mk(t, int64(rapid.Int32().Draw(rt, label)))
	case tU32:
		if rapid.IntRange(0, 3).Draw(rt, label+"k") == 0 {
			b := boundary(t)
			return b[rapid.IntRange(0, len(b)-1).Draw(rt, label+"b")]
		}
		return mk(t, int64(rapid.Uint32().Draw(rt, label)))
	}
	if rapid.IntRange(0, 2).Draw(rt, label+"k") == 0 {
		b := boundary(t)
		return b[rapid.IntRange(0, len(b)-1).Draw(rt, label+"b")]
	}
	return mkf(math.Float64frombits(rapid.Uint64().Draw(rt, label)))
}

// ---- script families --------------------------------------------------------------------------

var intOps = []string{"+", "-", "*", "/", "%", "&", "|", "^", "&^", "<<", ">>"}
var floatOps = []string{"+", "-", "*", "/"}
var cmpOps = []string{"==", "!=", "<", "<=", ">", ">="}
var opName = map[string]string{"+": "add", "-": "sub", "*": "mul", "/": "div", "%": "mod", "&": "and", "|": "or", "^": "xor", "&^": "andnot", "<<": "shl", ">>": "shr",
	"==": "eq", "!=": "ne", "<": "lt", "<=": "le", ">": "gt", ">=": "ge", "++": "inc", "--": "dec", "neg": "neg", "com": "com"}

// skip reports whether a region of the domain is excluded because an open known finding covers it; the
// exclusion is counted in the evidence.
func skip(id string) bool {
	if ev.KnownOpen("C04", id) == nil {
		return false
	}
	ev.R().Class("excluded_by_known_finding:" + id)
	return true
}

func opsFor(t ntype, withCmp bool) []string {
	var ops []string
	if t == tF64 {
		ops = append(ops, floatOps...)
	} else {
		for _, op := range intOps {
			if op == "&^" && !withCmp && skip("c04-andnot-assign") {
				continue // x &^= y does not parse (known finding); x &^ y is still checked in every other position
			}
			ops = append(ops, op)
		}
	}
	if withCmp {
		ops = append(ops, cmpOps...)
	}
	return ops
}

// a position describes where the operation sits syntactically.
type position struct {
	Name    string
	Compound bool // x op= y (no comparison operators)
	// body returns the function body given type spelling T and the operation text pieces
	Body func(T, op string) string
}

var binPositions = []position{
	{"ll", false, func(T, op string) string { return "return a " + op + " b" }},
	{"gg", false, func(T, op string) string { return "GA = a; GB = b; return GA " + op + " GB" }},
	{"lg", false, func(T, op string) string { return "GB = b; return a " + op + " GB" }},
	{"fe", false, func(T, op string) string {
		return "s := &S{}; s.F = a; v := []" + T + "{b}; return s.F " + op + " v[0]"
	}},
	{"nest", false, func(T, op string) string { return "x := a; y := b; if true { for i := 0; i < 1; i++ { x = x " + op + " y } }; return x" }},
	{"el", true, func(T, op string) string { return "x := a; x " + op + "= b; return x" }},
	{"eg", true, func(T, op string) string { return "GA = a; GA " + op + "= b; return GA" }},
	{"ef", true, func(T, op string) string { return "s := &S{}; s.F = a; s.F " + op + "= b; return s.F" }},
	{"es", true, func(T, op string) string { return "v := []" + T + "{a}; v[0] " + op + "= b; return v[0]" }},
	{"em", true, func(T, op string) string {
		return "m := map[string]" + T + "{\"k\": a}; m[\"k\"] " + op + "= b; return m[\"k\"]"
	}},
}

// derived positions wrap a comparison in something whose value follows from the comparison's: a negation, or the
// comparison of a difference with zero. An implementation may not rewrite !(a < b) to a >= b (NaN) nor a - b < 0 to
// a < b (the difference wraps).
type derivedPosition struct {
	Name string
	Body func(T, op string) string
	Want func(op string, a, b num) outcome
}

func notOf(o outcome) outcome {
	if o.Bool == nil {
		return o
	}
	return obool(!*o.Bool)
}

func zeroOf(a num) num {
	if a.T == tF64 {
		return mkf(0)
	}
	return mk(a.T, 0)
}

var derivedPositions = []derivedPosition{
	{"notcmp", func(T, op string) string { return "return !(a " + op + " b)" }, func(op string, a, b num) outcome { return notOf(native(op, a, b)) }},
	{"notcmpg", func(T, op string) string {
		return "GA = a; GB = b; if !(GA " + op + " GB) { return true }; return false"
	}, func(op string, a, b num) outcome { return notOf(native(op, a, b)) }},
	{"diffzero", func(T, op string) string { return "GA = a; GB = b; return GA - GB " + op + " 0" }, func(op string, a, b num) outcome {
		return native(op, *native("-", a, b).Num, zeroOf(a))
	}},
	{"diffzerol", func(T, op string) string { return "x := a; return x - b*1 " + op + " 0" }, func(op string, a, b num) outcome {
		return native(op, *native("-", a, b).Num, zeroOf(a))
	}},
	{"zerodiff", func(T, op string) string { return "GA = a; return 0 " + op + " GA - b" }, func(op string, a, b num) outcome {
		return native(op, zeroOf(a), *native("-", a, b).Num)
	}},
}

type constPosition struct {
	Name     string
	Compound bool
	ConstLeft bool
	Body     func(T, op, K string) string
}

var constPositions = []constPosition{
	{"lc", false, false, func(T, op, K string) string { return "return a " + op + " " + K }},
	{"cl", false, true, func(T, op, K string) string { return "return " + K + " " + op + " a" }},
	{"gc", false, false, func(T, op, K string) string { return "GA = a; return GA " + op + " " + K }},
	{"fc", false, false, func(T, op, K string) string { return "s := &S{}; s.F = a; return s.F " + op + " " + K }},
	{"ecl", true, false, func(T, op, K string) string { return "x := a; x " + op + "= " + K + "; return x" }},
	{"ecg", true, false, func(T, op, K string) string { return "GA = a; GA " + op + "= " + K + "; return GA" }},
	{"ecf", true, false, func(T, op, K string) string { return "s := &S{}; s.F = a; s.F " + op + "= " + K + "; return s.F" }},
	{"ecs", true, false, func(T, op, K string) string { return "v := []" + T + "{a}; v[0] " + op + "= " + K + "; return v[0]" }},
	{"xeqc", true, false, func(T, op, K string) string { return "x := a; x = x " + op + " " + K + "; return x" }},
	// the constant has a name: an untyped named constant behaves like the literal it stands for
	{"lnc", false, false, func(T, op, K string) string { return "const c = " + K + "; return a " + op + " c" }},
	{"ncl", false, true, func(T, op, K string) string { return "const c = " + K + "; return c " + op + " a" }},
	{"gnc", false, false, func(T, op, K string) string { return "return a " + op + " " + ukName(K) }},
	{"encl", true, false, func(T, op, K string) string { return "const c = " + K + "; x := a; x " + op + "= c; return x" }},
	{"encg", true, false, func(T, op, K string) string { return "GA = a; GA " + op + "= " + ukName(K) + "; return GA" }},
}

// ukName is the name of the package-level untyped constant that holds K (declared once per constant by constScript).
func ukName(K string) string {
	return "UK_" + strings.NewReplacer("-", "m", ".", "p", "+", "").Replace(K)
}

var incPositions = []position{
	{"il", false, func(T, op string) string { return "x := a; x" + op + "; return x" }},
	{"ig", false, func(T, op string) string { return "GA = a; GA" + op + "; return GA" }},
	{"if", false, func(T, op string) string { return "s := &S{}; s.F = a; s.F" + op + "; return s.F" }},
	{"is", false, func(T, op string) string { return "v := []" + T + "{a}; v[0]" + op + "; return v[0]" }},
	{"im", false, func(T, op string) string { return "m := map[int]" + T + "{7: a}; m[7]" + op + "; return m[7]" }},
	{"iloop", false, func(T, op string) string { return "x := a; for i := 0; i < 3; i++ { x" + op + " }; return x" }},
}

var unaryPositions = []position{
	{"ul", false, func(T, op string) string { return "return " + op + "a" }},
	{"ug", false, func(T, op string) string { return "GA = a; return " + op + "GA" }},
	{"uf", false, func(T, op string) string { return "s := &S{}; s.F = a; x := " + op + "s.F; return x" }},
}

// declaration / assignment contexts that must convert an untyped constant K to the declared type T
var declPositions = []struct {
	Name string
	Pre  func(T, K string) string // extra top-level declarations
	Body func(T, K string) string
	Short bool // a short declaration: the constant takes its default type, so only for int32 and float64
}{
	{"dshort", nil, func(T, K string) string { return "x := " + shortLit(T, K) + "; return x" }, true},
	{"dshort2", nil, func(T, K string) string { return "u := true; x := " + shortLit(T, K) + "; if u { return x }; return x" }, true},
	{"dshort3", nil, func(T, K string) string { return "w, x, y := true, " + shortLit(T, K) + ", " + shortLit(T, K) + "; if w { return x }; return y" }, true},
	{"dshortloop", nil, func(T, K string) string { return "for i := 0; i < 1; i++ { x := " + shortLit(T, K) + "; return x }; return 0" }, true},
	// the constant next to typed values of the same list (GA, GB are package variables of type T): every element converts
	{"dslicelit2", nil, func(T, K string) string { return "v := []" + T + "{" + K + ", GA}; return v[0]" }, false},
	{"dslicelit3", nil, func(T, K string) string { return "v := []" + T + "{GA, " + K + ", GB}; return v[1]" }, false},
	{"dappend2", nil, func(T, K string) string { return "var v []" + T + "; v = append(v, " + K + ", GA); return v[0]" }, false},
	{"dappend3", nil, func(T, K string) string { return "v := []" + T + "{GA}; v = append(v, GB, " + K + ", GA); return v[2]" }, false},
	{"dvariadic2", nil, func(T, K string) string { return "return first(" + K + ", GA)" }, false},
	{"dvariadic3", nil, func(T, K string) string { return "return second(GA, " + K + ", GB)" }, false},
	{"dmaplit2", nil, func(T, K string) string { return "m := map[string]" + T + "{\"k\": " + K + ", \"j\": GA}; return m[\"k\"]" }, false},
	{"dmulti2", nil, func(T, K string) string { return "var x, y " + T + " = " + K + ", GA; _ = y; return x" }, false},
	{"dresult2", func(T, K string) string { return "func res2_NAME() (" + T + ", " + T + ") { return " + K + ", GA }" }, func(T, K string) string { return "x, _ := res2_NAME(); return x" }, false},
	{"dassign2", nil, func(T, K string) string { return "x, y := GA, GB; x, y = " + K + ", x; _ = y; return x" }, false},
	{"dvar", nil, func(T, K string) string { return "var x " + T + " = " + K + "; return x" }, false},
	{"dconv", nil, func(T, K string) string { return "x := " + T + "(" + K + "); return x" }, false},
	{"dassign", nil, func(T, K string) string { return "var x " + T + "; x = " + K + "; return x" }, false},
	{"dparam", nil, func(T, K string) string { return "return ident(" + K + ")" }, false},
	{"dresult", func(T, K string) string { return "func res_NAME() " + T + " { return " + K + " }" }, func(T, K string) string { return "return res_NAME()" }, false},
	{"dfieldlit", nil, func(T, K string) string { return "s := &S{F: " + K + "}; return s.F" }, false},
	{"dfieldset", nil, func(T, K string) string { return "s := &S{}; s.F = " + K + "; return s.F" }, false},
	{"dslicelit", nil, func(T, K string) string { return "v := []" + T + "{" + K + "}; return v[0]" }, false},
	{"delemset", nil, func(T, K string) string { return "v := make([]" + T + ", 1); v[0] = " + K + "; return v[0]" }, false},
	{"dappend", nil, func(T, K string) string { return "var v []" + T + "; v = append(v, " + K + "); return v[0]" }, false},
	{"dmaplit", nil, func(T, K string) string { return "m := map[string]" + T + "{\"k\": " + K + "}; return m[\"k\"]" }, false},
	{"dmapset", nil, func(T, K string) string { return "m := map[string]" + T + "{}; m[\"k\"] = " + K + "; return m[\"k\"]" }, false},
	{"dglobal", func(T, K string) string { return "var G_NAME " + T + " = " + K }, func(T, K string) string { return "return G_NAME" }, false},
	{"dconst", func(T, K string) string { return "const C_NAME " + T + " = " + K }, func(T, K string) string { return "x := C_NAME; return x" }, false},
	{"dconstgroup", func(T, K string) string { return "const ( CA_NAME " + T + " = " + K + "; CB_NAME; CC_NAME )" }, func(T, K string) string { return "x := CC_NAME; return x" }, false},
	{"dvariadic", nil, func(T, K string) string { return "return first(" + K + ", " + K + ")" }, false},
	{"dmulti", nil, func(T, K string) string { return "var x, y " + T + " = " + K + ", " + K + "; return x + y - y" }, false},
}

// shortLit spells the constant so that its default type is the type under test (a float constant keeps a decimal point).
func shortLit(T, K string) string {
	if T == "float64" && !strings.ContainsAny(K, ".eIN") {
		return K + ".0"
	}
	return K
}

func declOK(short bool, t ntype) bool { return !short || t == tI32 || t == tF64 }

const headerEnd = "// end of header\n"

// header declares what every numeric script shares. The pol*/tramp* functions serve the second way every function is
// called (see script.call): through a script-side trampoline, right after a function whose locals left values of
// another type on the operand stack where the callee's own locals will live.
func header(T string) string {
	var sb strings.Builder
	sb.WriteString("type S struct { F " + T + " }\nvar GA " + T + "\nvar GB " + T + "\nfunc ident(a " + T + ") " + T + " { return a }\nfunc first(a ..." + T + ") " + T + " { return a[0] }\nfunc second(a ..." + T + ") " + T + " { return a[1] }\n")
	sb.WriteString("func pol0() { var a float64 = 1.5; b := 2.5; var c float64; d := a + b + c; e := 0.5; f := d * e; g := f; h := g; h = h }\n")
	sb.WriteString("func pol1() { var a int8 = 100; var b int8 = 3; c := a - b; d := c; e := d; f := e; g := f; h := g; h = h }\n")
	sb.WriteString("func pol2() { var a uint8 = 200; var b uint8 = 3; c := a - b; d := c; e := d; f := e; g := f; h := g; h = h }\n")
	sb.WriteString("func pol3() { var a uint32 = 4000000000; var b uint32 = 3; c := a - b; d := c; e := d; f := e; g := f; h := g; h = h }\n")
	sb.WriteString("func pol4() { a := \"s\"; b := a + a; c := b; d := true; e := d; f := []int{1}; g := f; h := g; h = h; e = e; c = c }\n")
	sb.WriteString("func pol5() { a := 7; b := a + 1; c := b; d := c; e := d; f := e; g := f; h := g; h = h }\n")
	// the polluter is called from the trampoline's own frame, with nothing else on the operand stack: its locals
	// then occupy exactly the slots the callee's arguments and locals take afterwards
	pol := "if p == 0 { pol0() } else if p == 1 { pol1() } else if p == 2 { pol2() } else if p == 3 { pol3() } else if p == 4 { pol4() } else { pol5() }"
	sb.WriteString("func tramp0(p int, f func() any) any { " + pol + "; return f() }\n")
	sb.WriteString("func tramp1(p int, f func(" + T + ") any, a " + T + ") any { " + pol + "; return f(a) }\n")
	sb.WriteString("func tramp2(p int, f func(" + T + ", " + T + ") any, a " + T + ", b " + T + ") any { " + pol + "; return f(a, b) }\n")
	for _, ct := range []ntype{tI8, tU8, tI32, tU32} {
		sb.WriteString("func trampsh_" + typeName[ct] + "(p int, f func(" + T + ", " + typeName[ct] + ") any, a " + T + ", n " + typeName[ct] + ") any { " + pol + "; return f(a, n) }\n")
	}
	sb.WriteString(headerEnd)
	return sb.String()
}

// kname makes a constant usable in an identifier.
func kname(k num) string {
	s := k.lit()
	s = strings.NewReplacer("-", "m", ".", "p", "+", "").Replace(s)
	return s
}

// ---- running ----------------------------------------------------------------------------------

type script struct {
	vm      *goat.VM
	src     string
	funcs   map[string]goatlang.Value
	calls   int
	via     string // set by call when the trampoline's result differs from the direct one
	noTramp bool   // replays of cases recorded before the trampolines existed
}

func load(src string, optimize bool) (*script, *ev.Failure) {
	goat.SetOptimize(optimize)
	defer goat.SetOptimize(true)
	vm := goat.New()
	r := vm.Eval(nil, src, goat.DefaultBudget)
	if r.Failed() {
		return nil, &ev.Failure{Kind: "script", Case: map[string]any{"src": src, "optimize": optimize}, Msg: "script of valid Go numeric functions rejected: " + r.ErrString()}
	}
	return &script{vm: vm, src: src, funcs: map[string]goatlang.Value{}}, nil
}

func (s *script) fn(name string) goatlang.Value {
	if f, ok := s.funcs[name]; ok {
		return f
	}
	f := s.vm.Get("main." + name)
	s.funcs[name] = f
	return f
}

// Case is the replayable form of one numeric case.
type Case struct {
	Header   string   `json:"header"`
	Func     string   `json:"func"` // full source of the function (and extra declarations)
	Name     string   `json:"name"`
	Args     []num    `json:"args"`
	Want     string   `json:"want"`
	Optimize bool     `json:"optimize"`
	Desc     string   `json:"desc"`
}

func sameFloat(a, b float64) bool {
	if math.IsNaN(a) && math.IsNaN(b) {
		return true
	}
	return math.Float64bits(a) == math.Float64bits(b)
}

// compare checks a goatlang result against the native outcome; returns "" if equal, else a description of what goatlang gave.
func compare(want outcome, r goat.Result) string {
	if r.Panic != nil {
		return "HOST PANIC: " + fmt.Sprint(r.Panic)
	}
	if want.Panics {
		if r.Err == nil {
			return "no error, values " + fmt.Sprint(r.RetStrings())
		}
		return ""
	}
	if r.Err != nil {
		return "error: " + r.Err.Error()
	}
	if len(r.Rets) != 1 {
		return fmt.Sprintf("%d values", len(r.Rets))
	}
	v := r.Rets[0]
	if want.Bool != nil {
		if v.Type() != goatlang.TypeBool || v.Bool() != *want.Bool {
			return describe(v)
		}
		return ""
	}
	w := *want.Num
	if v.Type() != goatType[w.T] {
		return describe(v)
	}
	if w.T == tF64 {
		if !sameFloat(v.Float64(), w.F) {
			return describe(v)
		}
		return ""
	}
	// the stored number must be exactly the integer (no fractional or out-of-range residue)
	if v.Float64() != float64(w.I) {
		return describe(v)
	}
	return ""
}

var goatTypeName = map[goatlang.Type]string{goatlang.TypeInt8: "int8", goatlang.TypeUint8: "uint8", goatlang.TypeInt32: "int32", goatlang.TypeUint32: "uint32", goatlang.TypeFloat64: "float64", goatlang.TypeBool: "bool", goatlang.TypeNil: "nil", 1: "untyped-number", goatlang.TypeString: "string"}

func describe(v goatlang.Value) string {
	tn, ok := goatTypeName[v.Type()]
	if !ok {
		tn = fmt.Sprintf("type#%d", v.Type())
	}
	switch {
	case v.Type() == goatlang.TypeBool:
		return fmt.Sprintf("bool(%v)", v.Bool())
	case v.Type() == goatlang.TypeFloat64:
		return fmt.Sprintf("%s(%v /*bits %#x*/)", tn, v.Float64(), math.Float64bits(v.Float64()))
	case v.Float64() == math.Trunc(v.Float64()) && math.Abs(v.Float64()) < 1e18:
		return fmt.Sprintf("%s(%d)", tn, int64(v.Float64()))
	}
	return fmt.Sprintf("%s(%v)", tn, v.Float64())
}

// call invokes a script function from the host twice: directly (a fresh operand stack), and through a script-side
// trampoline that first runs a function leaving locals of another type on the stack. Both must give the result Go
// defines; when they differ the trampoline's result is reported (s.via says so).
func (s *script) call(name string, args ...num) goat.Result {
	vals := make([]goatlang.Value, len(args))
	for i, a := range args {
		vals[i] = a.value()
	}
	s.via = ""
	direct := s.vm.Func(s.fn(name), 1, 100000, vals...)
	tramp := ""
	switch {
	case len(args) == 0:
		tramp = "tramp0"
	case len(args) == 1 && strings.HasPrefix(name, "f_mixshk"):
		tramp = "" // its single parameter has the count's type, not T: no trampoline of that shape
	case len(args) == 1:
		tramp = "tramp1"
	case len(args) == 2 && args[0].T == args[1].T && !strings.HasPrefix(name, "f_mixsh"):
		tramp = "tramp2"
	case len(args) == 2 && strings.HasPrefix(name, "f_mixsh"):
		tramp = "trampsh_" + typeName[args[1].T]
	}
	if tramp == "" || s.noTramp {
		return direct
	}
	s.calls++
	p := s.calls % 6
	tv := append([]goatlang.Value{goatlang.Int(p), s.fn(name)}, vals...)
	via := s.vm.Func(s.fn(tramp), 1, 100000, tv...)
	if resultKey(direct) != resultKey(via) {
		s.via = fmt.Sprintf(" [called through %s after pol%d(), whose locals stayed on the stack; called directly from the host it gives %s]", tramp, p, resultKey(direct))
		return via
	}
	return direct
}

func resultKey(r goat.Result) string {
	if r.Panic != nil {
		return "HOST PANIC"
	}
	if r.Err != nil {
		return "error"
	}
	var parts []string
	for _, v := range r.Rets {
		parts = append(parts, describe(v))
	}
	return strings.Join(parts, ",")
}

// nontrivial: the exact result differs from the mathematically unbounded one, or a boundary value is involved.
func nontrivialBin(op string, a, b num, want outcome) bool {
	if want.Panics {
		return true
	}
	if a.T == tF64 {
		for _, x := range []float64{a.F, b.F} {
			if x == 0 || math.IsInf(x, 0) || math.IsNaN(x) || math.Abs(x) >= 1<<53 || (x != 0 && math.Abs(x) < 1e-300) {
				return true
			}
		}
		return want.Num != nil && (math.IsInf(want.Num.F, 0) || math.IsNaN(want.Num.F))
	}
	lo, hi := rangeOf(a.T)
	for _, x := range []int64{a.I, b.I} {
		if x == lo || x == hi || x == hi-1 || x == lo+1 {
			return true
		}
	}
	if want.Num == nil {
		return false
	}
	var exact int64
	switch op {
	case "+":
		exact = a.I + b.I
	case "-":
		exact = a.I - b.I
	case "*":
		exact = a.I * b.I
	case "<<":
		if b.I >= 0 && b.I < 31 {
			exact = a.I << uint(b.I)
		} else {
			return true
		}
	case "/":
		return a.I < 0 != (b.I < 0) && a.I%b.I != 0 // truncation toward zero visible
	case "%":
		return a.I < 0 || b.I < 0
	case ">>":
		return a.I < 0 || b.I >= 8
	default:
		return a.I < 0 || b.I < 0
	}
	return exact != want.Num.I
}

// ---- unit: binary operators over pairs --------------------------------------------------------

func fnameBin(p string, op string, t ntype) string { return fmt.Sprintf("f_%s_%s_%s", p, opName[op], typeName[t]) }

func binScript(t ntype, T string) string {
	var sb strings.Builder
	sb.WriteString(header(T))
	for _, p := range binPositions {
		for _, op := range opsFor(t, !p.Compound) {
			fmt.Fprintf(&sb, "func %s(a %s, b %s) any { %s }\n", fnameBin(p.Name, op, t), T, T, p.Body(T, op))
		}
	}
	for _, p := range derivedPositions {
		for _, op := range cmpOps {
			fmt.Fprintf(&sb, "func %s(a %s, b %s) any { %s }\n", fnameBin(p.Name, op, t), T, T, p.Body(T, op))
		}
	}
	for _, p := range incPositions {
		for _, op := range []string{"++", "--"} {
			fmt.Fprintf(&sb, "func %s(a %s) any { %s }\n", fnameBin(p.Name, op, t), T, p.Body(T, op))
		}
	}
	for _, p := range unaryPositions {
		ops := []string{"-", "^"}
		if t == tF64 {
			ops = []string{"-"}
		}
		for _, op := range ops {
			n := "neg"
			if op == "^" {
				n = "com"
			}
			fmt.Fprintf(&sb, "func %s(a %s) any { %s }\n", fnameBin(p.Name, n, t), T, p.Body(T, op))
		}
	}
	// conversions to every type
	for _, to := range allTypes {
		for _, spell := range typeSpell[to] {
			fmt.Fprintf(&sb, "func f_conv_%s_%s(a %s) any { return %s(a) }\n", spell, typeName[t], T, spell)
			fmt.Fprintf(&sb, "func f_convg_%s_%s(a %s) any { GA = a; x := %s(GA); return x }\n", spell, typeName[t], T, spell)
		}
	}
	// shifts whose count has another integer type
	if t != tF64 {
		for _, ct := range []ntype{tI8, tU8, tI32, tU32} {
			if ct == t {
				continue
			}
			for _, op := range []string{"<<", ">>"} {
				fmt.Fprintf(&sb, "func f_mixsh_%s_%s_%s(a %s, n %s) any { return a %s n }\n", opName[op], typeName[t], typeName[ct], T, typeName[ct], op)
				fmt.Fprintf(&sb, "func f_mixshe_%s_%s_%s(a %s, n %s) any { x := a; x %s= n; return x }\n", opName[op], typeName[t], typeName[ct], T, typeName[ct], op)
				// an untyped constant shifted by a variable takes its type from where the result goes
				for _, k := range shiftConsts {
					fmt.Fprintf(&sb, "func f_mixshk%d_%s_%s_%s(n %s) any { var x %s = %d %s n; return x }\n", k, opName[op], typeName[t], typeName[ct], typeName[ct], T, k, op)
				}
			}
		}
	}
	return sb.String()
}

func reportBin(s *script, name, desc string, want outcome, optimize bool, args ...num) *ev.Failure {
	r := s.call(name, args...)
	got := compare(want, r)
	if got == "" {
		return nil
	}
	// extract the function's source line for the replay
	fsrc := ""
	for _, l := range strings.Split(s.src, "\n") {
		if strings.Contains(l, name) { // the function and the declarations made for it (their names contain its name)
			fsrc += l + "\n"
		}
	}
	fsrc = strings.TrimSuffix(fsrc, "\n")
	hdr := s.src[:strings.Index(s.src, headerEnd)+len(headerEnd)]
	c := Case{Header: hdr, Func: fsrc, Name: name, Args: args, Want: want.String(), Optimize: optimize, Desc: desc}
	return &ev.Failure{Kind: "call", Case: c, Msg: fmt.Sprintf("%s with %v (optimizer %v): Go gives %s, goatlang gives %s%s\n  %s", desc, args, onoff(optimize), want, got, s.via, fsrc)}
}

func onoff(b bool) string {
	if b {
		return "on"
	}
	return "off"
}

type loaded struct {
	t   ntype
	T   string
	opt bool
	s   *script
}

var scriptCache = map[string]*loaded{}

func getBinScript(t ntype, T string, opt bool) (*loaded, *ev.Failure) {
	key := fmt.Sprintf("bin/%d/%s/%v", t, T, opt)
	if l, ok := scriptCache[key]; ok {
		return l, nil
	}
	s, f := load(binScript(t, T), opt)
	if f != nil {
		return nil, f
	}
	l := &loaded{t: t, T: T, opt: opt, s: s}
	scriptCache[key] = l
	return l, nil
}

// checkPair runs every binary/compound position and operator on (a, b).
func checkPair(l *loaded, a, b num, count func(nontrivial bool)) *ev.Failure {
	for _, p := range binPositions {
		for _, op := range opsFor(l.t, !p.Compound) {
			want := native(op, a, b)
			count(nontrivialBin(op, a, b, want))
			if f := reportBin(l.s, fnameBin(p.Name, op, l.t), fmt.Sprintf("%s %s %s in position %q", l.T, op, l.T, p.Name), want, l.opt, a, b); f != nil {
				return f
			}
		}
	}
	for _, p := range derivedPositions {
		for _, op := range cmpOps {
			want := p.Want(op, a, b)
			count(true)
			if f := reportBin(l.s, fnameBin(p.Name, op, l.t), fmt.Sprintf("%s %s %s in position %q", l.T, op, l.T, p.Name), want, l.opt, a, b); f != nil {
				return f
			}
		}
	}
	return nil
}

func checkUnary(l *loaded, a num, count func(nontrivial bool)) *ev.Failure {
	lo, hi := rangeOf(l.t)
	edge := l.t != tF64 && (a.I == lo || a.I == hi)
	for _, p := range incPositions {
		for _, op := range []string{"++", "--"} {
			one := mk(l.t, 1)
			if l.t == tF64 {
				one = mkf(1)
			}
			bop := "+"
			if op == "--" {
				bop = "-"
			}
			want := native(bop, a, one)
			if p.Name == "iloop" {
				want = native(bop, *want.Num, one)
				want = native(bop, *want.Num, one)
			}
			count(edge || p.Name == "iloop")
			if f := reportBin(l.s, fnameBin(p.Name, op, l.t), fmt.Sprintf("%s%s in position %q", l.T, op, p.Name), want, l.opt, a); f != nil {
				return f
			}
		}
	}
	for _, p := range unaryPositions {
		ops := []string{"-", "^"}
		if l.t == tF64 {
			ops = []string{"-"}
		}
		for _, op := range ops {
			n := "neg"
			if op == "^" {
				n = "com"
			}
			want := nativeUnary(op, a)
			count(edge || (l.t != tF64 && a.I <= 0) || l.t == tU8 || l.t == tU32)
			if f := reportBin(l.s, fnameBin(p.Name, n, l.t), fmt.Sprintf("%s%s in position %q", op, l.T, p.Name), want, l.opt, a); f != nil {
				return f
			}
		}
	}
	for _, to := range allTypes {
		want, ok := nativeConvert(to, a)
		if !ok {
			continue
		}
		for _, spell := range typeSpell[to] {
			for _, pre := range []string{"f_conv_", "f_convg_"} {
				lossy := (a.T == tF64 && to != tF64 && a.F != math.Trunc(a.F)) || (a.T != tF64 && to != tF64 && want.I != a.I)
				count(lossy || edge)
				if f := reportBin(l.s, pre+spell+"_"+typeName[l.t], fmt.Sprintf("conversion %s(%s)", spell, l.T), onum(want), l.opt, a); f != nil {
					return f
				}
			}
		}
	}
	return nil
}

// shiftConsts are the untyped constants used as left operands of shifts by a variable (they fit every integer type).
var shiftConsts = []int64{1, 3, 100}

func checkMixedShift(l *loaded, a, n num, count func(bool)) *ev.Failure {
	if l.t == tF64 || n.T == l.t || n.T == tF64 {
		return nil
	}
	for _, op := range []string{"<<", ">>"} {
		for _, k := range shiftConsts {
			want := nativeShiftMixed(op, mk(l.t, k), n)
			count(true)
			name := fmt.Sprintf("f_mixshk%d_%s_%s_%s", k, opName[op], typeName[l.t], typeName[n.T])
			if f := reportBin(l.s, name, fmt.Sprintf("var x %s = %d %s n with n of type %s (an untyped constant shifted by a variable takes the declared type)", l.T, k, op, typeName[n.T]), want, l.opt, n); f != nil {
				return f
			}
		}
	}
	for _, op := range []string{"<<", ">>"} {
		want := nativeShiftMixed(op, a, n)
		count(true)
		for _, pre := range []string{"f_mixsh_", "f_mixshe_"} {
			if f := reportBin(l.s, pre+opName[op]+"_"+typeName[l.t]+"_"+typeName[n.T], fmt.Sprintf("%s %s %s (shift count of another type)", l.T, op, typeName[n.T]), want, l.opt, a, n); f != nil {
				return f
			}
		}
	}
	return nil
}

func counter(r *ev.Rec, disjoint bool, key func() string) func(bool) {
	return func(nt bool) {
		r.Eval(1)
		if nt {
			if disjoint {
				r.NontrivialN(1)
			} else {
				r.Nontrivial(ev.Hash(key()))
			}
		}
	}
}

// TestEnum8 walks the 8-bit operand space: all 65 536 pairs in the thorough tier, a seed-selected 1/16 slice in quick,
// for every operator and every position, optimizer on and off.
func TestEnum8(t *testing.T) {
	r := ev.R()
	r.Disjoint()
	stride := r.Pick(16, 1)
	off := int(uint64(r.Seed()) % uint64(stride))
	complete := true
	for _, ty := range []ntype{tI8, tU8} {
		for _, opt := range []bool{true, false} {
			for si, T := range typeSpell[ty] {
				if si > 0 && (opt == false || !r.Thorough()) {
					continue // alias spellings (byte) once, optimizer on, thorough only
				}
				l, f := getBinScript(ty, T, opt)
				if f != nil {
					r.Fail(t, f)
					return
				}
				lo, hi := rangeOf(ty)
				cnt := counter(r, true, nil)
				for a := lo; a <= hi; a++ {
					if !r.Mine(int(a - lo)) {
						continue
					}
					av := mk(ty, a)
					if f := checkUnary(l, av, cnt); f != nil {
						r.Fail(t, f)
						complete = false
						return
					}
					for b := lo; b <= hi; b++ {
						if stride > 1 && int((a-lo)*7+(b-lo))%stride != off {
							continue
						}
						bv := mk(ty, b)
						if f := checkPair(l, av, bv, cnt); f != nil {
							r.Fail(t, f)
							complete = false
							return
						}
						if (b-lo)%16 == 0 {
							for _, ct := range []ntype{tI8, tU8, tI32, tU32} {
								if f := checkMixedShift(l, av, mk(ct, b), cnt); f != nil {
									r.Fail(t, f)
									complete = false
									return
								}
							}
						}
					}
				}
				r.Sample(map[string]any{"type": T, "optimizer": onoff(opt), "operands": fmt.Sprintf("a=%d..%d x b=%d..%d (stride %d)", lo, hi, lo, hi, stride), "functions": "every operator x position of binScript"})
			}
		}
	}
	if stride == 1 {
		r.Exhaustive("all 65536 operand pairs of int8 and of uint8, every binary/compound operator and position, ++/--, unary, conversions of all 256 values; optimizer on and off", complete)
	}
}

// TestBoundary32 runs the full cross product of the boundary sets of int32, uint32 and float64.
func TestBoundary32(t *testing.T) {
	r := ev.R()
	r.Disjoint()
	idx := 0
	for _, ty := range []ntype{tI32, tU32, tF64} {
		for _, opt := range []bool{true, false} {
			for si, T := range typeSpell[ty] {
				if si > 0 && !opt {
					continue
				}
				l, f := getBinScript(ty, T, opt)
				if f != nil {
					r.Fail(t, f)
					return
				}
				bs := boundary(ty)
				cnt := counter(r, true, nil)
				for _, a := range bs {
					idx++
					if !r.Mine(idx) {
						continue
					}
					if f := checkUnary(l, a, cnt); f != nil {
						r.Fail(t, f)
						return
					}
					for _, b := range bs {
						if f := checkPair(l, a, b, cnt); f != nil {
							r.Fail(t, f)
							return
						}
					}
					for _, ct := range []ntype{tI8, tU8, tI32, tU32} {
						for _, n := range []int64{0, 1, 7, 8, 31, 32, 33, 100, -1, 255} {
							lo, hi := rangeOf(ct)
							if n < lo || n > hi {
								continue
							}
							if f := checkMixedShift(l, a, mk(ct, n), cnt); f != nil {
								r.Fail(t, f)
								return
							}
						}
					}
				}
				r.Sample(map[string]any{"type": T, "optimizer": onoff(opt), "boundary_values": len(bs), "first": bs[0].String(), "last": bs[len(bs)-1].String()})
			}
		}
	}
}

// TestRandom draws random operands for every type (rapid) and runs every operator/position on them.
func TestRandom(t *testing.T) {
	r := ev.R()
	r.RapidCheck(t, func(rt *rapid.T) *ev.Failure {
		ty := rapid.SampledFrom([]ntype{tI32, tU32, tF64, tI32, tU32, tF64, tI8, tU8}).Draw(rt, "type")
		opt := rapid.Bool().Draw(rt, "optimize")
		T := rapid.SampledFrom(typeSpell[ty]).Draw(rt, "spelling")
		l, f := getBinScript(ty, T, opt)
		if f != nil {
			return f
		}
		a, b := genNum(rt, ty, "a"), genNum(rt, ty, "b")
		cnt := counter(r, false, func() string { return fmt.Sprint(ty, opt, a, b) })
		r.Sample(map[string]any{"type": T, "optimizer": onoff(opt), "a": a.String(), "b": b.String()})
		if f := checkUnary(l, a, cnt); f != nil {
			return f
		}
		if f := checkPair(l, a, b, cnt); f != nil {
			return f
		}
		if ty != tF64 {
			ct := rapid.SampledFrom([]ntype{tI8, tU8, tI32, tU32}).Draw(rt, "counttype")
			n := genNum(rt, ct, "n")
			if rapid.Bool().Draw(rt, "smallcount") {
				n = mk(ct, int64(rapid.IntRange(0, 40).Draw(rt, "count")))
			}
			if f := checkMixedShift(l, a, n, cnt); f != nil {
				return f
			}
		}
		return nil
	})
}

// ---- unit: constants in every position --------------------------------------------------------

func constOK(op string, t ntype, k num, left bool) bool {
	if (op == "/" || op == "%") && !left {
		if (t == tF64 && k.F == 0) || (t != tF64 && k.I == 0) {
			return false // division by constant zero is a compile error in Go
		}
	}
	if op == "<<" || op == ">>" {
		if left {
			return false // untyped constant shifted by a variable takes its type from context: not part of this family
		}
		if k.I < 0 || k.I > 40 {
			return false
		}
	}
	return true
}

func fnameConst(p, op string, t ntype, k num) string {
	return fmt.Sprintf("k_%s_%s_%s_%s", p, opName[op], typeName[t], kname(k))
}

// constScript holds, for one type and one slice of the constant pool, every operator x constant position.
func constScript(t ntype, T string, ks []num) string {
	var sb strings.Builder
	sb.WriteString(header(T))
	for _, k := range ks {
		fmt.Fprintf(&sb, "const %s = %s\n", ukName(k.lit()), k.lit())
		for _, p := range constPositions {
			for _, op := range opsFor(t, !p.Compound) {
				if !constOK(op, t, k, p.ConstLeft) {
					continue
				}
				fmt.Fprintf(&sb, "func %s(a %s) any { %s }\n", fnameConst(p.Name, op, t, k), T, p.Body(T, op, k.lit()))
			}
		}
		for _, d := range declPositions {
			if !declOK(d.Short, t) {
				continue
			}
			name := "d_" + d.Name + "_" + typeName[t] + "_" + kname(k)
			if d.Pre != nil {
				sb.WriteString(strings.ReplaceAll(d.Pre(T, k.lit()), "NAME", name) + "\n")
			}
			fmt.Fprintf(&sb, "func %s() any { %s }\n", name, strings.ReplaceAll(d.Body(T, k.lit()), "NAME", name))
		}
	}
	return sb.String()
}

func checkConstChunk(t *testing.T, r *ev.Rec, ty ntype, T string, ks []num, opt bool, as []num) bool {
	src := constScript(ty, T, ks)
	s, f := load(src, opt)
	if f != nil {
		r.Fail(t, f)
		return false
	}
	cnt := counter(r, true, nil)
	for _, k := range ks {
		for _, d := range declPositions {
			if !declOK(d.Short, ty) {
				continue
			}
			name := "d_" + d.Name + "_" + typeName[ty] + "_" + kname(k)
			want := onum(k)
			lo, hi := rangeOf(ty)
			cnt(ty != tF64 && (k.I == lo || k.I == hi || k.I > math.MaxInt32 || k.I < 0) || (ty == tF64 && k.F == math.Trunc(k.F)))
			if f := reportBin(s, name, fmt.Sprintf("untyped constant %s in context %q of type %s", k.lit(), d.Name, T), want, opt); f != nil {
				r.Fail(t, f)
				return false
			}
		}
		for _, p := range constPositions {
			for _, op := range opsFor(ty, !p.Compound) {
				if !constOK(op, ty, k, p.ConstLeft) {
					continue
				}
				for _, a := range as {
					var want outcome
					kk := k
					if (op == "<<" || op == ">>") && ty != tF64 {
						// the count is an untyped constant: it does not have to fit the operand type
						want = nativeShiftMixed(op, a, mk(tU32, k.I))
					} else if p.ConstLeft {
						want = native(op, kk, a)
					} else {
						want = native(op, a, kk)
					}
					if p.ConstLeft {
						cnt(nontrivialBin(op, kk, a, want))
					} else {
						cnt(nontrivialBin(op, a, kk, want))
					}
					if f := reportBin(s, fnameConst(p.Name, op, ty, k), fmt.Sprintf("%s %s constant %s in position %q", T, op, k.lit(), p.Name), want, opt, a); f != nil {
						r.Fail(t, f)
						return false
					}
				}
			}
		}
	}
	return true
}

// TestConst8: every representable constant (256 per type in thorough, the boundary set in quick) against all 256 values.
func TestConst8(t *testing.T) {
	r := ev.R()
	r.Disjoint()
	full := r.Thorough()
	idx := 0
	for _, ty := range []ntype{tI8, tU8} {
		lo, hi := rangeOf(ty)
		var as []num
		for a := lo; a <= hi; a++ {
			as = append(as, mk(ty, a))
		}
		ks := constPool(ty, full)
		for _, opt := range []bool{true, false} {
			for i := 0; i < len(ks); i += 8 {
				idx++
				if !r.Mine(idx) {
					continue
				}
				end := i + 8
				if end > len(ks) {
					end = len(ks)
				}
				if !checkConstChunk(t, r, ty, typeSpell[ty][0], ks[i:end], opt, as) {
					return
				}
			}
			r.Sample(map[string]any{"type": typeName[ty], "optimizer": onoff(opt), "constants": len(ks), "operand_values": len(as)})
		}
	}
	if full {
		r.Exhaustive("every representable untyped constant x all 256 operand values of int8 and uint8, every constant position and declaration context", true)
	}
}

// TestConst32: boundary constants against boundary values for int32, uint32, float64.
func TestConst32(t *testing.T) {
	r := ev.R()
	r.Disjoint()
	idx := 0
	for _, ty := range []ntype{tI32, tU32, tF64} {
		ks := constPool(ty, false)
		as := boundary(ty)
		for _, opt := range []bool{true, false} {
			for si, T := range typeSpell[ty] {
				if si > 0 && !opt {
					continue
				}
				for i := 0; i < len(ks); i += 8 {
					idx++
					if !r.Mine(idx) {
						continue
					}
					end := i + 8
					if end > len(ks) {
						end = len(ks)
					}
					if !checkConstChunk(t, r, ty, T, ks[i:end], opt, as) {
						return
					}
				}
				r.Sample(map[string]any{"type": T, "optimizer": onoff(opt), "constants": len(ks), "operand_values": len(as)})
			}
		}
	}
}

// chain positions: two constants in a row on a variable operand, (a + K1) - K2 etc. Go evaluates left to right in the
// operand's type (rounding or wrapping after every step); an optimizer must not merge the constants.
var chainForms = []struct {
	Name string
	Ops  [2]string
	Body func(T, k1, k2 string) string
}{
	{"pp", [2]string{"+", "+"}, func(T, k1, k2 string) string { return "return a + " + k1 + " + " + k2 }},
	{"pm", [2]string{"+", "-"}, func(T, k1, k2 string) string { return "return a + " + k1 + " - " + k2 }},
	{"mp", [2]string{"-", "+"}, func(T, k1, k2 string) string { return "return a - " + k1 + " + " + k2 }},
	{"mm", [2]string{"-", "-"}, func(T, k1, k2 string) string { return "x := a; x = x - " + k1 + " - " + k2 + "; return x" }},
	{"ppg", [2]string{"+", "+"}, func(T, k1, k2 string) string { return "GA = a; GA = GA + " + k1 + " + " + k2 + "; return GA" }},
	{"pmparen", [2]string{"+", "-"}, func(T, k1, k2 string) string { return "return (a + " + k1 + ") - " + k2 }},
}

func chainConsts(t ntype) []num {
	switch t {
	case tF64:
		return []num{mkf(1), mkf(2), mkf(3), mkf(100), mkf(1e6), mkf(4000000000)}
	case tI8:
		return []num{mk(t, 1), mk(t, 100), mk(t, 127), mk(t, 64)}
	case tU8:
		return []num{mk(t, 1), mk(t, 200), mk(t, 255), mk(t, 128)}
	case tI32:
		return []num{mk(t, 1), mk(t, 3), mk(t, 2147483647), mk(t, 1<<30), mk(t, 65536)}
	}
	return []num{mk(t, 1), mk(t, 3), mk(t, 4294967295), mk(t, 1<<31), mk(t, 3000000000)}
}

// TestChains: every pair of chain constants x boundary operands x chain forms, all five types, optimizer on and off.
func TestChains(t *testing.T) {
	r := ev.R()
	r.Disjoint()
	idx := 0
	for _, ty := range allTypes {
		T := typeSpell[ty][0]
		ks := chainConsts(ty)
		var sb strings.Builder
		sb.WriteString(header(T))
		for i, k1 := range ks {
			for j, k2 := range ks {
				for _, f := range chainForms {
					fmt.Fprintf(&sb, "func c_%s_%d_%d(a %s) any { %s }\n", f.Name, i, j, T, f.Body(T, intLit(k1), intLit(k2)))
				}
			}
		}
		for _, opt := range []bool{true, false} {
			idx++
			if !r.Mine(idx) {
				continue
			}
			s, fl := load(sb.String(), opt)
			if fl != nil {
				r.Fail(t, fl)
				return
			}
			cnt := counter(r, true, nil)
			as := boundary(ty)
			if ty == tF64 {
				as = append(as, mkf(0.1), mkf(1e-20), mkf(0.3), mkf(1e16), mkf(-0.1))
			}
			for i, k1 := range ks {
				for j, k2 := range ks {
					for _, f := range chainForms {
						for _, a := range as {
							w1 := native(f.Ops[0], a, k1)
							want := native(f.Ops[1], *w1.Num, k2)
							cnt(true)
							if fl := reportBin(s, fmt.Sprintf("c_%s_%d_%d", f.Name, i, j), fmt.Sprintf("%s %s %s %s %s (two constants in a row, form %q)", T, f.Ops[0], intLit(k1), f.Ops[1], intLit(k2), f.Name), want, opt, a); fl != nil {
								r.Fail(t, fl)
								return
							}
						}
					}
				}
			}
			r.Sample(map[string]any{"type": T, "optimizer": onoff(opt), "chain_constants": len(ks), "forms": len(chainForms)})
		}
	}
}

// intLit spells a constant without a fractional part (an untyped integer constant, also for float operands).
func intLit(k num) string {
	if k.T == tF64 {
		return fmt.Sprintf("%.0f", k.F)
	}
	return fmt.Sprint(k.I)
}

// TestRandomConst: random constants and operands for the 32-bit and float types.
func TestRandomConst(t *testing.T) {
	r := ev.R()
	r.RapidCheck(t, func(rt *rapid.T) *ev.Failure {
		ty := rapid.SampledFrom([]ntype{tI32, tU32, tF64}).Draw(rt, "type")
		opt := rapid.Bool().Draw(rt, "optimize")
		T := rapid.SampledFrom(typeSpell[ty]).Draw(rt, "spelling")
		var k num
		if ty == tF64 {
			// constants with a short exact decimal spelling
			k = mkf(float64(rapid.IntRange(-4000000, 4000000).Draw(rt, "kf")) / float64(rapid.SampledFrom([]int{1, 2, 4, 8, 1000}).Draw(rt, "kd")))
		} else {
			k = genNum(rt, ty, "k")
		}
		a := genNum(rt, ty, "a")
		src := constScript(ty, T, []num{k})
		s, f := load(src, opt)
		if f != nil {
			return f
		}
		cnt := counter(r, false, func() string { return fmt.Sprint(ty, opt, k, a) })
		r.Sample(map[string]any{"type": T, "optimizer": onoff(opt), "constant": k.lit(), "a": a.String()})
		for _, d := range declPositions {
			if !declOK(d.Short, ty) {
				continue
			}
			name := "d_" + d.Name + "_" + typeName[ty] + "_" + kname(k)
			cnt(true)
			if f := reportBin(s, name, fmt.Sprintf("untyped constant %s in context %q of type %s", k.lit(), d.Name, T), onum(k), opt); f != nil {
				return f
			}
		}
		for _, p := range constPositions {
			for _, op := range opsFor(ty, !p.Compound) {
				if !constOK(op, ty, k, p.ConstLeft) {
					continue
				}
				var want outcome
				if (op == "<<" || op == ">>") && ty != tF64 {
					want = nativeShiftMixed(op, a, mk(tU32, k.I))
				} else if p.ConstLeft {
					want = native(op, k, a)
				} else {
					want = native(op, a, k)
				}
				if p.ConstLeft {
					cnt(nontrivialBin(op, k, a, want))
				} else {
					cnt(nontrivialBin(op, a, k, want))
				}
				if f := reportBin(s, fnameConst(p.Name, op, ty, k), fmt.Sprintf("%s %s constant %s in position %q", T, op, k.lit(), p.Name), want, opt, a); f != nil {
					return f
				}
			}
		}
		return nil
	})
}

// ---- replay -----------------------------------------------------------------------------------

func TestReplay(t *testing.T) {
	ev.R().RunReplays(t, map[string]ev.ReplayFunc{
		"call": func(raw json.RawMessage) *ev.Failure {
			var c Case
			if err := json.Unmarshal(raw, &c); err != nil {
				return &ev.Failure{Kind: "call", Case: string(raw), Msg: "bad replay: " + err.Error()}
			}
			s, f := load(c.Header+c.Func+"\n", c.Optimize)
			if f != nil {
				return f
			}
			s.noTramp = !strings.Contains(c.Header, headerEnd)
			var r goat.Result
			for i := 0; i < 6; i++ { // every pol variant
				r = s.call(c.Name, c.Args...)
				if s.via != "" {
					break
				}
			}
			got := "error: " + r.ErrString()
			if !r.Failed() && len(r.Rets) == 1 {
				got = describe(r.Rets[0])
			}
			want := c.Want
			if want == "run-time panic" {
				if r.Failed() && r.Panic == nil {
					return nil
				}
			} else if got == want {
				return nil
			}
			return &ev.Failure{Kind: "call", Case: c, Msg: fmt.Sprintf("%s with %v (optimizer %s): Go gives %s, goatlang gives %s\n  %s", c.Desc, c.Args, onoff(c.Optimize), want, got, c.Func)}
		},
		"named": replayNamed,
		"script": func(raw json.RawMessage) *ev.Failure {
			var c struct {
				Src      string `json:"src"`
				Optimize bool   `json:"optimize"`
			}
			json.Unmarshal(raw, &c)
			_, f := load(c.Src, c.Optimize)
			return f
		},
	})
}
