package c04

// Named numeric types. A package declares `type Level G` and a function declares its own `type Level L` (another
// numeric kind under the same name, as Go's block scoping allows); both are used as the declared type of variables,
// function-literal parameters and results, slice and map elements, struct fields and conversions. Every use must
// convert untyped constants to the kind that the name denotes at that place and compute in it. Oracle: a native model
// of the five kinds (two's complement wrap, truncated division, IEEE-754).

import (
	"encoding/json"
	"fmt"
	"strings"
	"testing"

	"verif/internal/ev"
	"verif/internal/goat"
)

type NCase struct {
	Global   string `json:"global"`   // kind of the package-level Level
	Local    string `json:"local"`    // kind of the function's own Level
	BaseUse  int    `json:"base_use"` // 0 no package-level use before the function; 1 a typed variable before; 2 after
	Nested   bool   `json:"nested"`   // the local type is declared in a nested block
	Optimize bool   `json:"optimize"`
}

var nKinds = []string{"int8", "uint8", "int", "uint32", "float64"}

// per kind: constants c, d (both representable) chosen so that x = c; x += d; (x, x/2) differs between any two kinds:
// the sum wraps for the integer kinds and lands in the upper half of the unsigned ones
var nConsts = map[string][2]string{"int8": {"100", "100"}, "uint8": {"250", "140"}, "int": {"2147483647", "1"}, "uint32": {"4000000000", "3000000000"}, "float64": {"1", "2"}}

// nModel gives what Go prints for x := K(c); x += d; println(x, x/2)
func nModel(kind string) string {
	switch kind {
	case "int8":
		x := int8(100)
		x += 100
		return fmt.Sprint(x, x/2)
	case "uint8":
		x := uint8(250)
		x += 140
		return fmt.Sprint(x, x/2)
	case "int":
		x := int32(2147483647)
		x += 1
		return fmt.Sprint(x, x/2)
	case "uint32":
		x := uint32(4000000000)
		x += 3000000000
		return fmt.Sprint(x, x/2)
	}
	x := float64(1)
	x += 2
	return fmt.Sprint(x, x/2)
}

// uses renders one block of observations of the name Level (kind k) with the given tag.
func nUses(sb, want *strings.Builder, ind, tag, k string, local bool) {
	c, d := nConsts[k][0], nConsts[k][1]
	w := nModel(k)
	line := func(format string, a ...any) { sb.WriteString(ind + fmt.Sprintf(format, a...) + "\n") }
	line("var %sa Level = %s", tag, c)
	line("%sa += %s", tag, d)
	line("fmt.Println(%q, %sa, %sa/2)", tag+"decl", tag, tag)
	fmt.Fprintf(want, "%sdecl %s\n", tag, w)
	line("%sb := []Level{%s}", tag, c)
	line("%sb[0] += %s", tag, d)
	line("fmt.Println(%q, %sb[0], %sb[0]/2)", tag+"elem", tag, tag)
	fmt.Fprintf(want, "%selem %s\n", tag, w)
	line("%sc := Level(%s)", tag, c)
	line("%sc += %s", tag, d)
	line("fmt.Println(%q, %sc, %sc/2)", tag+"conv", tag, tag)
	fmt.Fprintf(want, "%sconv %s\n", tag, w)
	line("%sm := map[string]Level{\"k\": %s}", tag, c)
	line("%sm[\"k\"] += %s", tag, d)
	line("fmt.Println(%q, %sm[\"k\"], %sm[\"k\"]/2)", tag+"map", tag, tag)
	fmt.Fprintf(want, "%smap %s\n", tag, w)
	if local {
		line("%sf := func(v Level) Level {", tag)
		line("\tv += %s", d)
		line("\treturn v")
		line("}")
		line("%sr := %sf(%s)", tag, tag, c)
		line("fmt.Println(%q, %sr, %sr/2)", tag+"param", tag, tag)
		fmt.Fprintf(want, "%sparam %s\n", tag, w)
		line("type %sbox struct {", tag)
		line("\tV Level")
		line("}")
		line("%so := &%sbox{V: %s}", tag, tag, c)
		line("%so.V += %s", tag, d)
		line("fmt.Println(%q, %so.V, %so.V/2)", tag+"field", tag, tag)
		fmt.Fprintf(want, "%sfield %s\n", tag, w)
	}
}

func (c *NCase) build() (src, want string) {
	var sb, wb, wb2 strings.Builder
	sb.WriteString("import \"fmt\"\n")
	fmt.Fprintf(&sb, "type Level %s\n", c.Global)
	sb.WriteString("type Rec struct {\n\tA Level\n}\n")
	gc := nConsts[c.Global][0]
	if c.BaseUse == 1 {
		fmt.Fprintf(&sb, "var base Level = %s\n", gc)
	}
	fmt.Fprintf(&sb, "func bump(v Level) Level {\n\tv += %s\n\treturn v\n}\n", nConsts[c.Global][1])
	sb.WriteString("func probe() {\n")
	ind := "\t"
	if c.Nested {
		sb.WriteString("\tif len(\"x\") == 1 {\n")
		ind = "\t\t"
	}
	fmt.Fprintf(&sb, "%stype Level %s\n", ind, c.Local)
	// a struct type of the package and a struct type of the function under one name as well
	fmt.Fprintf(&sb, "%stype Rec struct {\n%s\tB string\n%s\tC Level\n%s}\n", ind, ind, ind, ind)
	fmt.Fprintf(&sb, "%slrec := &Rec{B: \"x\", C: %s}\n%slrec.C += %s\n%sfmt.Println(\"lrec\", lrec.B, lrec.C, lrec.C/2)\n", ind, nConsts[c.Local][0], ind, nConsts[c.Local][1], ind)
	fmt.Fprintf(&wb, "lrec x %s\n", nModel(c.Local))
	nUses(&sb, &wb, ind, "loc", c.Local, true)
	if c.Nested {
		sb.WriteString("\t}\n")
		// after the block the package-level type is in force again
		nUses(&sb, &wb, "\t", "out", c.Global, true)
	}
	sb.WriteString("}\n")
	if c.BaseUse == 2 {
		fmt.Fprintf(&sb, "var base Level = %s\n", gc)
	}
	sb.WriteString("func after() {\n")
	nUses(&sb, &wb, "\t", "glo", c.Global, true)
	fmt.Fprintf(&sb, "\tgrec := &Rec{A: %s}\n\tgrec.A += %s\n\tfmt.Println(\"grec\", grec.A, grec.A/2)\n", gc, nConsts[c.Global][1])
	fmt.Fprintf(&wb, "grec %s\n", nModel(c.Global))
	fmt.Fprintf(&sb, "\tgp := bump(%s)\n\tfmt.Println(\"gparam\", gp, gp/2)\n", gc)
	fmt.Fprintf(&wb, "gparam %s\n", nModel(c.Global))
	sb.WriteString("}\n")
	// two blocks of one function declare a struct type of one name, with the same field names; the element types differ
	sb.WriteString("func twins() {\n")
	for i, k := range []string{c.Global, c.Local} {
		fmt.Fprintf(&sb, "\tif len(\"x\") == 1 {\n\t\ttype Bag struct {\n\t\t\tVals []%s\n\t\t\tM map[string]%s\n\t\t}\n", k, k)
		fmt.Fprintf(&sb, "\t\tb := &Bag{M: map[string]%s{}}\n\t\tb.Vals = append(b.Vals, %s)\n\t\tb.Vals[0] += %s\n\t\tfmt.Println(\"bag%d\", b.Vals[0], b.Vals[0]/2)\n", k, nConsts[k][0], nConsts[k][1], i)
		fmt.Fprintf(&sb, "\t\tb.M[\"k\"] = %s\n\t\tb.M[\"k\"] += %s\n\t\tfmt.Println(\"bagm%d\", b.M[\"k\"], b.M[\"k\"]/2)\n\t}\n", nConsts[k][0], nConsts[k][1], i)
		fmt.Fprintf(&wb2, "bag%d %s\nbagm%d %s\n", i, nModel(k), i, nModel(k))
	}
	sb.WriteString("}\n")
	sb.WriteString("probe()\nafter()\n")
	if c.BaseUse != 0 {
		fmt.Fprintf(&sb, "base += %s\nfmt.Println(\"base\", base, base/2)\n", nConsts[c.Global][1])
		fmt.Fprintf(&wb, "base %s\n", nModel(c.Global))
	}
	sb.WriteString("twins()\n")
	wb.WriteString(wb2.String())
	return sb.String(), wb.String()
}

func checkNamed(c *NCase) (f *ev.Failure) {
	src, want := c.build()
	mk := func(format string, a ...any) *ev.Failure {
		return &ev.Failure{Kind: "named", Case: c, Msg: fmt.Sprintf("package-level `type Level %s`, function-level `type Level %s` (optimizer %s): ", c.Global, c.Local, onoff(c.Optimize)) + fmt.Sprintf(format, a...) + "\n--- script\n" + src}
	}
	defer func() {
		if r := recover(); r != nil {
			f = mk("host panic: %v", r)
		}
	}()
	goat.SetOptimize(c.Optimize)
	defer goat.SetOptimize(true)
	r := goat.EvalOnce(src)
	if r.Failed() {
		return mk("script failed: %s", r.ErrString())
	}
	if r.Stdout != want {
		g, w := strings.Split(r.Stdout, "\n"), strings.Split(want, "\n")
		for i := range w {
			if i >= len(g) || g[i] != w[i] {
				gl := ""
				if i < len(g) {
					gl = g[i]
				}
				return mk("output line %d is %q, Go prints %q", i+1, gl, w[i])
			}
		}
		return mk("extra output %q", r.Stdout[len(want):])
	}
	return nil
}

func TestNamedTypes(t *testing.T) {
	r := ev.R()
	r.Disjoint()
	n := 0
	for _, g := range nKinds {
		for _, l := range nKinds {
			for use := 0; use < 3; use++ {
				for _, nested := range []bool{false, true} {
					for _, opt := range []bool{true, false} {
						n++
						if !r.Mine(n) {
							continue
						}
						c := &NCase{Global: g, Local: l, BaseUse: use, Nested: nested, Optimize: opt}
						r.Eval(1)
						if g != l {
							r.NontrivialN(1)
						}
						if n%61 == 1 {
							src, _ := c.build()
							r.Sample(map[string]any{"case": c, "script": src})
						}
						if f := checkNamed(c); f != nil {
							r.Fail(t, f)
							return
						}
					}
				}
			}
		}
	}
	r.Exhaustive("every ordered pair of kinds for a package-level and a function-level named numeric type of the same name, package-level use before / after / absent, local type at function level or in a nested block, optimizer on and off", true)
}

func replayNamed(raw json.RawMessage) *ev.Failure {
	var c NCase
	if err := json.Unmarshal(raw, &c); err != nil {
		return &ev.Failure{Kind: "named", Case: string(raw), Msg: "bad replay: " + err.Error()}
	}
	return checkNamed(&c)
}
