// C05 — expressions group by Go's operator precedence and associativity.
//
// Domain: token sequences o1 op1 o2 [op2 o3 [op3 o4 …]] over Go's 19 binary operators, operands being
// int32 / bool variables (or small literals in the sampled units) with optional unary prefixes and one
// optional parenthesised sub-sequence; enumerated exhaustively up to three operators, sampled beyond.
// Oracle: go/parser gives the grouping the Go specification prescribes; a small evaluator over that AST
// with native int32/bool operators gives the value. Valuations are searched so that Go's grouping is
// distinguished from the alternative groupings.
package c05

import (
	"encoding/json"
	"fmt"
	"go/ast"
	"go/parser"
	"go/scanner"
	"go/token"
	"strconv"
	"strings"
	"testing"

	"github.com/philhassey/goatlang"
	"pgregory.net/rapid"

	"verif/internal/ev"
	"verif/internal/goat"
	"verif/internal/rx"
)

func TestMain(m *testing.M) { ev.Main(m, "C05") }

var binOps = []string{"*", "/", "%", "<<", ">>", "&", "&^", "+", "-", "|", "^", "==", "!=", "<", "<=", ">", ">=", "&&", "||"}

// ---- expression description -------------------------------------------------------------------

// Atom is an operand: a variable (or literal) with an optional unary prefix, or a parenthesised group.
type Atom struct {
	Prefix string `json:"prefix,omitempty"` // "", "-", "^", "!"
	Name   string `json:"name,omitempty"`   // variable name or literal; empty for a group
	Group  *Expr  `json:"group,omitempty"`
}

// Expr is a flat sequence atom0 op0 atom1 op1 ….
type Expr struct {
	Atoms []Atom   `json:"atoms"`
	Ops   []string `json:"ops"`
}

func (a Atom) text(compact bool) string {
	if a.Group != nil {
		return a.Prefix + "(" + a.Group.text(compact) + ")"
	}
	return a.Prefix + a.Name
}

func (e *Expr) text(compact bool) string {
	var sb strings.Builder
	for i, a := range e.Atoms {
		if i > 0 {
			if compact {
				sb.WriteString(e.Ops[i-1])
			} else {
				sb.WriteString(" " + e.Ops[i-1] + " ")
			}
		}
		sb.WriteString(a.text(compact))
	}
	return sb.String()
}

// ---- values -----------------------------------------------------------------------------------

type val struct {
	isBool bool
	i      int32
	b      bool
}

func (v val) String() string {
	if v.isBool {
		return fmt.Sprint(v.b)
	}
	return fmt.Sprint(v.i)
}

type evalErr struct{ why string }

func bad(why string) { panic(evalErr{why}) }

func binop(op string, x, y val) val {
	switch op {
	case "&&", "||":
		if !x.isBool || !y.isBool {
			bad("type")
		}
		if op == "&&" {
			return val{isBool: true, b: x.b && y.b}
		}
		return val{isBool: true, b: x.b || y.b}
	case "==", "!=":
		if x.isBool != y.isBool {
			bad("type")
		}
		eq := x.i == y.i && x.b == y.b
		if op == "!=" {
			eq = !eq
		}
		return val{isBool: true, b: eq}
	}
	if x.isBool || y.isBool {
		bad("type")
	}
	a, b := x.i, y.i
	switch op {
	case "<":
		return val{isBool: true, b: a < b}
	case "<=":
		return val{isBool: true, b: a <= b}
	case ">":
		return val{isBool: true, b: a > b}
	case ">=":
		return val{isBool: true, b: a >= b}
	case "+":
		return val{i: a + b}
	case "-":
		return val{i: a - b}
	case "*":
		return val{i: a * b}
	case "/":
		if b == 0 {
			bad("div0")
		}
		return val{i: a / b}
	case "%":
		if b == 0 {
			bad("div0")
		}
		return val{i: a % b}
	case "&":
		return val{i: a & b}
	case "&^":
		return val{i: a &^ b}
	case "|":
		return val{i: a | b}
	case "^":
		return val{i: a ^ b}
	case "<<":
		if b < 0 {
			bad("negshift")
		}
		return val{i: a << uint32(b)}
	case ">>":
		if b < 0 {
			bad("negshift")
		}
		return val{i: a >> uint32(b)}
	}
	bad("op " + op)
	return val{}
}

func unop(op string, x val) val {
	switch op {
	case "":
		return x
	case "-":
		if x.isBool {
			bad("type")
		}
		return val{i: -x.i}
	case "^":
		if x.isBool {
			bad("type")
		}
		return val{i: ^x.i}
	case "!":
		if !x.isBool {
			bad("type")
		}
		return val{isBool: true, b: !x.b}
	}
	bad("unop")
	return val{}
}

type env map[string]val

func lookupName(name string, e env) val {
	if v, ok := e[name]; ok {
		return v
	}
	if n, err := strconv.ParseInt(name, 0, 64); err == nil { // Go literal syntax: 010 is octal, 0x10 hexadecimal
		return val{i: int32(n)}
	}
	if len(name) >= 3 && name[0] == '\'' { // character literal
		if r, _, _, err := strconv.UnquoteChar(name[1:len(name)-1], '\''); err == nil {
			return val{i: r}
		}
	}
	if name == "true" {
		return val{isBool: true, b: true}
	}
	if name == "false" {
		return val{isBool: true, b: false}
	}
	bad("name " + name)
	return val{}
}

// evalGo evaluates the go/parser AST: this is the reference (Go's grouping, Go's int32/bool operators).
func evalGo(n ast.Expr, e env) val {
	switch x := n.(type) {
	case *ast.ParenExpr:
		return evalGo(x.X, e)
	case *ast.Ident:
		return lookupName(x.Name, e)
	case *ast.BasicLit:
		return lookupName(x.Value, e)
	case *ast.UnaryExpr:
		return unop(x.Op.String(), evalGo(x.X, e))
	case *ast.BinaryExpr:
		l := evalGo(x.X, e)
		// && and || short-circuit; operands have no side effects here, and a panicking right operand
		// that Go would skip must not count
		if x.Op == token.LAND && l.isBool && !l.b {
			if !typeOf(x.Y).isBool {
				bad("type")
			}
			return val{isBool: true, b: false}
		}
		if x.Op == token.LOR && l.isBool && l.b {
			if !typeOf(x.Y).isBool {
				bad("type")
			}
			return val{isBool: true, b: true}
		}
		return binop(x.Op.String(), l, evalGo(x.Y, e))
	}
	bad("node")
	return val{}
}

// typeOf infers the static type of the AST (names starting with p..s are bool, others int32); panics on a type error.
func typeOf(n ast.Expr) val {
	e := env{}
	return evalShape(n, e)
}

func nameIsBool(name string) bool {
	return name == "true" || name == "false" || (len(name) == 1 && name[0] >= 'p' && name[0] <= 'z')
}

func evalShape(n ast.Expr, e env) val {
	switch x := n.(type) {
	case *ast.ParenExpr:
		return evalShape(x.X, e)
	case *ast.Ident:
		return val{isBool: nameIsBool(x.Name)}
	case *ast.BasicLit:
		return val{}
	case *ast.UnaryExpr:
		v := evalShape(x.X, e)
		if (x.Op == token.NOT) != v.isBool {
			bad("type")
		}
		return v
	case *ast.BinaryExpr:
		l, r := evalShape(x.X, e), evalShape(x.Y, e)
		switch x.Op {
		case token.LAND, token.LOR:
			if !l.isBool || !r.isBool {
				bad("type")
			}
			return val{isBool: true}
		case token.EQL, token.NEQ:
			if l.isBool != r.isBool {
				bad("type")
			}
			return val{isBool: true}
		case token.LSS, token.LEQ, token.GTR, token.GEQ:
			if l.isBool || r.isBool {
				bad("type")
			}
			return val{isBool: true}
		default:
			if l.isBool || r.isBool {
				bad("type")
			}
			return val{}
		}
	}
	bad("node")
	return val{}
}

// isConst: the sub-expression contains no variable.
func isConst(n ast.Expr) bool {
	switch x := n.(type) {
	case *ast.ParenExpr:
		return isConst(x.X)
	case *ast.BasicLit:
		return true
	case *ast.UnaryExpr:
		return isConst(x.X)
	case *ast.BinaryExpr:
		return isConst(x.X) && isConst(x.Y)
	}
	return false
}

func hasConstBinary(n ast.Expr) bool {
	switch x := n.(type) {
	case *ast.ParenExpr:
		return hasConstBinary(x.X)
	case *ast.UnaryExpr:
		return hasConstBinary(x.X)
	case *ast.BinaryExpr:
		if isConst(x.X) && isConst(x.Y) {
			return true
		}
		return hasConstBinary(x.X) || hasConstBinary(x.Y)
	}
	return false
}

// hasVarShift reports whether a constant-valued expression contains a shift whose count is not constant.
func hasVarShift(n ast.Expr) bool {
	switch x := n.(type) {
	case *ast.ParenExpr:
		return hasVarShift(x.X)
	case *ast.UnaryExpr:
		return hasVarShift(x.X)
	case *ast.BinaryExpr:
		if (x.Op == token.SHL || x.Op == token.SHR) && !isConst(x.Y) {
			return true
		}
		return hasVarShift(x.X) || hasVarShift(x.Y)
	}
	return false
}

// untypedOverVarShift reports whether the expression applies unary minus, a binary operator other than a shift, or a left
// shift by a constant count to constant-valued operands of which one contains a shift by a variable count: Go gives the constant the type of the
// context (int32 here) before shifting, so the arithmetic that follows wraps; goatlang keeps computing in untyped
// numbers until a typed operand arrives (known finding c05-untyped-arith-over-variable-shift).
func untypedOverVarShift(n ast.Expr) bool {
	switch x := n.(type) {
	case *ast.ParenExpr:
		return untypedOverVarShift(x.X)
	case *ast.UnaryExpr:
		if x.Op == token.SUB && constValued(x.X, false) && hasVarShift(x.X) {
			return true
		}
		return untypedOverVarShift(x.X)
	case *ast.BinaryExpr:
		if x.Op != token.SHL && x.Op != token.SHR && constValued(x.X, false) && constValued(x.Y, false) && (hasVarShift(x.X) || hasVarShift(x.Y)) {
			return true
		}
		// a further shift by a constant count is folded like any other untyped arithmetic (a shift by a variable is not:
		// its result is reduced to 32 bits)
		if x.Op == token.SHL && isConst(x.Y) && constValued(x.X, false) && hasVarShift(x.X) {
			return true
		}
		return untypedOverVarShift(x.X) || untypedOverVarShift(x.Y)
	}
	return false
}

func try(f func() val) (v val, ok bool, why string) {
	defer func() {
		if r := recover(); r != nil {
			if ee, isEE := r.(evalErr); isEE {
				ok, why = false, ee.why
				return
			}
			panic(r)
		}
	}()
	return f(), true, ""
}

// ---- alternative groupings --------------------------------------------------------------------

type alt func(e env) val

// alts enumerates every binary tree over the atoms (groups evaluated with Go's grouping inside), including
// the trees in which a unary prefix of the leftmost atom of a subtree applies to the whole subtree.
func alts(x *Expr, goGroup map[*Expr]ast.Expr) []alt {
	var gen func(i, j int, strip bool) []alt
	leaf := func(i int, strip bool) alt {
		a := x.Atoms[i]
		return func(e env) val {
			var v val
			if a.Group != nil {
				v = evalGo(goGroup[a.Group], e)
			} else {
				v = lookupName(a.Name, e)
			}
			if strip {
				return v
			}
			return unop(a.Prefix, v)
		}
	}
	gen = func(i, j int, strip bool) []alt {
		if i == j {
			return []alt{leaf(i, strip)}
		}
		var res []alt
		for k := i; k < j; k++ {
			op := x.Ops[k]
			for _, l := range gen(i, k, strip) {
				for _, r := range gen(k+1, j, false) {
					l, r := l, r
					res = append(res, func(e env) val {
						lv := l(e)
						if op == "&&" && lv.isBool && !lv.b {
							return val{isBool: true, b: false}
						}
						if op == "||" && lv.isBool && lv.b {
							return val{isBool: true, b: true}
						}
						return binop(op, lv, r(e))
					})
				}
			}
		}
		if !strip && x.Atoms[i].Prefix != "" {
			p := x.Atoms[i].Prefix
			for _, t := range gen(i, j, true) {
				t := t
				res = append(res, func(e env) val { return unop(p, t(e)) })
			}
		}
		return res
	}
	return gen(0, len(x.Atoms)-1, false)
}

// ---- case construction ------------------------------------------------------------------------

var bigPool = []int32{2147483647, -2147483648, 123456789, 1013904223, -987654321, 1664525, 46341, -46341, 65537, 99999989}

var intPool = []int32{0, 1, 2, 3, 5, 7, -1, -2, -3, 4, 8, 13, -7, 31, 100, -100, 6, 1 << 20, -(1 << 30), 12}

type Case struct {
	Text   string           `json:"text"`
	Vals   []map[string]any `json:"valuations"`
	Want   []string         `json:"want"`
	IsBool bool             `json:"is_bool"`
	// ConstValued: variables occur only as shift counts, every other operand is a constant. Such an expression has
	// no type of its own in the REPL dialect (it takes one from where it is used); only its value is compared.
	ConstValued bool `json:"const_valued,omitempty"`
}

// constValued reports whether every identifier of the expression is (part of) the count of a shift.
func constValued(n ast.Expr, inCount bool) bool {
	switch x := n.(type) {
	case *ast.ParenExpr:
		return constValued(x.X, inCount)
	case *ast.Ident:
		return inCount || x.Name == "true" || x.Name == "false"
	case *ast.BasicLit:
		return true
	case *ast.UnaryExpr:
		return constValued(x.X, inCount)
	case *ast.BinaryExpr:
		if x.Op == token.SHL || x.Op == token.SHR {
			return constValued(x.X, inCount) && constValued(x.Y, true)
		}
		return constValued(x.X, inCount) && constValued(x.Y, inCount)
	}
	return false
}

func names(x *Expr, into map[string]bool) {
	for _, a := range x.Atoms {
		if a.Group != nil {
			names(a.Group, into)
		} else if a.Name != "" && (a.Name[0] < '0' || a.Name[0] > '9') && a.Name != "true" && a.Name != "false" {
			into[a.Name] = true
		}
	}
}

var intNames = []string{"a", "b", "c", "d", "e", "g"}
var boolNames = []string{"p", "q", "r", "s", "t", "u"}

// build parses the text with go/parser, type-checks it, searches distinguishing valuations and returns the case.
// ok=false means the expression is not well-typed Go (not part of the domain).
func build(x *Expr, compact bool) (c *Case, nDist, nAlts int, ok bool) {
	text := x.text(compact)
	root, err := parser.ParseExpr(text)
	if err != nil {
		return nil, 0, 0, false
	}
	tv, tok, _ := try(func() val { return typeOf(root) })
	if !tok {
		return nil, 0, 0, false
	}
	if hasConstBinary(root) {
		// Go folds constant sub-expressions exactly and rejects their overflow (1<<31 as an int32 operand does not
		// compile): such expressions are not in the property's domain of int32/bool operands
		return nil, 0, 0, false
	}
	if untypedOverVarShift(root) && ev.KnownOpen("C05", "c05-untyped-arith-over-variable-shift") != nil {
		ev.R().Class("excluded_by_known_finding:c05-untyped-arith-over-variable-shift")
		return nil, 0, 0, false
	}
	// Go's grouping of every parenthesised group (parsed separately: parentheses make it independent)
	goGroup := map[*Expr]ast.Expr{}
	var collect func(e *Expr) bool
	collect = func(e *Expr) bool {
		for i := range e.Atoms {
			if g := e.Atoms[i].Group; g != nil {
				ge, err := parser.ParseExpr(g.text(false))
				if err != nil {
					return false
				}
				goGroup[g] = ge
				if !collect(g) {
					return false
				}
			}
		}
		return true
	}
	if !collect(x) {
		return nil, 0, 0, false
	}
	al := alts(x, goGroup)
	nAlts = len(al)
	used := map[string]bool{}
	names(x, used)

	c = &Case{Text: text, IsBool: tv.isBool, ConstValued: constValued(root, false)}
	pending := make([]bool, len(al))
	for i := range pending {
		pending[i] = true
	}
	h := ev.Hash(text)
	seenVal := map[string]bool{}
	for k := 0; k < 40 && len(c.Vals) < 4; k++ {
		e := env{}
		m := map[string]any{}
		hh := h + uint64(k)*0x9e3779b97f4a7c15
		for _, n := range intNames {
			hh = hh*6364136223846793005 + 1442695040888963407
			if used[n] {
				v := intPool[(hh>>33)%uint64(len(intPool))]
				e[n] = val{i: v}
				m[n] = v
			}
		}
		for _, n := range boolNames {
			hh = hh*6364136223846793005 + 1442695040888963407
			if used[n] {
				v := (hh>>33)%2 == 0
				e[n] = val{isBool: true, b: v}
				m[n] = v
			}
		}
		key := fmt.Sprint(m)
		if seenVal[key] {
			continue
		}
		seenVal[key] = true
		want, wok, _ := try(func() val { return evalGo(root, e) })
		if !wok {
			continue // Go would panic at run time (division by zero, negative shift): outside this check
		}
		gain := 0
		for i, a := range al {
			if !pending[i] {
				continue
			}
			got, gok, _ := try(func() val { return a(e) })
			if gok && got != want {
				gain++
			}
		}
		if gain == 0 && len(c.Vals) > 0 {
			continue
		}
		for i, a := range al {
			if !pending[i] {
				continue
			}
			got, gok, _ := try(func() val { return a(e) })
			if gok && got != want {
				pending[i] = false
				nDist++
			}
		}
		c.Vals = append(c.Vals, m)
		c.Want = append(c.Want, want.String())
		allDone := true
		for _, p := range pending {
			allDone = allDone && !p
		}
		if allDone {
			break
		}
	}
	if len(c.Vals) > 0 && (strings.Contains(text, "*") || strings.Contains(text, "<<") || ((strings.Contains(text, "-") || strings.Contains(text, "+")) && !tv.isBool == false)) {
		// one more valuation with operands of full width: products and shifted values that leave the 32-bit range
		// (and the 53 bits a float64 holds exactly) must wrap as Go's int32 does, and so must sums and differences that
		// are then compared (a - b < 0 is not a < b)
		e := env{}
		m := map[string]any{}
		hh := h ^ 0xb16b00b5
		for _, n := range intNames {
			hh = hh*6364136223846793005 + 1442695040888963407
			if used[n] {
				v := bigPool[(hh>>33)%uint64(len(bigPool))]
				e[n] = val{i: v}
				m[n] = v
			}
		}
		for _, n := range boolNames {
			hh = hh*6364136223846793005 + 1442695040888963407
			if used[n] {
				v := (hh>>33)%2 == 0
				e[n] = val{isBool: true, b: v}
				m[n] = v
			}
		}
		if want, wok, _ := try(func() val { return evalGo(root, e) }); wok && !seenVal[fmt.Sprint(m)] {
			c.Vals = append(c.Vals, m)
			c.Want = append(c.Want, want.String())
		}
	}
	if len(c.Vals) == 0 {
		return nil, 0, nAlts, false
	}
	return c, nDist, nAlts, true
}

// sameTokens reports whether the compact spelling scans to the same Go tokens as the spaced one.
func sameTokens(a, b string) bool {
	scan := func(s string) []string {
		var sc scanner.Scanner
		fset := token.NewFileSet()
		f := fset.AddFile("", fset.Base(), len(s))
		sc.Init(f, []byte(s), nil, 0)
		var out []string
		for {
			_, tok, lit := sc.Scan()
			if tok == token.EOF || (tok == token.SEMICOLON && lit == "\n") {
				break
			}
			out = append(out, tok.String()+":"+lit)
		}
		return out
	}
	x, y := scan(a), scan(b)
	if len(x) != len(y) {
		return false
	}
	for i := range x {
		if x[i] != y[i] {
			return false
		}
	}
	return true
}

// broken spreads the expression over several lines the way gofmt-ed Go code does: a line may end after a binary
// operator or an opening parenthesis (nowhere else: Go would insert a semicolon). Which of the permitted places are
// taken is decided by the bits of salt. The result scans to the same Go tokens and parses to the same Go expression.
func broken(text string, salt uint64) string {
	var sc scanner.Scanner
	fset := token.NewFileSet()
	f := fset.AddFile("", fset.Base(), len(text))
	sc.Init(f, []byte(text), nil, 0)
	var sb strings.Builder
	last := 0
	prevOperand := false
	k := 0
	for {
		pos, tok, lit := sc.Scan()
		if tok == token.EOF || (tok == token.SEMICOLON && lit == "\n") {
			break
		}
		off := fset.Position(pos).Offset
		sb.WriteString(text[last:off])
		spelled := lit
		if spelled == "" {
			spelled = tok.String()
		}
		sb.WriteString(spelled)
		last = off + len(spelled)
		isOperand := tok == token.IDENT || tok == token.INT || tok == token.RPAREN
		breakable := (tok.IsOperator() && prevOperand && tok != token.RPAREN && tok != token.LPAREN) || tok == token.LPAREN
		if breakable {
			if salt>>(uint(k)%64)&1 == 1 {
				sb.WriteString("\n\t\t")
			}
			k++
		}
		prevOperand = isOperand
	}
	sb.WriteString(text[last:])
	return sb.String()
}

// ---- running goatlang -------------------------------------------------------------------------

func goatValue(v any) goatlang.Value {
	switch x := v.(type) {
	case int32:
		return goatlang.Int32(x)
	case bool:
		return goatlang.Bool(x)
	case float64: // from JSON
		return goatlang.Int32(int32(x))
	}
	panic(fmt.Sprintf("bad valuation value %T", v))
}

func litOf(v any) string {
	switch x := v.(type) {
	case float64:
		return fmt.Sprint(int32(x))
	}
	return fmt.Sprint(v)
}

func renderC(c *Case, v goatlang.Value) string {
	if c.ConstValued && !c.IsBool && v.Type() == 1 { // untyped number
		return fmt.Sprint(int32(int64(v.Float64())))
	}
	return render(v, c.IsBool)
}

func render(v goatlang.Value, isBool bool) string {
	if isBool {
		if v.Type() != goatlang.TypeBool {
			return fmt.Sprintf("<%v of wrong type>", v.String())
		}
		return fmt.Sprint(v.Bool())
	}
	if v.Type() != goatlang.TypeInt32 {
		return fmt.Sprintf("<%v of wrong type %d>", v.String(), v.Type())
	}
	return fmt.Sprint(v.Int32())
}

// checkCase evaluates the expression in goatlang, with operands as function parameters and as globals.
func checkCase(c *Case) *ev.Failure {
	rt := "int"
	if c.IsBool {
		rt = "bool"
	}
	// form 1: operands are parameters of a function (locals)
	src := "func fn(a int, b int, c int, d int, e int, g int, p bool, q bool, r bool, s bool, t bool, u bool) " + rt + " { return " + c.Text + " }"
	vm := goat.New()
	r := vm.Eval(nil, src, goat.DefaultBudget)
	if r.Failed() {
		return fail(c, "locals", -1, "definition accepted", r.ErrString())
	}
	for i, m := range c.Vals {
		var params []goatlang.Value
		for _, n := range intNames {
			if v, ok := m[n]; ok {
				params = append(params, goatValue(v))
			} else {
				params = append(params, goatlang.Int32(1))
			}
		}
		for _, n := range boolNames {
			if v, ok := m[n]; ok {
				params = append(params, goatValue(v))
			} else {
				params = append(params, goatlang.Bool(false))
			}
		}
		rr := vm.Call("main.fn", 1, goat.DefaultBudget, params...)
		if rr.Failed() {
			return fail(c, "locals", i, c.Want[i], rr.ErrString())
		}
		if got := render(rr.Rets[0], c.IsBool); got != c.Want[i] {
			return fail(c, "locals", i, c.Want[i], got)
		}
	}
	// form 3: as form 1, the expression spread over several lines (after binary operators and opening parentheses)
	for _, salt := range []uint64{^uint64(0), ev.Hash(c.Text), ev.Hash(c.Text) >> 7} {
		bt := broken(c.Text, salt)
		if bt == c.Text {
			continue
		}
		if !sameTokens(bt, c.Text) {
			ev.R().Class("layout_rejected_by_own_scanner")
			continue
		}
		ev.R().Class("multi_line_layouts")
		src := "func fn(a int, b int, c int, d int, e int, g int, p bool, q bool, r bool, s bool, t bool, u bool) " + rt + " {\n\treturn " + bt + "\n}"
		vm := goat.New()
		r := vm.Eval(nil, src, goat.DefaultBudget)
		if r.Failed() {
			return fail(c, "locals, expression spread over lines:\n"+src+"\n", -1, "definition accepted", r.ErrString())
		}
		for i, m := range c.Vals {
			var params []goatlang.Value
			for _, n := range intNames {
				if v, ok := m[n]; ok {
					params = append(params, goatValue(v))
				} else {
					params = append(params, goatlang.Int32(1))
				}
			}
			for _, n := range boolNames {
				if v, ok := m[n]; ok {
					params = append(params, goatValue(v))
				} else {
					params = append(params, goatlang.Bool(false))
				}
			}
			rr := vm.Call("main.fn", 1, goat.DefaultBudget, params...)
			if rr.Failed() {
				return fail(c, "locals, expression spread over lines:\n"+src+"\n", i, c.Want[i], rr.ErrString())
			}
			if got := render(rr.Rets[0], c.IsBool); got != c.Want[i] {
				return fail(c, "locals, expression spread over lines:\n"+src+"\n", i, c.Want[i], got)
			}
		}
	}
	// form 4: the expression is the index of compound assignments, which the compiler evaluates for the read and for
	// the write: both must group alike, and like the plain use of the same expression
	{
		kt := "int"
		if c.IsBool {
			kt = "bool"
		}
		src := "func fn(a int, b int, c int, d int, e int, g int, p bool, q bool, r bool, s bool, t bool, u bool) int {\n\tm := map[" + kt + "]int{}\n\tm[" + c.Text + "] += 7\n\tm[" + c.Text + "]++\n\tk := " + c.Text + "\n\tm[k] += 10\n\treturn m[k]*100 + len(m)\n}"
		vm := goat.New()
		r := vm.Eval(nil, src, goat.DefaultBudget)
		if r.Failed() {
			return fail(c, "index of compound assignments:\n"+src+"\n", -1, "definition accepted", r.ErrString())
		}
		for i, m := range c.Vals {
			var params []goatlang.Value
			for _, n := range intNames {
				if v, ok := m[n]; ok {
					params = append(params, goatValue(v))
				} else {
					params = append(params, goatlang.Int32(1))
				}
			}
			for _, n := range boolNames {
				if v, ok := m[n]; ok {
					params = append(params, goatValue(v))
				} else {
					params = append(params, goatlang.Bool(false))
				}
			}
			rr := vm.Call("main.fn", 1, goat.DefaultBudget, params...)
			if rr.Failed() {
				return fail(c, "index of compound assignments:\n"+src+"\n", i, "1801", rr.ErrString())
			}
			if got := rr.Rets[0].String(); got != "1801" {
				return fail(c, "index of compound assignments (one key, 7+1+10, so 1801):\n"+src+"\n", i, "1801", got)
			}
		}
	}
	// form 2: operands are globals, the expression is evaluated at top level
	vm = goat.New()
	for i, m := range c.Vals {
		var sb strings.Builder
		for _, n := range intNames {
			if v, ok := m[n]; ok {
				fmt.Fprintf(&sb, "var %s int = %s;\n", n, litOf(v))
			}
		}
		for _, n := range boolNames {
			if v, ok := m[n]; ok {
				fmt.Fprintf(&sb, "var %s bool = %s;\n", n, litOf(v))
			}
		}
		sb.WriteString(c.Text + "\n")
		rr := vm.Eval(nil, sb.String(), goat.DefaultBudget)
		if rr.Failed() {
			return fail(c, "globals", i, c.Want[i], rr.ErrString())
		}
		if len(rr.Rets) != 1 {
			return fail(c, "globals", i, c.Want[i], fmt.Sprintf("%d values: %v", len(rr.Rets), rr.RetStrings()))
		}
		if got := renderC(c, rr.Rets[0]); got != c.Want[i] {
			return fail(c, "globals", i, c.Want[i], got)
		}
	}
	return nil
}

func fail(c *Case, form string, i int, want, got string) *ev.Failure {
	var v any
	if i >= 0 {
		v = c.Vals[i]
	}
	tree := ""
	func() {
		defer func() { recover() }()
		var sb strings.Builder
		goat.New().VM.Eval(goat.FS(nil), "eval.go", c.Text, goatlang.WithTreeDump(&sb))
		tree = strings.TrimSpace(sb.String())
	}()
	return &ev.Failure{Kind: "expr", Case: c,
		Msg: fmt.Sprintf("expression %q (%s) with %v: Go's grouping gives %s, goatlang gives %s; goatlang parse tree: %s", c.Text, form, v, want, got, tree)}
}

// one evaluates one generated expression; it returns the failure (if any) and whether it was in the domain.
func one(x *Expr, compact bool) (*ev.Failure, bool) {
	r := ev.R()
	c, nDist, nAlts, ok := build(x, compact)
	if !ok {
		return nil, false
	}
	r.Eval(1)
	r.ClassN("valuations_run", len(c.Vals))
	r.Class(fmt.Sprintf("operators=%d", countOps(x)))
	if nDist > 0 {
		r.Nontrivial(ev.Hash(c.Text))
		r.Class("distinguishes_some_alternative_grouping")
	}
	if nAlts > 1 && nDist == nAlts-1 {
		r.Class("distinguishes_every_alternative_grouping")
	}
	r.Sample(map[string]any{"expr": c.Text, "valuations": c.Vals, "go_values": c.Want, "alternative_groupings": nAlts - 1, "distinguished": nDist})
	return checkCase(c), true
}

func countOps(x *Expr) int {
	n := len(x.Ops)
	for _, a := range x.Atoms {
		if a.Group != nil {
			n += countOps(a.Group)
		}
	}
	return n
}

// ---- enumeration ------------------------------------------------------------------------------

var intPrefixes = []string{"", "-", "^"}
var boolPrefixes = []string{"", "!"}

// enumerate calls visit for every flat sequence of n operators with typed leaves, prefixes and one optional group.
// Typing is decided once per (operators, leaf types, group span) on the prefix-free skeleton, because a prefix
// that matches its operand's type never changes a type; only well-typed skeletons are expanded.
func enumerate(nOps int, visit func(idx int, x *Expr)) {
	idx := 0
	nLeaves := nOps + 1
	ops := make([]int, nOps)
	leafBool := make([]bool, nLeaves)
	type span struct{ i, j int }
	spans := []span{{-1, -1}}
	for i := 0; i < nLeaves; i++ {
		for j := i + 1; j < nLeaves; j++ {
			if i == 0 && j == nLeaves-1 {
				continue
			}
			spans = append(spans, span{i, j})
		}
	}
	mkExpr := func(sp span, prefix []string, g string) *Expr {
		ni, nb := 0, 0
		mk := func(k int) Atom {
			var name string
			if leafBool[k] {
				name = boolNames[nb]
				nb++
			} else {
				name = intNames[ni]
				ni++
			}
			return Atom{Prefix: prefix[k], Name: name}
		}
		x := &Expr{}
		for k := 0; k < nLeaves; k++ {
			if k == sp.i {
				grp := &Expr{}
				for m := sp.i; m <= sp.j; m++ {
					grp.Atoms = append(grp.Atoms, mk(m))
					if m < sp.j {
						grp.Ops = append(grp.Ops, binOps[ops[m]])
					}
				}
				x.Atoms = append(x.Atoms, Atom{Prefix: g, Group: grp})
				k = sp.j
			} else {
				x.Atoms = append(x.Atoms, mk(k))
			}
			if k < nLeaves-1 {
				x.Ops = append(x.Ops, binOps[ops[k]])
			}
		}
		return x
	}
	none := make([]string, nLeaves)
	emit := func() {
		for _, sp := range spans {
			skel := mkExpr(sp, none, "")
			root, err := parser.ParseExpr(skel.text(false))
			if err != nil {
				continue
			}
			if _, ok, _ := try(func() val { return typeOf(root) }); !ok {
				continue
			}
			gp := []string{""}
			if sp.i >= 0 {
				ge, _ := parser.ParseExpr(skel.Atoms[sp.i].Group.text(false))
				gt, _, _ := try(func() val { return typeOf(ge) })
				if gt.isBool {
					gp = boolPrefixes
				} else {
					gp = intPrefixes
				}
			}
			prefix := make([]string, nLeaves)
			var recPrefix func(k int)
			recPrefix = func(k int) {
				if k == nLeaves {
					for _, g := range gp {
						visit(idx, mkExpr(sp, prefix, g))
						idx++
					}
					return
				}
				pf := intPrefixes
				if leafBool[k] {
					pf = boolPrefixes
				}
				for _, p := range pf {
					prefix[k] = p
					recPrefix(k + 1)
				}
			}
			recPrefix(0)
		}
	}
	var recLeaves func(k int)
	recLeaves = func(k int) {
		if k == nLeaves {
			emit()
			return
		}
		for _, isB := range []bool{false, true} {
			leafBool[k] = isB
			recLeaves(k + 1)
		}
	}
	var recOps func(k int)
	recOps = func(k int) {
		if k == nOps {
			recLeaves(0)
			return
		}
		for o := range binOps {
			ops[k] = o
			recOps(k + 1)
		}
	}
	recOps(0)
}

func runEnum(t *testing.T, nOps int, stride int) {
	r := ev.R()
	r.Disjoint()
	fails := 0
	enumerate(nOps, func(idx int, x *Expr) {
		if fails >= 3 {
			return
		}
		if !r.Mine(idx) {
			return
		}
		if stride > 1 && (ev.Hash(x.text(false))%uint64(stride)) != uint64(r.Seed())%uint64(stride) {
			return
		}
		if f, _ := one(x, false); f != nil {
			r.Fail(t, f)
			fails++
			return
		}
		if c := x.text(true); c != x.text(false) && sameTokens(c, x.text(false)) {
			if f, _ := one(x, true); f != nil {
				r.Fail(t, f)
				fails++
			}
		}
	})
	if stride <= 1 {
		r.Exhaustive(fmt.Sprintf("all well-typed expressions with %d binary operator(s), unary prefixes and one optional parenthesised group", nOps), fails == 0)
	}
}

func TestEnum12(t *testing.T) {
	runEnum(t, 1, 1)
	runEnum(t, 2, 1)
}

// TestLiteralChains enumerates short chains in which literals of full width sit next to each other and next to a
// variable: a op c1 op c2, c1 op a op c2 and a op c1 op c2 op c3. Go evaluates them left to right in int32, wrapping
// at every step; an implementation that combines neighbouring literals first (as untyped numbers) or regroups a chain
// of one associative operator gives other values as soon as the literals' own combination leaves the int32 range.
func TestLiteralChains(t *testing.T) {
	r := ev.R()
	r.Disjoint()
	ops := []string{"+", "-", "*", "|", "^", "&"}
	lits := []Atom{{Name: "3"}, {Name: "65536"}, {Name: "46341"}, {Name: "1500000000"}, {Name: "0x7fffffff"}, {Prefix: "-", Name: "1500000000"}, {Prefix: "-", Name: "0x7fffffff"}}
	a := Atom{Name: "a"}
	idx, fails := 0, 0
	try := func(x *Expr) {
		idx++
		if fails >= 3 || !r.Mine(idx) {
			return
		}
		if f, _ := one(x, false); f != nil {
			r.Fail(t, f)
			fails++
		}
	}
	for _, o1 := range ops {
		for _, o2 := range ops {
			for _, c1 := range lits {
				for _, c2 := range lits {
					try(&Expr{Atoms: []Atom{a, c1, c2}, Ops: []string{o1, o2}})
					try(&Expr{Atoms: []Atom{c1, a, c2}, Ops: []string{o1, o2}})
					if o1 == o2 {
						for _, c3 := range lits {
							try(&Expr{Atoms: []Atom{a, c1, c2, c3}, Ops: []string{o1, o1, o1}})
						}
					}
				}
			}
		}
	}
	// sums and differences compared with zero: the comparison is of the wrapped value
	b, cc, zero := Atom{Name: "b"}, Atom{Name: "c"}, Atom{Name: "0"}
	for _, cmp := range []string{"<", "<=", ">", ">=", "==", "!="} {
		for _, o := range []string{"-", "+"} {
			try(&Expr{Atoms: []Atom{a, b, zero}, Ops: []string{o, cmp}})
			try(&Expr{Atoms: []Atom{zero, a, b}, Ops: []string{cmp, o}})
			try(&Expr{Atoms: []Atom{a, b, cc, zero}, Ops: []string{o, "*", cmp}})
			try(&Expr{Atoms: []Atom{a, b, cc, zero}, Ops: []string{o, o, cmp}})
		}
	}
	r.Exhaustive("a op c1 op c2, c1 op a op c2 (all pairs of + - * | ^ &) and a op c1 op c2 op c3 (one operator) over seven full-width literals; sums and differences of variables compared with 0", fails == 0)
}

// TestEnum3 enumerates every 3-operator expression (thorough tier, sharded).
func TestEnum3(t *testing.T) { runEnum(t, 3, 1) }

// TestEnum3Stride covers a seed-selected 1/64 slice of the 3-operator space in the quick tier.
func TestEnum3Stride(t *testing.T) { runEnum(t, 3, 64) }

// ---- sampled 4–5 operator expressions with literals ---------------------------------------------

func genExpr(rt *rapid.T, nOps int, depth int, ni, nb *int) *Expr {
	x := &Expr{}
	for k := 0; k <= nOps; k++ {
		if k > 0 {
			x.Ops = append(x.Ops, rx.Pick(rt, "op", binOps...))
		}
		kind := rx.Uniform(rt, 10, "atom")
		switch {
		case kind == 0 && depth < 2 && nOps >= 2:
			g := genExpr(rt, rapid.IntRange(1, 2).Draw(rt, "gops"), depth+1, ni, nb)
			x.Atoms = append(x.Atoms, Atom{Prefix: rapid.SampledFrom([]string{"", "", "-", "^", "!"}).Draw(rt, "gprefix"), Group: g})
		case kind <= 2:
			x.Atoms = append(x.Atoms, Atom{Prefix: rapid.SampledFrom(boolPrefixes).Draw(rt, "bprefix"), Name: boolNames[*nb%len(boolNames)]})
			*nb++
		case kind == 3:
			// literals in every spelling, bare, with a prefix operator, and doubly negated
			lit := rapid.SampledFrom([]string{"0", "1", "2", "3", "5", "8", "31", "010", "017", "0x10", "0x1f", "0x7f", "'a'", "'0'", "'\\n'", "65536", "46341", "1500000000", "0x7fffffff", "65536", "1500000000"}).Draw(rt, "lit")
			switch rapid.IntRange(0, 5).Draw(rt, "litform") {
			case 0:
				x.Atoms = append(x.Atoms, Atom{Prefix: "-", Name: lit})
			case 1:
				x.Atoms = append(x.Atoms, Atom{Prefix: "^", Name: lit})
			case 2:
				x.Atoms = append(x.Atoms, Atom{Prefix: "-", Group: &Expr{Atoms: []Atom{{Prefix: "-", Name: lit}}}})
			default:
				x.Atoms = append(x.Atoms, Atom{Name: lit})
			}
		default:
			x.Atoms = append(x.Atoms, Atom{Prefix: rapid.SampledFrom([]string{"", "", "-", "^"}).Draw(rt, "iprefix"), Name: intNames[*ni%len(intNames)]})
			*ni++
		}
	}
	return x
}

func sampleProp(minOps, maxOps int) func(rt *rapid.T) *ev.Failure {
	return func(rt *rapid.T) *ev.Failure {
		// construction over rejection: redraw a bounded number of times until the sequence is well-typed Go
		for try := 0; try < 200; try++ {
			ni, nb := 0, 0
			x := genExpr(rt, rapid.IntRange(minOps, maxOps).Draw(rt, "nops"), 0, &ni, &nb)
			compact := rapid.IntRange(0, 3).Draw(rt, "compact") == 0
			if compact && !sameTokens(x.text(true), x.text(false)) {
				compact = false
			}
			if ni+nb == 0 {
				continue // constant-only expression: its dynamic type in the REPL dialect is "untyped number", not part of C05
			}
			f, ok := one(x, compact)
			if !ok {
				ev.R().Class("redrawn_not_well_typed")
				continue
			}
			return f
		}
		ev.R().Class("gave_up_after_200_redraws")
		return nil
	}
}

func TestSample3(t *testing.T)  { ev.R().RapidCheck(t, sampleProp(3, 3)) }
func TestSample45(t *testing.T) { ev.R().RapidCheck(t, sampleProp(4, 5)) }

// ---- replay -----------------------------------------------------------------------------------

func TestReplay(t *testing.T) {
	ev.R().RunReplays(t, map[string]ev.ReplayFunc{
		"expr": func(raw json.RawMessage) *ev.Failure {
			var c Case
			if err := json.Unmarshal(raw, &c); err != nil {
				return &ev.Failure{Kind: "expr", Case: string(raw), Msg: "bad replay: " + err.Error()}
			}
			// recompute the expected values from the text so that a replay never trusts stale numbers
			root, err := parser.ParseExpr(c.Text)
			if err != nil {
				return &ev.Failure{Kind: "expr", Case: c, Msg: "replay text does not parse as Go: " + err.Error()}
			}
			for i, m := range c.Vals {
				e := env{}
				for k, v := range m {
					switch x := v.(type) {
					case float64:
						e[k] = val{i: int32(x)}
					case bool:
						e[k] = val{isBool: true, b: x}
					}
				}
				want, ok, why := try(func() val { return evalGo(root, e) })
				if !ok {
					return &ev.Failure{Kind: "expr", Case: c, Msg: "replay valuation not evaluable: " + why}
				}
				c.Want[i] = want.String()
				c.IsBool = want.isBool
			}
			return checkCase(&c)
		},
	})
}
