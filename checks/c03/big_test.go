package c03

// Large sources. The generated inputs of TestInputs are a few hundred bytes; these are megabytes of one construct:
// nesting a million levels deep (blocks, parentheses, types, unary operators), single expressions with a million
// operators, millions of lines, lines of a million columns. Each must be answered like any other input: a value or an
// error that names its stage, no Go panic, and above all no fatal error of the Go runtime (a stack overflow cannot be
// recovered and ends the host). The case is kept as (shape, n): the source is rebuilt from it.

import (
	"encoding/json"
	"fmt"
	"sort"
	"strings"
	"testing"
	"time"

	"verif/internal/ev"
	"verif/internal/goat"
)

type BigCase struct {
	Shape string `json:"shape"`
	N     int    `json:"n"`
	Load  bool   `json:"load"` // through Load of a package holding the file instead of Eval
}

var bigShapes = map[string]func(n int) string{
	"parens":        func(n int) string { return "x := " + strings.Repeat("(", n) + "1" + strings.Repeat(")", n) + "\n" },
	"if_blocks":     func(n int) string { return strings.Repeat("if true {", n) + strings.Repeat("}", n) + "\n" },
	"for_blocks":    func(n int) string { return strings.Repeat("for { ", n) + strings.Repeat("}", n) + "\n" },
	"switch_blocks": func(n int) string { return strings.Repeat("switch { default: ", n) + strings.Repeat("}", n) + "\n" },
	"func_literals": func(n int) string { return "x := " + strings.Repeat("func() { ", n) + strings.Repeat("}", n) + "\n" },
	"slice_types":   func(n int) string { return "x := " + strings.Repeat("[]", n) + "int{}\n" },
	"pointer_types": func(n int) string { return "var x " + strings.Repeat("*", n) + "T\n" },
	"map_types":     func(n int) string { return "var x " + strings.Repeat("map[int]", n) + "int\n" },
	"func_types":    func(n int) string { return "var x " + strings.Repeat("func(", n) + strings.Repeat(")", n) + "\n" },
	"struct_types":  func(n int) string { return "var x " + strings.Repeat("struct{a ", n) + "int" + strings.Repeat("}", n) + "\n" },
	"literals":      func(n int) string { return "x := " + strings.Repeat("[]int{", n) + strings.Repeat("}", n) + "\n" },
	"sum":           func(n int) string { return "y := 1\nx := y" + strings.Repeat("+y", n) + "\n" },
	"calls":         func(n int) string { return "func f() int { return 1 }\nx := f" + strings.Repeat("()", n) + "\n" },
	"selectors":     func(n int) string { return "x := a" + strings.Repeat(".b", n) + "\n" },
	"indexes":       func(n int) string { return "x := a" + strings.Repeat("[0]", n) + "\n" },
	"nots":          func(n int) string { return "x := " + strings.Repeat("!", n) + "true\n" },
	"complements":   func(n int) string { return "x := " + strings.Repeat("^", n) + "1\n" },
	"negations":     func(n int) string { return "x := " + strings.Repeat("-(", n) + "1" + strings.Repeat(")", n) + "\n" },
	"else_chain":    func(n int) string { return "x := 1\nif x > 1 {\n}" + strings.Repeat(" else if x > 2 {\n}", n) + "\n" },
	// many lines / wide lines, then a function that fails at run time: the error has to be built from positions that do
	// not fit the 16 bits a position gives to line and column
	"lines_then_fault":   func(n int) string { return strings.Repeat("\n", n) + "func f() int {\n\treturn 1 / (1 - 1)\n}\nx := f()\n" },
	"columns_then_fault": func(n int) string { return "func f() int { return 1 /" + strings.Repeat(" ", n) + "(1 - 1) }\nx := f()\n" },
	"statements":         func(n int) string { return "x := 0\n" + strings.Repeat("x++\n", n) + "x\n" },
	"long_string":        func(n int) string { return "x := \"" + strings.Repeat("a", n) + "\"\nlen(x)\n" },
	"long_comment":       func(n int) string { return "// " + strings.Repeat("c", n) + "\nx := 1\n/*" + strings.Repeat("\n", n/10) + "*/\nx\n" },
	"wide_literal":       func(n int) string { return "x := []int{" + strings.Repeat("1, ", n) + "1}\nlen(x)\n" },
	"many_functions": func(n int) string {
		var sb strings.Builder
		for i := 0; i < n; i++ {
			fmt.Fprintf(&sb, "func f%d() int { return %d }\n", i, i)
		}
		return sb.String()
	},
}

func checkBig(c *BigCase) *ev.Failure {
	r := ev.R()
	mk := func(format string, a ...any) *ev.Failure {
		return &ev.Failure{Kind: "bigsource", Case: c, Msg: fmt.Sprintf("source of shape %q with n = %d (through Load: %v): ", c.Shape, c.N, c.Load) + fmt.Sprintf(format, a...)}
	}
	build, ok := bigShapes[c.Shape]
	if !ok {
		return mk("unknown shape")
	}
	src := build(c.N)
	r.InFlight("bigsource", c, fmt.Sprintf("the check process died while a %d-byte source of shape %q (n = %d) was being evaluated: the embedding host would have died with it", len(src), c.Shape, c.N))
	defer r.Landed()
	done := make(chan goat.Result, 1)
	go func() {
		vm := goat.New()
		if c.Load {
			done <- vm.Load(goat.FS(map[string]string{"big/big.go": "package big\n\n" + src}), "big", 20_000_000)
			return
		}
		done <- vm.Eval(nil, src, 20_000_000)
	}()
	var res goat.Result
	select {
	case res = <-done:
	case <-time.After(4 * watchdog):
		return mk("the call did not return within %v", 4*watchdog)
	}
	if o := classify(res, true); o.Problem != "" {
		return mk("%s", o.Problem)
	}
	r.Class("bigsource_outcome:" + classify(res, true).Stage)
	return nil
}

func TestLargeSources(t *testing.T) {
	r := ev.R()
	r.Disjoint()
	var shapes []string
	for s := range bigShapes {
		shapes = append(shapes, s)
	}
	sort.Strings(shapes)
	sizes := []int{9_000, 70_000, 1_200_000}
	if r.Thorough() {
		sizes = append(sizes, 6_000_000, 9_000_000)
	}
	n := 0
	for _, s := range shapes {
		for _, size := range sizes {
			for _, load := range []bool{false, true} {
				n++
				if !r.Mine(n) {
					continue
				}
				if load && size != 1_200_000 {
					continue
				}
				if (s == "many_functions" || s == "sum" || s == "else_chain") && size > 1_200_000 {
					continue
				}
				if size == 9_000 && (s == "else_chain" || s == "sum" || s == "indexes" || s == "calls") {
					size = 2_000 // below the nesting limit these compile in quadratic time: kept small in both tiers
				}
				if s == "many_functions" && size == 1_200_000 && !r.Thorough() {
					size = 150_000
				}
				c := &BigCase{Shape: s, N: size, Load: load}
				r.Eval(1)
				r.NontrivialN(1)
				if f := checkBig(c); f != nil {
					r.Fail(t, f)
					return
				}
			}
		}
	}
	r.Sample(map[string]any{"shapes": shapes, "sizes": sizes})
}

func replayBig(raw json.RawMessage) *ev.Failure {
	var c BigCase
	if err := json.Unmarshal(raw, &c); err != nil {
		return &ev.Failure{Kind: "bigsource", Case: string(raw), Msg: "bad replay: " + err.Error()}
	}
	return checkBig(&c)
}
