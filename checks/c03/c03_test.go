// C03 — no input can take the embedding host down.
//
// Invariant oracle: for any source text, file tree, option subset and entry point, Eval / Load / Call / Func return to
// the host (no escaping Go panic, return within a generous watchdog), and an error from Eval or Load names its
// stage. Script execution is made finite by the verif instruction budget; budget exhaustion is resource exhaustion
// by the script (excepted by the property) and only counted.
package c03

import (
	"bytes"
	"encoding/json"
	"fmt"
	"go/ast"
	"go/parser"
	"go/token"
	"os"
	"path/filepath"
	"regexp"
	"sort"
	"strconv"
	"strings"
	"testing"
	"time"

	"github.com/philhassey/goatlang"
	"pgregory.net/rapid"

	"verif/internal/ev"
	"verif/internal/gen"
	"verif/internal/goat"
	"verif/internal/rx"
)

func TestMain(m *testing.M) { ev.Main(m, "C03") }

const budget = 100_000
const watchdog = 20 * time.Second

// Case is one input to the public API.
type Case struct {
	Entry  string            `json:"entry"` // eval | load
	Src    string            `json:"src,omitempty"`
	Files  map[string]string `json:"files,omitempty"`
	Arg    string            `json:"arg,omitempty"`
	Opts   int               `json:"opts"`  // bit 0 tree dump, bit 1 code dump, bit 2 eval imports, bit 3 nil import map, bit 4 nil fs.FS (when the case has no files)
	Calls  []CallSpec        `json:"calls,omitempty"`
}

type CallSpec struct {
	Name   string `json:"name"`
	Params int    `json:"params"`
	Rets   int    `json:"rets"`
	ViaFunc bool  `json:"via_func"`
}

var stageRe = regexp.MustCompile(`^error in (tokenize|parse|load|loadImports|compile|compile \(imports\)|run|run \(imports\)): `)

type outcome struct {
	Stage   string // ok tokenize parse load compile run budget
	Problem string // "" or a description of the violated invariant
	Ticks   int64
}

func options(c *Case, dump *bytes.Buffer) []goatlang.RunOption {
	var opts []goatlang.RunOption
	if c.Opts&1 != 0 {
		opts = append(opts, goatlang.WithTreeDump(dump))
	}
	if c.Opts&2 != 0 {
		opts = append(opts, goatlang.WithCodeDump(dump))
	}
	if c.Opts&4 != 0 {
		if c.Opts&8 != 0 {
			opts = append(opts, goatlang.WithEvalImports(nil))
		} else {
			opts = append(opts, goatlang.WithEvalImports(map[string]string{"fmt": "fmt", "str": "strings"}))
		}
	}
	return opts
}

// sanitize rejects inputs that are resource bombs by construction (a huge repeat count or allocation written out in
// the source); the instruction budget and the hook's value-size guard deal with computed ones.
var bigNum = regexp.MustCompile(`[0-9]{8,}|0x[0-9a-fA-F]{7,}|[0-9]e[0-9]|<<`)

func bomb(src string) bool {
	return (strings.Contains(src, "Repeat") || strings.Contains(src, "make") || strings.Contains(src, "Sleep")) && bigNum.MatchString(src)
}

func classify(r goat.Result, viaEvalOrLoad bool) outcome {
	o := outcome{Ticks: r.Ticks}
	switch {
	case r.Budget:
		o.Stage = "budget"
	case r.Panic != nil:
		o.Stage = "panic"
		o.Problem = fmt.Sprintf("a Go panic escaped to the host: %v", r.Panic)
	case r.Err == nil:
		o.Stage = "ok"
	default:
		msg := r.Err.Error()
		if m := stageRe.FindStringSubmatch(msg); m != nil {
			o.Stage = strings.Fields(m[1])[0]
			if o.Stage == "loadImports" {
				o.Stage = "load"
			}
		} else if strings.HasPrefix(msg, "unexpected returns:") {
			o.Stage = "run"
		} else if viaEvalOrLoad {
			o.Stage = "?"
			o.Problem = fmt.Sprintf("the error does not name its stage (tokenize, parse, load, compile or run): %q", firstLine(msg))
		} else {
			o.Stage = "run"
		}
	}
	return o
}

func firstLine(s string) string {
	s = strings.SplitN(s, "\n", 2)[0]
	if len(s) > 300 {
		s = s[:300] + "…"
	}
	return s
}

// execute runs the case; it is called under the watchdog.
func execute(c *Case) (stage string, problem string, ticks int64) {
	var dump bytes.Buffer
	vm := goat.New()
	var r goat.Result
	nilFS := c.Opts&16 != 0 && len(c.Files) == 0 // the repository's own tests pass nil for "no files"
	switch {
	case c.Entry == "load" && nilFS:
		r = vm.LoadNilFS(c.Arg, budget, options(c, &dump)...)
	case c.Entry == "load":
		r = vm.Load(goat.FS(c.Files), c.Arg, budget, options(c, &dump)...)
	case nilFS:
		r = vm.EvalNilFS(c.Src, budget, options(c, &dump)...)
	default:
		var fsys = goat.FS(c.Files)
		r = vm.Eval(fsys, c.Src, budget, options(c, &dump)...)
	}
	o := classify(r, true)
	if o.Problem != "" {
		return o.Stage, o.Problem, o.Ticks
	}
	ticks = o.Ticks
	for _, cs := range c.Calls {
		var params []goatlang.Value
		for i := 0; i < cs.Params; i++ {
			params = append(params, goatlang.Int(i+1))
		}
		var rr goat.Result
		if cs.ViaFunc {
			rr = vm.Func(vm.Get(cs.Name), cs.Rets, budget, params...)
		} else {
			rr = vm.Call(cs.Name, cs.Rets, budget, params...)
		}
		ticks += rr.Ticks
		if co := classify(rr, false); co.Problem != "" {
			return o.Stage, fmt.Sprintf("%s(%q, %d results, %d params): %s", map[bool]string{true: "Func", false: "Call"}[cs.ViaFunc], cs.Name, cs.Rets, cs.Params, co.Problem), ticks
		}
		if rr.Err == nil && len(rr.Rets) != cs.Rets {
			return o.Stage, fmt.Sprintf("Call(%q) asked for %d results and got %d without an error", cs.Name, cs.Rets, len(rr.Rets)), ticks
		}
	}
	// whatever happened, the host can go on using the VM: a further Eval returns (with a value or an error)
	after := vm.Eval(nil, "after9 := 40 + 2\nafter9", budget)
	ticks += after.Ticks
	if co := classify(after, true); co.Problem != "" {
		return o.Stage, "a further Eval on the same VM afterwards: " + co.Problem, ticks
	}
	return o.Stage, "", ticks
}

func check(c *Case) *ev.Failure {
	r := ev.R()
	if bomb(c.Src) {
		r.Class("skipped:resource_bomb_literal")
		return nil
	}
	for _, s := range c.Files {
		if bomb(s) {
			r.Class("skipped:resource_bomb_literal")
			return nil
		}
	}
	type res struct {
		stage, problem string
		ticks          int64
	}
	// a fatal Go error (stack overflow, concurrent map write) kills this process without passing through recover:
	// the driver then finds this case in the side file and reports it
	r.InFlight("input", c, "the check process died while this input was running: the embedding host would have died with it\n"+describe(c))
	defer r.Landed()
	done := make(chan res, 1)
	go func() {
		defer func() {
			if p := recover(); p != nil {
				done <- res{"panic", fmt.Sprintf("a Go panic escaped to the host: %v", p), 0}
			}
		}()
		s, p, t := execute(c)
		done <- res{s, p, t}
	}()
	var out res
	select {
	case out = <-done:
	case <-time.After(watchdog):
		// the input wedges the host: record and leave (the stuck goroutine cannot be stopped)
		f := &ev.Failure{Kind: "input", Case: c, Msg: fmt.Sprintf("the call did not return within %v (tokenizing, parsing, loading and compiling must terminate; script execution is bounded by the instruction budget)\n%s", watchdog, describe(c))}
		r.Violate(f)
		fmt.Printf("VIOLATION property=C03 (hang) %s\n", describe(c))
		os.Exit(1)
	}
	r.Eval(1)
	r.Class("stage:" + out.stage)
	r.Class("entry:" + c.Entry)
	if (out.stage != "tokenize" && out.stage != "panic" && out.stage != "?") && (out.stage != "ok" || out.ticks > 0) {
		r.Nontrivial(ev.HashJSON(c))
	}
	if out.problem != "" {
		mc := minimize(c, out.problem)
		_, p, _ := execute2(mc)
		if p == "" {
			mc, p = c, out.problem
		}
		return &ev.Failure{Kind: "input", Case: mc, Msg: p + "\n" + describe(mc)}
	}
	return nil
}

// execute2 is execute under recover (for the minimiser).
func execute2(c *Case) (stage, problem string, ticks int64) {
	defer func() {
		if p := recover(); p != nil {
			stage, problem = "panic", fmt.Sprintf("a Go panic escaped to the host: %v", p)
		}
	}()
	return execute(c)
}

// minimize shrinks the failing source text at token level (greedy delta debugging) while the same kind of problem persists.
func minimize(c *Case, problem string) *Case {
	kind := problem
	if i := strings.Index(kind, ":"); i > 0 {
		kind = kind[:i]
	}
	fails := func(x *Case) bool {
		_, p, _ := execute2(x)
		return strings.HasPrefix(p, kind)
	}
	cur := *c
	cur.Files = map[string]string{}
	for k, v := range c.Files {
		cur.Files[k] = v
	}
	// drop calls and files that are not needed
	if len(cur.Calls) > 0 {
		t := cur
		t.Calls = nil
		if fails(&t) {
			cur = t
		}
	}
	for name := range c.Files {
		t := cur
		t.Files = map[string]string{}
		for k, v := range cur.Files {
			if k != name {
				t.Files[k] = v
			}
		}
		if fails(&t) {
			cur = t
		}
	}
	shrinkText := func(get func(*Case) string, set func(*Case, string)) {
		toks := tokensOf(get(&cur))
		for chunk := len(toks) / 2; chunk >= 1; chunk /= 2 {
			for i := 0; i+chunk <= len(toks); {
				cand := append(append([]string{}, toks[:i]...), toks[i+chunk:]...)
				t := cur
				t.Files = map[string]string{}
				for k, v := range cur.Files {
					t.Files[k] = v
				}
				set(&t, strings.Join(cand, ""))
				if fails(&t) {
					toks = cand
					cur = t
				} else {
					i += chunk
				}
			}
		}
	}
	if cur.Src != "" {
		shrinkText(func(x *Case) string { return x.Src }, func(x *Case, s string) { x.Src = s })
	}
	var names []string
	for n := range cur.Files {
		names = append(names, n)
	}
	sort.Strings(names)
	for _, n := range names {
		n := n
		shrinkText(func(x *Case) string { return x.Files[n] }, func(x *Case, s string) { x.Files[n] = s })
	}
	return &cur
}

func describe(c *Case) string {
	var sb strings.Builder
	fmt.Fprintf(&sb, "entry=%s options=%05b arg=%q\n", c.Entry, c.Opts, c.Arg)
	if c.Src != "" {
		fmt.Fprintf(&sb, "--- source\n%s\n", clip(c.Src))
	}
	var names []string
	for n := range c.Files {
		names = append(names, n)
	}
	sort.Strings(names)
	for _, n := range names {
		fmt.Fprintf(&sb, "=== %s\n%s\n", n, clip(c.Files[n]))
	}
	for _, cs := range c.Calls {
		fmt.Fprintf(&sb, "then call %+v\n", cs)
	}
	return sb.String()
}

func clip(s string) string {
	if len(s) > 3000 {
		return s[:1500] + "\n…\n" + s[len(s)-1500:]
	}
	return s
}

// ---- (a) token soup ---------------------------------------------------------------------------

var vocab = []string{":=", "=", "+=", "-=", "*=", "/=", "%=", "|=", "^=", "&=", "<<=", ">>=", "||", "&&", "!", "<", ">", "<=", ">=", "==", "!=", "|", "^", "&", "<<", ">>",
	"+", "-", "*", "/", "%", "++", "--", ".", "...", "(", ")", "[", "]", "{", "}", "[]", "map", ",", "func", "return", "if", "else", "for", "package", "import", "const", "var", "type",
	"switch", "case", "default", "$", "make", ";", ":", "range", "break", "continue", "struct", "interface", "iota", "nil", "true", "false", "error", "any", "int", "int32", "byte",
	"uint8", "rune", "uint32", "uint", "int8", "int16", "int64", "uint16", "uint64", "bool", "string", "float64", "chan", "go", "<-", "->", "\n", "\n", ";",
	"x", "y", "f", "T", "main", "fmt", "len", "append", "copy", "delete", "panic", "print", "println", "__type", "_", "init",
	"0", "1", "42", "0x1f", "017", "1.5", "1e3", "\"s\"", "`raw`", "'c'", "'\\n'", "\"\"", "3000000000", "-1", "08", "0x", "1.", "'ab'", "\"unterminated", "/* c */", "// c\n", "#", "@", "~", "?", "\\",
	// non-ASCII: punctuation, spaces, letters, symbols, emoji, a BOM, invalid UTF-8
	"\u00d7", "\u201c", "\u201d", "\u00a0", "\u2192", "\u2026", "\u00e9", "\u65e5\u672c", "\u200b", "\U0001f600", "\ufeff", "\xff", "\xc3", "\u00ab", "\u2260", "\u03bb",
	// literals that scan as one token but do not denote a value: bad escapes, surrogates, out-of-range octal and code points, empty or long characters
	`"\400"`, `"\ud800"`, `"\q"`, `"\x"`, `"\xg1"`, `"\u12"`, `"\U00110000"`, `"\8"`, `'\400'`, `'\ud800'`, `'\q'`, `''`, `'\'`, `"\"`, `'\U00110000'`, "`", "\"a\nb\"", "\"\\", "0b2", "0o8", "1e", "1e+", "0x.p", "1_", "1__0", "9999999999999999999999", "1e999", "0.0.0", "..", "....", ":=:", `'\x'`,
	// values that contain themselves, printed
	"s := []any{1, 2}", "s[1] = s", "println(s)", "fmt.Println(s)", "fmt.Sprint(s)", "m := map[string]any{}", "m[\"k\"] = m", "println(m)", "type N struct { Next *N; Any any }", "n := &N{}", "n.Next = n", "n.Any = n", "println(n)",
	"s := []any{1, 2}\ns[1] = s\nprintln(s)\n", "a := []any{0}\nb := []any{a}\na[0] = b\nprintln(a)\n",
	// composite types in key, element and field positions (type tags are packed into a few bits per position)
	"map[[]x]T", "map[[]int][]string", "[][]map[string][]int", "map[map[string]int]T", "map[[]println]T{nil: {}}", "[]T{{}}", "T{}", "{nil: {}}", "type T struct{}", "type T struct { m map[[]T]T }",
	"map[func()]T{}", "[]func(T) map[T][]T{}", "make(map[[]T][]T)", "var v map[[]g][]i", "x.(T)", "[]interface{}{}", "[...]int{1}", "[3]int{}", "*T", "&x", "<-c", "chan T",
	// declarations whose names the host may call afterwards
	"var cb func()", "var h func(int) int", "type S struct { F func() }", "var s S", "var e error", "var a any", "var m map[string]func()", "cb", "h", "S", "e"}

func genSoup(rt *rapid.T) string {
	n := rx.Range(rt, "ntokens", 1, 60)
	var sb strings.Builder
	for i := 0; i < n; i++ {
		sb.WriteString(rx.Pick(rt, "tok", vocab...))
		if !rx.Chance(rt, "nospace", 1, 5) {
			sb.WriteString(" ")
		}
	}
	return sb.String()
}

// ---- (b) mutations of valid programs and of test-table strings --------------------------------

var tables []string

func tableStrings() []string {
	if tables != nil {
		return tables
	}
	files, _ := filepath.Glob("/repo/*_test.go")
	seen := map[string]bool{}
	for _, f := range files {
		fset := token.NewFileSet()
		af, err := parser.ParseFile(fset, f, nil, 0)
		if err != nil {
			continue
		}
		ast.Inspect(af, func(n ast.Node) bool {
			if bl, ok := n.(*ast.BasicLit); ok && bl.Kind == token.STRING {
				if s, err := strconv.Unquote(bl.Value); err == nil && !seen[s] && len(s) > 3 && !strings.Contains(s, "Sleep") && !strings.Contains(s, "ReadFile") && !strings.Contains(s, "WriteFile") {
					seen[s] = true
					tables = append(tables, s)
				}
			}
			return true
		})
	}
	sort.Strings(tables)
	if len(tables) == 0 {
		tables = []string{"1 + 2"}
	}
	return tables
}

var splitRe = regexp.MustCompile(`[A-Za-z_][A-Za-z_0-9]*|[0-9][0-9a-zA-Z_.]*|"(?:[^"\\\n]|\\.)*"|` + "`[^`]*`" + `|'(?:[^'\\\n]|\\.)*'|\s+|.`)

func tokensOf(src string) []string { return splitRe.FindAllString(src, -1) }

func min(a, b int) int {
	if a < b {
		return a
	}
	return b
}

func mutateTokens(rt *rapid.T, toks []string, other []string) []string {
	n := rx.Range(rt, "nedits", 1, 4)
	for k := 0; k < n && len(toks) > 0; k++ {
		i := rx.Uniform(rt, len(toks), "at")
		if rx.Chance(rt, "header", 1, 4) {
			// the first tokens (package clause, imports, first declaration) decide how loading proceeds: edit them often
			i = rx.Uniform(rt, min(len(toks), 12), "athead")
		}
		switch rx.Uniform(rt, 7, "edit") {
		case 0: // delete
			toks = append(toks[:i], toks[i+1:]...)
		case 1: // duplicate
			toks = append(toks[:i+1], toks[i:]...)
		case 2: // swap with another
			j := rx.Uniform(rt, len(toks), "with")
			toks[i], toks[j] = toks[j], toks[i]
		case 3: // replace by a vocabulary token
			toks[i] = rx.Pick(rt, "repl", vocab...)
		case 4: // insert a vocabulary token
			toks = append(toks[:i], append([]string{rx.Pick(rt, "ins", vocab...), " "}, toks[i:]...)...)
		case 5: // truncate
			toks = toks[:i]
		default: // splice with a piece of another program
			if len(other) > 0 {
				a := rx.Uniform(rt, len(other), "spa")
				b := a + rx.Uniform(rt, len(other)-a, "spb")
				toks = append(toks[:i], append(append([]string{}, other[a:b]...), toks[i:]...)...)
			}
		}
	}
	return toks
}

func genMutant(rt *rapid.T) (src string, isPackage bool) {
	var base string
	if rx.Chance(rt, "fromgen", 1, 2) {
		p := gen.Profiles[rx.Uniform(rt, 4, "profile")]
		p.MaxStmts = 15
		prog, _ := gen.Program(rt, p)
		base = prog.Files["prog.go"]
		isPackage = true
	} else {
		ts := tableStrings()
		base = ts[rx.Uniform(rt, len(ts), "table")]
	}
	ts := tableStrings()
	other := tokensOf(ts[rx.Uniform(rt, len(ts), "other")])
	return strings.Join(mutateTokens(rt, tokensOf(base), other), ""), isPackage
}

var declRe = regexp.MustCompile(`\b(?:var|func|const|type)\s+(?:\([^)]*\)\s*)?([A-Za-z_][A-Za-z_0-9]*)|\b([A-Za-z_][A-Za-z_0-9]*)\s*:=`)

// declaredNames lists the names a source text appears to declare (variables, functions, constants, types, := targets):
// the host may ask Call, Func or Get for any of them, whatever they hold (a nil function variable, a struct, a type).
func declaredNames(srcs ...string) []string {
	seen := map[string]bool{}
	var out []string
	for _, src := range srcs {
		for _, m := range declRe.FindAllStringSubmatch(src, 40) {
			n := m[1] + m[2]
			if n != "" && !seen[n] {
				seen[n] = true
				out = append(out, n)
			}
		}
	}
	sort.Strings(out)
	return out
}

func sortedKeys(m map[string]string) []string {
	var out []string
	for k := range m {
		out = append(out, k)
	}
	sort.Strings(out)
	return out
}

func genCalls(rt *rapid.T, pkg string, srcs ...string) []CallSpec {
	var out []CallSpec
	n := rx.Range(rt, "ncalls", 0, 3)
	declared := declaredNames(srcs...)
	for i := 0; i < n; i++ {
		if len(declared) > 0 && rapid.Bool().Draw(rt, "declared") {
			name := pkg + "." + declared[rx.Uniform(rt, len(declared), "declname")]
			out = append(out, CallSpec{Name: name, Params: rx.Range(rt, "params", 0, 3), Rets: rx.Range(rt, "rets", 0, 2), ViaFunc: rapid.Bool().Draw(rt, "viafunc")})
			continue
		}
		name := rx.Pick(rt, "callname", pkg+".Main", pkg+".f", pkg+".x", pkg+".fn0", pkg+".T", "nosuch.thing", "", "fmt.Println", "strings.Repeat", "math.Pi", "builtin.__type", pkg+".idx", pkg+".run", "len", pkg+".bi")
		out = append(out, CallSpec{Name: name, Params: rx.Range(rt, "params", 0, 6), Rets: rx.Range(rt, "rets", 0, 4), ViaFunc: rapid.Bool().Draw(rt, "viafunc")})
	}
	return out
}

func genEvalCase(rt *rapid.T) *Case {
	c := &Case{Entry: "eval", Opts: rx.Uniform(rt, 32, "opts")}
	switch rx.Uniform(rt, 3, "evalkind") {
	case 0:
		c.Src = genSoup(rt)
	default:
		src, isPkg := genMutant(rt)
		if isPkg {
			// a mutated package goes through Load
			c.Entry = "load"
			c.Files = map[string]string{"prog/prog.go": src}
			c.Arg = "prog"
			c.Calls = genCalls(rt, "prog", src)
			return c
		}
		c.Src = src
	}
	if rx.Chance(rt, "withfs", 1, 4) {
		c.Files = map[string]string{"lib/x.go": "package lib\nfunc F() int { return 1 }\n", "cyc/a.go": "package cyc\nimport \"cyc\"\n"}
		c.Src = rx.Pick(rt, "imp", "import \"lib\"\n", "import \"cyc\"\n", "import \"nosuch\"\n", "import lib \"lib\"; lib.F()\n", "import l \"\\400\"\n", "import (\n\tl \"lib\"\n\tm \"li\\qb\"\n)\n", "import l `lib`; l.F()\n") + c.Src
	}
	c.Calls = genCalls(rt, "main", c.Src)
	return c
}

// ---- (c) file trees ---------------------------------------------------------------------------

func genTree(rt *rapid.T) *Case {
	c := &Case{Entry: "load", Files: map[string]string{}, Opts: rx.Uniform(rt, 16, "opts")}
	n := rx.Range(rt, "npkgs", 1, 6)
	var dirs []string
	for i := 0; i < n; i++ {
		dirs = append(dirs, rx.Pick(rt, "dir", "a", "b", "lib/c", "vendor/d", "x.go", "deep/er/e", "main", "a/b", ".", "vendor/a"))
	}
	for _, d := range dirs {
		nf := rx.Range(rt, "nfiles", 0, 3)
		for j := 0; j < nf; j++ {
			name := rx.Pick(rt, "fname", "a.go", "b.go", "x_test.go", "z.go", "doc.go", "notgo.txt", ".go", "_.go")
			var sb strings.Builder
			switch rx.Uniform(rt, 8, "header") {
			case 0:
				sb.WriteString("//go:build " + rx.Pick(rt, "constraint", "goat", "!goat", "linux && goat", "!!", "(", "goat ||", "ignore", "") + "\n")
			case 1:
				sb.WriteString("// just a comment\n")
			}
			switch rx.Uniform(rt, 8, "clause") {
			case 0: // empty or comment-only file
			case 1:
				sb.WriteString("package\n")
			case 2:
				sb.WriteString("package " + rx.Pick(rt, "othername", "other", "main", "x", "_", "func") + "\n")
			default:
				base := d[strings.LastIndex(d, "/")+1:]
				base = strings.TrimSuffix(base, ".go")
				if base == "." || base == "" {
					base = "root"
				}
				sb.WriteString("package " + base + rx.Pick(rt, "clausesep", "\n", "\n", "\n", ";", "; ", " "))
				if rx.Chance(rt, "secondclause", 1, 6) {
					// a second package keyword later in the file, with or without a name, on its own or inside an expression
					sb.WriteString(rx.Pick(rt, "second", "package\n", "package "+base+"\n", "package other\n", "* package;", "x := package\n", "package;package;", "func package() {}\n", "var package int\n"))
				}
			}
			ni := rx.Range(rt, "nimports", 0, 3)
			for k := 0; k < ni; k++ {
				target := rx.Pick(rt, "imp", dirs...)
				if rx.Chance(rt, "weirdimport", 1, 5) {
					target = rx.Pick(rt, "weird", "", "fmt", "nosuch/pkg", "../a", d, "a/", "/a", "vendor/d")
				}
				lit := strconv.Quote(target)
				if rx.Chance(rt, "badlit", 1, 8) {
					lit = rx.Pick(rt, "badpath", `"\400"`, `"\ud800"`, `"a\qb"`, "`a`", `'a'`, `""`, `"a" "b"`, `"\x00"`, `"a\nb"`)
				}
				alias := rx.Pick(rt, "alias", "", "", "", "al ", "_ ", ". ", "fmt ", "a ")
				if rapid.Bool().Draw(rt, "group") {
					fmt.Fprintf(&sb, "import (\n\t%s%s\n)\n", alias, lit)
				} else {
					fmt.Fprintf(&sb, "import %s%s\n", alias, lit)
				}
			}
			switch rx.Uniform(rt, 6, "body") {
			case 0:
				sb.WriteString(genSoup(rt))
			case 1:
				sb.WriteString("func F() int { return 1 }\nvar V = F()\nfunc init() { V++ }\n")
			case 2:
				sb.WriteString("func F() int { }\nvar V = F()\n")
			case 3:
				sb.WriteString("var V = undefined.Thing\n")
			case 4:
				sb.WriteString("func Main() { for { } }\nfunc init() { Main() }\n")
			default:
			}
			c.Files[strings.TrimPrefix(d+"/"+name, "./")] = sb.String()
		}
	}
	c.Arg = rx.Pick(rt, "arg", append(append([]string{}, dirs...), "", ".", "..", "../x", "nosuch", "a/a.go", "a.go", "x.go", "/", "a/", "vendor", "a//b", "./a")...)
	var srcs []string
	for _, name := range sortedKeys(c.Files) {
		srcs = append(srcs, c.Files[name])
	}
	c.Calls = genCalls(rt, rx.Pick(rt, "callpkg", dirs...), srcs...)
	return c
}

// ---- units ------------------------------------------------------------------------------------

func TestInputs(t *testing.T) {
	n := 0
	ev.R().RapidCheck(t, func(rt *rapid.T) *ev.Failure {
		var c *Case
		if rx.Chance(rt, "tree", 1, 4) {
			c = genTree(rt)
		} else {
			c = genEvalCase(rt)
		}
		n++
		if n%1500 == 1 {
			ev.R().Sample(c)
		}
		return check(c)
	})
}

// TestTablesAllOptions runs every test-table string through Eval with every option subset (the inputs the
// repository itself knows about, with dumps switched on).
func TestTablesAllOptions(t *testing.T) {
	r := ev.R()
	r.Disjoint()
	for i, s := range tableStrings() {
		if !r.Mine(i) {
			continue
		}
		for opts := 0; opts < 32; opts++ {
			if opts&8 != 0 && opts&4 == 0 {
				continue
			}
			c := &Case{Entry: "eval", Src: s, Opts: opts}
			if f := check(c); f != nil {
				r.Fail(t, f)
				return
			}
		}
	}
}

// ---- native fuzz targets (thorough tier) ------------------------------------------------------

func FuzzEval(f *testing.F) {
	for i, s := range tableStrings() {
		if i%7 == 0 {
			f.Add(s, byte(i))
		}
	}
	for _, s := range []string{"", ";", "!;", "x /;", ";[0]", "func f() int { }; f()", "var a map[[]g][]i", "for {}", "import \"x\"", "((((", "'", "\"", "0x", "a.b.c(", "switch { case", "type T struct { X int }; t := &T{}; t.Y", "func(){}()", "$1"} {
		f.Add(s, byte(3))
	}
	f.Fuzz(func(t *testing.T, src string, opts byte) {
		if len(src) > 1<<16 {
			return
		}
		c := &Case{Entry: "eval", Src: src, Opts: int(opts) % 16}
		if fl := checkQuiet(c); fl != "" {
			t.Fatalf("%s", fl)
		}
	})
}

func FuzzLoad(f *testing.F) {
	f.Add("package a\nimport \"b\"\nfunc F() int { return 1 }", "package b\nimport \"a\"", "a", byte(0))
	f.Add("package main\nfunc main() {}", "", ".", byte(3))
	f.Add("//go:build !!\npackage a", "package a_test", "a", byte(1))
	f.Fuzz(func(t *testing.T, a string, b string, arg string, opts byte) {
		if len(a)+len(b) > 1<<16 {
			return
		}
		c := &Case{Entry: "load", Files: map[string]string{"a/a.go": a, "b/b.go": b, "a/x_test.go": b}, Arg: arg, Opts: int(opts) % 16}
		if fl := checkQuiet(c); fl != "" {
			t.Fatalf("%s", fl)
		}
	})
}

// checkQuiet is check without evidence bookkeeping (fuzz workers are separate processes).
func checkQuiet(c *Case) string {
	if bomb(c.Src) {
		return ""
	}
	for _, s := range c.Files {
		if bomb(s) {
			return ""
		}
	}
	type res struct{ stage, problem string }
	done := make(chan res, 1)
	go func() {
		defer func() {
			if p := recover(); p != nil {
				done <- res{"panic", fmt.Sprintf("a Go panic escaped to the host: %v", p)}
			}
		}()
		s, p, _ := execute(c)
		done <- res{s, p}
	}()
	msg := ""
	select {
	case out := <-done:
		if out.problem != "" {
			msg = out.problem + "\n" + describe(c)
		}
	case <-time.After(watchdog):
		msg = "the call did not return within the watchdog\n" + describe(c)
	}
	if msg != "" {
		// fuzz workers are separate processes: save the failing input where the driver looks for it
		b, _ := json.MarshalIndent(c, "", " ")
		rf, _ := json.MarshalIndent(ev.ReplayFile{Property: "C03", Kind: "input", Case: b, Msg: msg}, "", " ")
		dir := filepath.Join(ev.Root, "out", "C03")
		os.MkdirAll(dir, 0o755)
		os.WriteFile(filepath.Join(dir, fmt.Sprintf("fuzz-%016x.json", ev.Hash(string(b)))), rf, 0o644)
	}
	return msg
}

func TestReplay(t *testing.T) {
	ev.R().RunReplays(t, map[string]ev.ReplayFunc{
		"bigsource": replayBig,
		"input": func(raw json.RawMessage) *ev.Failure {
			var c Case
			if err := json.Unmarshal(raw, &c); err != nil {
				return &ev.Failure{Kind: "input", Case: string(raw), Msg: "bad replay: " + err.Error()}
			}
			return check(&c)
		},
	})
}
