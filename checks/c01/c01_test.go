// C01 — programs in the supported Go subset run exactly as the Go toolchain runs them.
//
// Whole programs from the shared typed generator (five profiles) are compiled and run by the Go toolchain for
// GOARCH=386 and loaded and run by goatlang; stdout must be identical, a Go run-time panic must be an error
// after identical output.
package c01

import (
	"encoding/json"
	"fmt"
	"os"
	"strings"
	"testing"

	"pgregory.net/rapid"

	"verif/internal/diffgo"
	"verif/internal/ev"
	"verif/internal/gen"
	"verif/internal/goat"
	"verif/internal/oracle"
	"verif/internal/rx"
)

func TestMain(m *testing.M) { ev.Main(m, "C01") }

type Case struct {
	Files map[string]string `json:"files"`
	Meta  *gen.Meta         `json:"meta"`
}

func avoid() map[string]bool {
	a := map[string]bool{}
	for _, f := range ev.Findings("C01") {
		if f.Status == "known" {
			switch f.ID {
			case "c01-sprintf-verbs":
				a["sprintf"] = true
			}
		}
	}
	return a
}

func genCase(rt *rapid.T) *Case {
	p := gen.Profiles[rx.Uniform(rt, len(gen.Profiles), "profile")]
	p.Panics = true
	p.Avoid = avoid()
	prog, meta := gen.Program(rt, p)
	return &Case{Files: prog.Files, Meta: meta}
}

func (c *Case) prog() *oracle.Program { return &oracle.Program{Files: c.Files} }

func check(c *Case) *ev.Failure {
	r := ev.R()
	p := c.prog()
	v := diffgo.Compare(p, 20_000_000)
	r.Eval(1)
	if c.Meta != nil {
		r.Class("profile=" + c.Meta.Profile)
	}
	if v.Skip != "" {
		r.Class("skipped:" + v.Skip)
		if v.Skip == "go_crashed" {
			// a generated program that does not terminate (or kills the process) under Go is a generator defect: keep it for inspection
			os.MkdirAll(ev.Root+"/out/C01", 0o755)
			os.WriteFile(ev.Root+"/out/C01/go-crashed-"+p.Key()+".go", []byte(c.Files["prog.go"]), 0o644)
			r.Note("a generated program crashed or timed out under Go (generator defect, skipped): out/C01/go-crashed-%s.go", p.Key())
		}
		if v.Skip == "go_rejected" {
			r.Note("Go rejected a generated program: %s", firstLines(v.Msg, 2))
		}
		return nil
	}
	if c.Meta != nil {
		for _, f := range c.Meta.FeatureList() {
			r.Class("feature:" + f)
		}
		if c.Meta.Panics != "" {
			r.Class("planted_panic:" + c.Meta.Panics)
		}
		if strings.Count(v.Go.Stdout, "\n") >= 8 && len(c.Meta.Features) >= 4 {
			r.Nontrivial(ev.Hash(p.Key()))
		}
	}
	if v.OK {
		return nil
	}
	return &ev.Failure{Kind: "program", Case: c, Msg: v.Msg + "\n" + diffgo.Show(p, v)}
}

func firstLines(s string, n int) string {
	l := strings.Split(s, "\n")
	if len(l) > n {
		l = l[:n]
	}
	return strings.Join(l, " | ")
}

func TestPrograms(t *testing.T) {
	n := 0
	diffgo.TwoPass(t, genCase, func(c *Case) []*oracle.Program { return []*oracle.Program{c.prog()} }, func(c *Case) *ev.Failure {
		n++
		if n%80 == 1 {
			ev.R().Sample(map[string]any{"profile": c.Meta.Profile, "features": c.Meta.FeatureList(), "source": c.Files["prog.go"]})
		}
		return check(c)
	})
}

func TestReplay(t *testing.T) {
	ev.R().RunReplays(t, map[string]ev.ReplayFunc{
		"program": func(raw json.RawMessage) *ev.Failure {
			var c Case
			if err := json.Unmarshal(raw, &c); err != nil {
				return &ev.Failure{Kind: "program", Case: string(raw), Msg: "bad replay: " + err.Error()}
			}
			return check(&c)
		},
		"source": func(raw json.RawMessage) *ev.Failure {
			var c struct {
				Src string `json:"src"`
			}
			json.Unmarshal(raw, &c)
			return check(&Case{Files: map[string]string{"prog.go": c.Src}})
		},
	})
}

var _ = fmt.Sprint
var _ = goat.DefaultBudget
