// C08 — names resolve by Go's lexical block scoping.
//
// Programs redeclare a small set of names (x: also a package-level variable, y: also a parameter, z: a plain
// local, strings: also an imported package) at every kind of block boundary, assign without declaring, and print
// every visible name before, inside and after each block. Oracle: the Go toolchain (GOARCH=386).
package c08

import (
	"encoding/json"
	"fmt"
	"strings"
	"testing"

	"pgregory.net/rapid"

	"verif/internal/diffgo"
	"verif/internal/ev"
	"verif/internal/goat"
	"verif/internal/oracle"
	"verif/internal/rx"
)

func TestMain(m *testing.M) { ev.Main(m, "C08") }

var names = []string{"x", "y", "z", "strings"}

type gen struct {
	rt     *rapid.T
	sb     strings.Builder
	scopes []map[string]bool // names declared (as int variables) per open scope of the current function
	loopVars []map[string]bool // which of them are counters of a three-clause for (never assigned in the body: the loop must terminate)
	id     int
	budget int
	maxDepth int
	// statistics for the non-triviality rule
	maxLive  int  // max number of simultaneously live declarations of one name
	readAfterInner bool
	top bool // the statements are generated for the top level of a script: no declarations outside of blocks
}

func (g *gen) line(d int, format string, a ...any) {
	g.sb.WriteString(strings.Repeat("\t", d))
	fmt.Fprintf(&g.sb, format, a...)
	g.sb.WriteString("\n")
}

func (g *gen) visibleInt(n string) bool {
	if n == "x" {
		return true // the package-level x is always there
	}
	for _, s := range g.scopes {
		if s[n] {
			return true
		}
	}
	return false
}

func (g *gen) live(n string) int {
	c := 0
	if n == "x" {
		c = 1
	}
	for _, s := range g.scopes {
		if s[n] {
			c++
		}
	}
	return c
}

func (g *gen) visibleNames() []string {
	var out []string
	for _, n := range names {
		if g.visibleInt(n) {
			out = append(out, n)
		}
	}
	return out
}

func (g *gen) push() {
	g.scopes = append(g.scopes, map[string]bool{})
	g.loopVars = append(g.loopVars, map[string]bool{})
}
func (g *gen) pop() {
	g.scopes = g.scopes[:len(g.scopes)-1]
	g.loopVars = g.loopVars[:len(g.loopVars)-1]
}

// assignable: the nearest binding of the name is not a loop counter.
func (g *gen) assignable(n string) bool {
	for i := len(g.scopes) - 1; i >= 0; i-- {
		if g.scopes[i][n] {
			return !g.loopVars[i][n]
		}
	}
	return true
}

func (g *gen) assignableNames() []string {
	var out []string
	for _, n := range g.visibleNames() {
		if g.assignable(n) {
			out = append(out, n)
		}
	}
	return out
}
func (g *gen) cur() map[string]bool { return g.scopes[len(g.scopes)-1] }

func (g *gen) declare(n string) {
	g.cur()[n] = true
	if l := g.live(n); l > g.maxLive {
		g.maxLive = l
	}
}

func (g *gen) expr() string {
	vis := g.visibleNames()
	a := rx.Pick(g.rt, "ea", vis...)
	switch rx.Uniform(g.rt, 5, "ekind") {
	case 0:
		return fmt.Sprint(rx.Range(g.rt, "const", 1, 9))
	case 1:
		return fmt.Sprintf("%s + %d", a, rx.Range(g.rt, "const", 1, 9))
	case 2:
		return fmt.Sprintf("%s*2", a)
	case 3:
		return fmt.Sprintf("%s + %s", a, rx.Pick(g.rt, "eb", vis...))
	default:
		return a
	}
}

func (g *gen) print(d int) {
	g.id++
	vis := g.visibleNames()
	g.line(d, "fmt.Println(\"L%d\", %s)", g.id, strings.Join(vis, ", "))
	if rx.Chance(g.rt, "halves", 1, 3) {
		// the same variables in expressions whose value depends on their being ints
		var hs []string
		for _, v := range vis {
			hs = append(hs, v+"/2", v+"*3+2000000000")
		}
		g.line(d, "fmt.Println(\"H%d\", %s)", g.id, strings.Join(hs, ", "))
	}
	if !g.visibleInt("strings") && rx.Chance(g.rt, "usepkg", 1, 4) {
		g.line(d, "fmt.Println(strings.Repeat(\"pk\", 2))")
	}
}

// newName picks a name that may be declared in the current scope.
func (g *gen) newName() (string, bool) {
	var cands []string
	for _, n := range names {
		if !g.cur()[n] {
			cands = append(cands, n)
		}
	}
	if len(cands) == 0 {
		return "", false
	}
	return rx.Pick(g.rt, "newname", cands...), true
}

func (g *gen) stmts(d, depth int, n int) {
	for i := 0; i < n && g.budget > 0; i++ {
		g.stmt(d, depth)
	}
}

func (g *gen) stmt(d, depth int) {
	g.budget--
	w := []int{14, 14, 4, 12, 8, 7, 5, 6, 3, 5} // print declare multi assign if for range switch rangeself typedlocal
	if depth >= g.maxDepth {
		w[4], w[5], w[6], w[7], w[8] = 0, 0, 0, 0, 0
	}
	if g.top && depth == 0 {
		w[1], w[2], w[9] = 0, 0, 0
	}
	switch rx.Weighted(g.rt, "stmt", w...) {
	case 9:
		// a variable of another numeric type that lives only in this block: whatever block runs here next time (the
		// next iteration, a sibling case, the function's next call) starts with fresh variables of its own types
		g.id++
		n := fmt.Sprintf("t%d", g.id)
		switch rx.Uniform(g.rt, 4, "typedform") {
		case 0:
			g.line(d, "%s := 1.5", n)
			g.line(d, "fmt.Println(\"T%d\", %s/2)", g.id, n)
		case 1:
			g.line(d, "var %s byte = 200", n)
			g.line(d, "fmt.Println(\"T%d\", %s+100)", g.id, n)
		case 2:
			g.line(d, "%s := uint32(4000000000)", n)
			g.line(d, "fmt.Println(\"T%d\", %s+500000000, %s/3)", g.id, n, n)
		default:
			g.line(d, "var %s float64 = 3", n)
			g.line(d, "fmt.Println(\"T%d\", %s/2)", g.id, n)
		}
	case 0:
		g.print(d)
	case 1:
		n, ok := g.newName()
		if !ok {
			g.print(d)
			return
		}
		e := g.expr() // evaluated in the scope before the declaration takes effect
		switch rx.Uniform(g.rt, 5, "declform") {
		case 4:
			// a constant declared in this block shadows like a variable does (and is never assigned)
			if rapid.Bool().Draw(g.rt, "typedconst") {
				g.line(d, "const %s int = %d", n, rx.Range(g.rt, "constval", 1, 9))
			} else {
				g.line(d, "const %s = %d", n, rx.Range(g.rt, "constval", 1, 9))
			}
			g.declare(n)
			g.loopVars[len(g.loopVars)-1][n] = true
			g.print(d)
			return
		case 0:
			g.line(d, "%s := %s", n, e)
		case 1:
			g.line(d, "var %s int = %s", n, e)
		case 2:
			// a parenthesised declaration group: each name is in scope from the end of its own line on, until the
			// enclosing block (not the group) ends
			g.line(d, "var (")
			g.line(d+1, "%s int = %s", n, e)
			g.declare(n)
			if n2, ok := g.newName(); ok && rapid.Bool().Draw(g.rt, "groupsecond") {
				if rapid.Bool().Draw(g.rt, "groupinit") {
					g.line(d+1, "%s int = %s", n2, g.expr())
				} else {
					g.line(d+1, "%s int", n2)
				}
				g.declare(n2)
				g.line(d, ")")
				g.line(d, "_ = %s", n2)
			} else {
				g.line(d, ")")
			}
		default:
			g.line(d, "var %s int", n)
		}
		g.declare(n)
		g.line(d, "_ = %s", n)
		g.print(d)
	case 2:
		// a, b := e1, e2 where at least one is new in this scope and the other may already live here (it is assigned)
		n1, ok := g.newName()
		if !ok {
			g.print(d)
			return
		}
		n2 := rx.Pick(g.rt, "second", names...)
		if n2 == n1 || (g.cur()[n2] && !g.assignable(n2)) || (!g.cur()[n2] && !rapid.Bool().Draw(g.rt, "secondNew")) {
			g.print(d)
			return
		}
		e1, e2 := g.expr(), g.expr()
		g.line(d, "%s, %s := %s, %s", n1, n2, e1, e2)
		g.declare(n1)
		g.declare(n2)
		g.line(d, "_, _ = %s, %s", n1, n2)
		g.print(d)
	case 3:
		vis := g.assignableNames()
		if len(vis) == 0 {
			g.print(d)
			return
		}
		n := rx.Pick(g.rt, "target", vis...)
		switch rx.Uniform(g.rt, 3, "assignform") {
		case 0:
			g.line(d, "%s = %s", n, g.expr())
		case 1:
			g.line(d, "%s += %d", n, rx.Range(g.rt, "k", 1, 5))
		default:
			g.line(d, "%s++", n)
		}
		g.print(d)
	case 4:
		g.push() // scope of the if statement (init variables), visible in every branch
		hdr := ""
		if rx.Chance(g.rt, "ifinit", 1, 2) {
			if n, ok := g.newName(); ok {
				hdr = fmt.Sprintf("%s := %s; ", n, g.expr())
				g.declare(n)
			}
		}
		vis := g.visibleNames()
		g.line(d, "if %s%s%%2 == %d {", hdr, rx.Pick(g.rt, "condvar", vis...), rx.Uniform(g.rt, 2, "parity"))
		g.push()
		g.print(d + 1)
		g.stmts(d+1, depth+1, rx.Range(g.rt, "nthen", 1, 3))
		g.pop()
		if rx.Chance(g.rt, "elseif", 1, 4) {
			g.line(d, "} else if %s > %d {", rx.Pick(g.rt, "condvar2", vis...), rx.Range(g.rt, "thr", 0, 200))
			g.push()
			g.print(d + 1)
			g.stmts(d+1, depth+1, rx.Range(g.rt, "nelif", 1, 2))
			g.pop()
		}
		if rx.Chance(g.rt, "else", 1, 2) {
			g.line(d, "} else {")
			g.push()
			g.print(d + 1)
			g.stmts(d+1, depth+1, rx.Range(g.rt, "nelse", 1, 3))
			g.pop()
		}
		g.line(d, "}")
		g.pop()
		g.afterBlock(d)
	case 5:
		g.push()
		n, ok := g.newName()
		if !ok {
			g.pop()
			g.print(d)
			return
		}
		g.declare(n)
		g.loopVars[len(g.loopVars)-1][n] = true
		g.line(d, "for %s := 0; %s < %d; %s++ {", n, n, rx.Range(g.rt, "bound", 1, 3), n)
		g.push()
		g.print(d + 1)
		// a variable declared in the body starts fresh on every iteration
		if m, ok := g.newName(); ok && rx.Chance(g.rt, "fresh", 2, 3) {
			if rapid.Bool().Draw(g.rt, "freshvar") {
				g.line(d+1, "var %s int", m)
			} else {
				g.line(d+1, "%s := %s", m, g.expr())
			}
			g.declare(m)
			g.line(d+1, "%s += 7", m)
			g.print(d + 1)
		}
		g.stmts(d+1, depth+1, rx.Range(g.rt, "nbody", 0, 3))
		g.pop()
		g.line(d, "}")
		g.pop()
		g.afterBlock(d)
	case 6:
		g.push()
		src := rx.Pick(g.rt, "rangesrc", "[]int{5, 6}", "\"ab\"", "map[int]int{3: 4}")
		form := rx.Uniform(g.rt, 3, "rangeform")
		k, ok := g.newName()
		if !ok {
			g.pop()
			g.print(d)
			return
		}
		g.declare(k)
		runeVar := ""
		switch form {
		case 0:
			g.line(d, "for %s := range %s {", k, src)
		case 1:
			v, ok2 := g.newName()
			if !ok2 {
				g.line(d, "for %s := range %s {", k, src)
				break
			}
			g.declare(v)
			g.line(d, "for %s, %s := range %s {", k, v, src)
			runeVar = v
		default:
			g.line(d, "for _, %s := range %s {", k, src)
			runeVar = k
		}
		g.push() // the loop body
		if runeVar != "" && strings.HasPrefix(src, "\"") {
			// a rune-typed loop variable cannot be mixed with the int names in Go: shadow it with its int value
			g.line(d+1, "%s := int(%s)", runeVar, runeVar)
			g.declare(runeVar)
		}
		g.print(d + 1)
		g.stmts(d+1, depth+1, rx.Range(g.rt, "nbody", 0, 3))
		g.pop()
		g.line(d, "}")
		g.pop()
		g.afterBlock(d)
	case 8:
		// the range expression mentions the very name the loop re-declares: it must still mean the outer variable
		// (ws is a []int and wss a [][]int declared at the top of the function; neither is otherwise touched)
		g.id++
		id := g.id
		switch rx.Uniform(g.rt, 4, "selfform") {
		case 0:
			g.line(d, "for _, ws := range ws {")
			g.line(d+1, "fmt.Println(\"RS%d\", ws)", id)
		case 1:
			g.line(d, "for ws, e%d := range ws[1:] {", id)
			g.line(d+1, "fmt.Println(\"RS%d\", ws, e%d)", id, id)
		case 2:
			g.line(d, "for _, wss := range wss {")
			g.line(d+1, "for _, wss := range wss {")
			g.line(d+2, "fmt.Println(\"RS%d\", wss)", id)
			g.line(d+1, "}")
		default:
			g.line(d, "for ws := range ws {")
			g.line(d+1, "fmt.Println(\"RS%d\", ws)", id)
		}
		g.push()
		g.stmts(d+1, depth+1, rx.Range(g.rt, "nbody", 0, 2))
		g.pop()
		g.line(d, "}")
		g.line(d, "fmt.Println(\"RA%d\", len(ws), len(wss), ws[0])", id)
		g.print(d)
	default:
		g.push()
		hdr := ""
		if false && rx.Chance(g.rt, "swinit", 1, 3) { // a switch with an init statement is outside goatlang's grammar (clean parse error)
			if n, ok := g.newName(); ok {
				hdr = fmt.Sprintf("%s := %s; ", n, g.expr())
				g.declare(n)
			}
		}
		vis := g.visibleNames()
		tag := rx.Pick(g.rt, "tag", vis...)
		g.line(d, "switch %s%s %% 3 {", hdr, tag)
		order := rapid.Permutation([]int{0, 1, 2}).Draw(g.rt, "caseorder")
		hasDefault := rapid.Bool().Draw(g.rt, "hasdefault")
		for i, cv := range order {
			if hasDefault && i == 1 {
				g.line(d, "default:")
			} else {
				g.line(d, "case %d:", cv)
			}
			g.push()
			g.print(d + 1)
			g.stmts(d+1, depth+1, rx.Range(g.rt, "ncase", 0, 2))
			g.pop()
		}
		g.line(d, "}")
		g.pop()
		g.afterBlock(d)
	}
}

func (g *gen) afterBlock(d int) {
	// the outer bindings are visible again with their values
	for _, n := range names {
		if g.live(n) >= 1 && g.maxLive >= 2 {
			g.readAfterInner = true
		}
	}
	g.print(d)
}

type Case struct {
	Src        string `json:"src"`
	MaxLive    int    `json:"max_live"`
	ReadAfter  bool   `json:"read_after"`
}

func genCase(rt *rapid.T) *Case {
	g := &gen{rt: rt, budget: rx.Range(rt, "budget", 5, 40), maxDepth: rx.Range(rt, "maxdepth", 1, 6)}
	g.push() // function scope: the parameter y lives here
	g.cur()["y"] = true
	var body strings.Builder
	g.print(1)
	g.stmts(1, 0, 30)
	g.print(1)
	body.WriteString(g.sb.String())
	src := "package prog\n\nimport (\n\t\"fmt\"\n\t\"math\"\n\t\"strings\"\n)\n\nvar x = 100\n\nfunc f(y int) int {\n\tws := []int{y, y + 1, y + 2}\n\twss := [][]int{{1, 2}, {3}}\n\t_, _ = ws, wss\n" + body.String() + "\treturn x + y\n}\n\n" +
		// parameters and locals named like imported packages, selecting fields and methods named like members of those
		// packages that the same file also uses: the local binding wins inside its block, the package outside it
		"type pkgbox struct {\n\tSqrt  float64\n\tCount int\n}\n\nfunc (b *pkgbox) Repeat(s string, n int) string {\n\treturn \"local:\" + s\n}\n\nfunc (b *pkgbox) TrimSpace(s string) string {\n\treturn \"up:\" + s\n}\n\n" +
		"func usesPackages() {\n\tfmt.Println(strings.Repeat(\"q\", 2), strings.TrimSpace(\" a \"), strings.Contains(\"aaa\", \"a\"), math.Sqrt(16), math.Pi > 3)\n}\n\n" +
		"func shadowsPackages(strings *pkgbox, n int) {\n\tfmt.Println(strings.Repeat(\"a\", n), strings.TrimSpace(\"b\"), strings.Count)\n\tif n > 0 {\n\t\tmath := &pkgbox{Sqrt: 1.5}\n\t\tfmt.Println(math.Sqrt * 3)\n\t}\n\tfmt.Println(math.Sqrt(9))\n\tfor _, fmtx := range []int{1} {\n\t\tstrings := fmtx\n\t\tfmt.Println(strings + 1)\n\t}\n\tfmt.Println(strings.Repeat(\"z\", 1))\n}\n\n" +
		"func Main() {\n\tfmt.Println(f(1))\n\tfmt.Println(x, strings.TrimSpace(\" main \"))\n\tfmt.Println(f(20))\n\tfmt.Println(x)\n\tusesPackages()\n\tshadowsPackages(&pkgbox{Count: 7}, 2)\n\tusesPackages()\n}\n"
	return &Case{Src: src, MaxLive: g.maxLive, ReadAfter: g.readAfterInner}
}

func check(c *Case) *ev.Failure {
	r := ev.R()
	p := oracle.Single(c.Src)
	v := diffgo.Compare(p, goat.DefaultBudget)
	r.Eval(1)
	if v.Skip != "" {
		r.Class("skipped:" + v.Skip)
		if v.Skip == "go_rejected" {
			r.Note("Go rejected a generated program: %s", firstLine(v.Msg))
		}
		return nil
	}
	r.Class(fmt.Sprintf("max_live_declarations_of_one_name=%d", c.MaxLive))
	if c.MaxLive >= 3 && c.ReadAfter {
		r.Nontrivial(ev.Hash(p.Key()))
	}
	if v.OK {
		return nil
	}
	return &ev.Failure{Kind: "source", Case: c, Msg: v.Msg + "\n" + diffgo.Show(p, v)}
}

func firstLine(s string) string {
	if i := strings.Index(s, "\n"); i > 0 {
		return s[:i]
	}
	return s
}

func TestScopes(t *testing.T) {
	n := 0
	diffgo.TwoPass(t, genCase, func(c *Case) []*oracle.Program { return []*oracle.Program{oracle.Single(c.Src)} }, func(c *Case) *ev.Failure {
		n++
		if n%50 == 1 {
			ev.R().Sample(map[string]any{"source": c.Src})
		}
		return check(c)
	})
}

// ---- the same statements at the top level of a script and inside a function -------------------------------------
//
// In the script dialect if, for, range and switch statements may stand at the top level. Their blocks (and the
// variables their headers declare) are scoped like anywhere else: a generated statement list that declares nothing
// outside of blocks must print the same whether it runs as the body of a function or as top-level statements over the
// same package-level variables x, y, ws, wss.

type TopCase struct {
	Body string `json:"body"`
}

const topHeader = "import \"fmt\"\nimport \"strings\"\nvar x = 100\nvar y = 1\nvar ws = []int{1, 2, 3}\nvar wss = [][]int{{1, 2}, {3}}\nfunc use() {\n\tfmt.Println(strings.Repeat(\"u\", 2), x, y, len(ws), len(wss))\n}\n"

func checkTop(c *TopCase) *ev.Failure {
	inFunc := goat.EvalOnce(topHeader + "func f() {\n" + c.Body + "}\nf()\nuse()\n")
	atTop := goat.EvalOnce(topHeader + c.Body + "use()\n")
	if inFunc.Budget || atTop.Budget {
		ev.R().Class("discarded:budget")
		return nil
	}
	if inFunc.Stdout != atTop.Stdout || inFunc.Failed() != atTop.Failed() {
		g, w := strings.Split(atTop.Stdout, "\n"), strings.Split(inFunc.Stdout, "\n")
		at := 0
		for at < len(g) && at < len(w) && g[at] == w[at] {
			at++
		}
		gl, wl := "(none)", "(none)"
		if at < len(g) {
			gl = g[at]
		}
		if at < len(w) {
			wl = w[at]
		}
		return &ev.Failure{Kind: "toplevel", Case: c, Msg: fmt.Sprintf("the same statements behave differently at the top level of a script and inside a function: output line %d is %q at top level and %q in the function (errors: %q / %q)\n--- statements\n%s", at+1, gl, wl, atTop.ErrString(), inFunc.ErrString(), c.Body)}
	}
	return nil
}

func TestTopLevel(t *testing.T) {
	r := ev.R()
	n := 0
	r.RapidCheck(t, func(rt *rapid.T) *ev.Failure {
		g := &gen{rt: rt, budget: rx.Range(rt, "budget", 5, 30), maxDepth: rx.Range(rt, "maxdepth", 1, 5), top: true}
		g.push()
		g.cur()["y"] = true
		g.print(0)
		g.stmts(0, 0, 30)
		g.print(0)
		c := &TopCase{Body: g.sb.String()}
		r.Eval(1)
		if g.maxLive >= 2 {
			r.Nontrivial(ev.Hash(c.Body))
			r.Class("toplevel:block_redeclares_a_package_level_name")
		}
		n++
		if n%200 == 1 {
			r.Sample(c)
		}
		return checkTop(c)
	})
}

func TestReplay(t *testing.T) {
	ev.R().RunReplays(t, map[string]ev.ReplayFunc{
		"source": func(raw json.RawMessage) *ev.Failure {
			var c Case
			if err := json.Unmarshal(raw, &c); err != nil {
				return &ev.Failure{Kind: "source", Case: string(raw), Msg: "bad replay: " + err.Error()}
			}
			return check(&c)
		},
		"toplevel": func(raw json.RawMessage) *ev.Failure {
			var c TopCase
			if err := json.Unmarshal(raw, &c); err != nil {
				return &ev.Failure{Kind: "toplevel", Case: string(raw), Msg: "bad replay: " + err.Error()}
			}
			return checkTop(&c)
		},
	})
}
