// C02 — the bytecode optimizer is observationally transparent.
//
// Differential between two runs of the same source in fresh VMs, optimizer on (the public default) and off
// (verif hook): printed output, returned values with their dynamic types, success or failure, and the source
// line of a failure. Inputs: generated programs of every profile, type-preserving mutations of them, and every
// string literal of the repository's own test files.
package c02

import (
	"encoding/json"
	"fmt"
	"go/ast"
	"go/parser"
	"go/scanner"
	"go/token"
	"os"
	"path/filepath"
	"regexp"
	"sort"
	"strconv"
	"strings"
	"testing"

	"github.com/philhassey/goatlang"
	"pgregory.net/rapid"

	"verif/internal/ev"
	"verif/internal/gen"
	"verif/internal/goat"
	"verif/internal/oracle"
	"verif/internal/rx"
)

func TestMain(m *testing.M) { ev.Main(m, "C02") }

// ---- observation ------------------------------------------------------------------------------

type obs struct {
	Stdout string
	Rets   []string // "type:value", maps with several entries normalised to a sorted multiset
	Failed bool
	Where  string // function and line of the failing operation
	Err    string
	Budget bool
	Panic  bool
}

var posRe = regexp.MustCompile(`^(?:error in [a-zA-Z ()]+: )*(?:(\S+)\(\.\.\.\) )?(\S+?):(\d+):(\d+)`)

func where(err string) string {
	first := strings.SplitN(err, "\n", 2)[0]
	m := posRe.FindStringSubmatch(first)
	if m == nil {
		return ""
	}
	return m[1] + "@" + m[2] + ":" + m[3]
}

var mapRe = regexp.MustCompile(`map\[([^\[\]]*)\]`)

func normValue(v goatlang.Value) string {
	s := v.String()
	// a rendered map with several entries follows Go's random map order: compare as a multiset of entries
	s = mapRe.ReplaceAllStringFunc(s, func(m string) string {
		parts := strings.Fields(m[4 : len(m)-1])
		sort.Strings(parts)
		return "map[" + strings.Join(parts, " ") + "]"
	})
	return fmt.Sprintf("%d:%s", v.Type(), s)
}

func observe(r goat.Result) obs {
	o := obs{Stdout: mapRe.ReplaceAllStringFunc(r.Stdout, func(m string) string {
		parts := strings.Fields(m[4 : len(m)-1])
		sort.Strings(parts)
		return "map[" + strings.Join(parts, " ") + "]"
	}), Budget: r.Budget, Panic: r.Panic != nil}
	for _, v := range r.Rets {
		o.Rets = append(o.Rets, normValue(v))
	}
	if r.Failed() {
		o.Failed = true
		o.Err = r.ErrString()
		o.Where = where(o.Err)
	}
	return o
}

func diff(on, off obs) string {
	switch {
	case on.Panic || off.Panic:
		if on.Panic != off.Panic {
			return fmt.Sprintf("a Go panic escapes in one mode only (on: %v %s, off: %v %s)", on.Panic, on.Err, off.Panic, off.Err)
		}
	case on.Stdout != off.Stdout:
		return fmt.Sprintf("printed output differs:\n--- optimizer on\n%s--- optimizer off\n%s", clip(on.Stdout), clip(off.Stdout))
	case on.Failed != off.Failed:
		return fmt.Sprintf("outcome differs: optimizer on: %s; optimizer off: %s", outcome(on), outcome(off))
	case on.Failed && on.Where != off.Where:
		return fmt.Sprintf("the failure is reported at different places: optimizer on %q (%s), optimizer off %q (%s)", on.Where, firstLine(on.Err), off.Where, firstLine(off.Err))
	case strings.Join(on.Rets, "|") != strings.Join(off.Rets, "|"):
		return fmt.Sprintf("returned values differ (type:value): optimizer on %v, optimizer off %v", on.Rets, off.Rets)
	}
	return ""
}

func outcome(o obs) string {
	if o.Failed {
		return "failed with " + firstLine(o.Err)
	}
	return "succeeded"
}

func firstLine(s string) string { return strings.SplitN(s, "\n", 2)[0] }

func clip(s string) string {
	if len(s) > 1500 {
		return s[:700] + "\n…\n" + s[len(s)-700:]
	}
	return s
}

// ---- running in both modes --------------------------------------------------------------------

const budget = 2_000_000

func runFiles(files map[string]string, pkg, entry string, optimize bool) obs {
	goat.SetOptimize(optimize)
	defer goat.SetOptimize(true)
	return observe(goat.RunProgram(files, pkg, entry, budget))
}

func runEval(src string, optimize bool) obs {
	goat.SetOptimize(optimize)
	defer goat.SetOptimize(true)
	vm := goat.New()
	return observe(vm.Eval(nil, src, budget))
}

var fusedOps = map[string]bool{"LOCALINCDEC": true, "LOCALADD": true, "LOCALSUB": true, "LOCALMUL": true, "LOCALDIV": true, "FASTGET": true, "FASTSET": true,
	"FASTGETINT": true, "FASTSETINT": true, "FASTCALLATTR": true, "FASTCALL": true, "FASTGETATTR": true, "FASTSETATTR": true, "INCDEC": true, "PASS": true}

// fusions returns how often each rewritten instruction occurs in the optimized code of an Eval input.
func fusionsEval(src string) map[string]int {
	goat.SetOptimize(true)
	defer func() { recover() }()
	code, _, err := goatlang.VerifCompileEval(goatlang.New(), goat.FS(nil), "eval.go", src, nil)
	if err != nil {
		return nil
	}
	return countFused(code)
}

func fusionsLoad(files map[string]string, pkg string) map[string]int {
	goat.SetOptimize(true)
	defer func() { recover() }()
	code, _, err := goatlang.VerifCompileLoad(goatlang.New(), goat.FS(files), pkg)
	if err != nil {
		return nil
	}
	return countFused(code)
}

func countFused(code []goatlang.VerifInstr) map[string]int {
	m := map[string]int{}
	for _, i := range code {
		if fusedOps[i.Op] {
			m[i.Op]++
		}
	}
	return m
}

func recordFusions(m map[string]int) bool {
	r := ev.R()
	any := false
	for op, n := range m {
		r.ClassN("rule_hits:"+op, n)
		any = true
	}
	return any
}

// ---- generated programs and mutations ---------------------------------------------------------

type Case struct {
	Files   map[string]string `json:"files"`
	Mutated bool              `json:"mutated"`
}

func progFiles(files map[string]string) (map[string]string, string) {
	p := &oracle.Program{Files: files}
	out := map[string]string{}
	for n, c := range p.Resolved() {
		out["batch/"+n] = c
	}
	return out, p.Root()
}

func checkCase(c *Case) *ev.Failure {
	r := ev.R()
	files, root := progFiles(c.Files)
	on := runFiles(files, root, root+".Main", true)
	off := runFiles(files, root, root+".Main", false)
	r.Eval(1)
	if on.Budget || off.Budget {
		r.Class("discarded:budget")
		return nil
	}
	if recordFusions(fusionsLoad(files, root)) {
		r.Nontrivial(ev.HashJSON(c.Files))
	}
	if c.Mutated {
		r.Class("mutated_program")
	}
	if on.Failed {
		r.Class("program_fails_at_run_time_or_earlier")
	}
	if d := diff(on, off); d != "" {
		return &ev.Failure{Kind: "program", Case: c, Msg: d + "\n--- prog.go\n" + c.Files["prog.go"]}
	}
	return nil
}

// mutate applies type-preserving edits to lines of the main file: comparison operators within their class,
// && <-> ||, == <-> !=, ++ <-> --, += <-> -= with a numeric literal, x++ <-> x += 1. Loop headers, case labels and
// declarations of functions are left alone (termination and duplicate-case rules).
func mutate(rt *rapid.T, src string) string {
	lines := strings.Split(src, "\n")
	n := rx.Range(rt, "nmut", 1, 6)
	for k := 0; k < n; k++ {
		i := rx.Uniform(rt, len(lines), "mutline")
		l := lines[i]
		t := strings.TrimSpace(l)
		if strings.HasPrefix(t, "for ") || strings.HasPrefix(t, "case ") || strings.HasPrefix(t, "func ") || strings.HasPrefix(t, "import") || strings.HasPrefix(t, "switch") || strings.Contains(t, "Println(\"") && !strings.Contains(t, "==") {
			continue
		}
		lines[i] = mutateLine(rt, l)
	}
	return strings.Join(lines, "\n")
}

var cmpSwap = map[token.Token][]string{token.LSS: {"<=", ">", ">="}, token.LEQ: {"<", ">", ">="}, token.GTR: {">=", "<", "<="}, token.GEQ: {">", "<", "<="},
	token.EQL: {"!="}, token.NEQ: {"=="}, token.LAND: {"||"}, token.LOR: {"&&"}, token.INC: {"--"}, token.DEC: {"++"}}

func mutateLine(rt *rapid.T, line string) string {
	var s scanner.Scanner
	fset := token.NewFileSet()
	f := fset.AddFile("", fset.Base(), len(line))
	s.Init(f, []byte(line), nil, 0)
	type tk struct {
		off int
		tok token.Token
		lit string
	}
	var toks []tk
	for {
		pos, tok, lit := s.Scan()
		if tok == token.EOF {
			break
		}
		toks = append(toks, tk{f.Offset(pos), tok, lit})
	}
	var cands []int
	for i, t := range toks {
		if _, ok := cmpSwap[t.tok]; ok {
			cands = append(cands, i)
		}
		if (t.tok == token.ADD_ASSIGN || t.tok == token.SUB_ASSIGN) && i+1 < len(toks) && (toks[i+1].tok == token.INT || toks[i+1].tok == token.FLOAT) {
			cands = append(cands, i)
		}
	}
	if len(cands) == 0 {
		return line
	}
	i := cands[rx.Uniform(rt, len(cands), "muttok")]
	t := toks[i]
	var repl string
	switch t.tok {
	case token.ADD_ASSIGN:
		repl = "-="
	case token.SUB_ASSIGN:
		repl = "+="
	default:
		opts := cmpSwap[t.tok]
		repl = opts[rx.Uniform(rt, len(opts), "mutrepl")]
	}
	return line[:t.off] + repl + line[t.off+len(t.tok.String()):]
}

func genCase(rt *rapid.T) *Case {
	p := gen.Profiles[rx.Uniform(rt, len(gen.Profiles), "profile")]
	p.Panics = true
	prog, _ := gen.Program(rt, p)
	c := &Case{Files: prog.Files}
	if rx.Chance(rt, "mutate", 1, 2) {
		c.Files["prog.go"] = mutate(rt, c.Files["prog.go"])
		c.Mutated = true
	}
	return c
}

func TestPrograms(t *testing.T) {
	n := 0
	ev.R().RapidCheck(t, func(rt *rapid.T) *ev.Failure {
		c := genCase(rt)
		n++
		if n%200 == 1 {
			ev.R().Sample(map[string]any{"mutated": c.Mutated, "source": c.Files["prog.go"]})
		}
		return checkCase(c)
	})
}

// ---- peephole-dense snippets: one function per statement shape that a rewrite rule matches ------

var shapes = []string{
	"x := a + b", "x := a - b", "x := a * b", "x := a / (b | 1)", "x := a + 1", "x := a - 1", "x := a - 0", "x := 1 + a", "x := a + 100000",
	"a++", "a--", "a += 2", "a -= 3", "a = a + 1", "a = a - 1", "f++", "f -= 0.5", "u8++", "u8 -= 1", "i8 += 100", "u32--", "s += \"x\"",
	"x := sl[0]", "x := sl[1] + sl[2]", "sl[0] = a", "sl[2]++", "sl[1] += a", "x := m[\"k\"]", "m[\"k\"] = a", "m[\"k\"] += 2", "m[\"z\"]++",
	"x := mi[1]", "mi[2] = a", "mi[3000000000] = a", "x := mi[3000000000]",
	"x := p.V", "p.V = a", "p.V++", "p.V += b", "x := p.Get()", "x := p.Add(a)", "p.Set(a)", "x := p.N.V", "p.N.V = b",
	"x := id(a)", "x := add(a, b)", "noop()", "x := add(id(a), id(b))", "x := a", "_ = a",
	"x := a ;; if a > b { x = b } else { }", "x := a ;; if a > b { } else { x = b }", "x := 0 ;; for i := 0; i < 3; i++ { x += i }", "x := 0 ;; for { x++ ;; if x > 2 { break } }",
	"mi[3000000000] = a ;; v9, ok9 := mi[3000000000] ;; fmt.Println(v9, ok9)", "nz := f - f ;; nz = nz * -1 ;; nz = nz - 0 ;; fmt.Println(1 / nz)",
	// variadic functions and methods with typed tails, receivers in locals, fields and globals
	"fmt.Println(p.Ratio(1, 2))", "fmt.Println(p.Wrap(200, 100))", "x := p.Sum(1, 2, 3)", "fmt.Println(p.Cat(\"a\", \"b\", \"c\"))", "fmt.Println(p.N.Ratio(3, 2))",
	"q := p.N ;; fmt.Println(q.Wrap(250, 10), q.Ratio(1, 4))", "fmt.Println(ratio(1, 2), wrap(200, 100))", "fr := p.Ratio ;; fmt.Println(fr(1, 2))", "fs := []float64{1, 2} ;; fmt.Println(p.Ratio(fs...))",
	"fmt.Println(p.Ratio(), p.Sum(), len(p.Cat(\"z\")))", "x := p.Sum(a, b) + p.Sum(1)", "fmt.Println(gp.Ratio(1, 2), gp.Wrap(200, 100))",
	// int32 locals at the limits of their range, changed in place
	"hi := 2147483647 ;; hi++ ;; fmt.Println(hi, hi < 0)", "lo := -2147483648 ;; lo-- ;; fmt.Println(lo, lo > 0)", "hi := 2147483640 ;; for k := 0; k < 6; k++ { hi += 3 } ;; fmt.Println(hi)",
	"hi := 2147483647 ;; hi = hi + 1 ;; x = hi / 2", "hi := 2147483647 ;; hi += a ;; fmt.Println(hi, hi - 1)", "var r rune = 2147483647 ;; r++ ;; fmt.Println(r)", "lo := -2147483647 ;; lo -= 2 ;; fmt.Println(lo)",
	"hf := 2147483647.0 ;; hf++ ;; fmt.Println(hf)", "var w uint32 = 4294967295 ;; w++ ;; fmt.Println(w)", "var w uint32 = 0 ;; w-- ;; fmt.Println(w)",
	// a package-level function variable called from one call site that runs several times and is reassigned in between
	"gfn = id ;; for k := 0; k < 3; k++ { x += gfn(k + 1) ;; gfn = dbl } ;; fmt.Println(x)", "gfn = dbl ;; x = gfn(2) ;; gfn = id ;; x += gfn(2)",
	"for k := 0; k < 4; k++ { if k % 2 == 0 { gfn = id } else { gfn = dbl } ;; x += gfn(10) }", "gfn = id ;; apply := func(v int) int { return gfn(v) } ;; x = apply(3) ;; gfn = dbl ;; x += apply(3)",
	// the same field of two different struct variables on both sides
	"q := p.N ;; p.V = q.V + 1 ;; fmt.Println(p.V, q.V)", "q := p.N ;; q.V = p.V - 1 ;; fmt.Println(p.V, q.V)", "q := &P{V: 40} ;; for k := 0; k < 2; k++ { p.V = q.V + 2 } ;; fmt.Println(p.V, q.V)",
	"x := a > 1 && b > 1", "x := a > 1 || b/(a-a) > 1", "x := nm[\"k\"]", "x := len(ns)", "x := -a", "x := ^a", "x := a &^ 1", "x := a << 2 - 1",
}

func shapeSrc(shape string, position int) string {
	hdr := "import \"fmt\"\ntype P struct { V int; N *P }\nfunc (p *P) Get() int { return p.V }\nfunc (p *P) Add(a int) int { return p.V + a }\nfunc (p *P) Set(a int) { p.V = a }\n" +
		"func id(a int) int { return a }\nfunc add(a int, b int) int { return a + b }\nfunc noop() { }\nvar ga, gb int = 7, 3\n" +
		"func (p *P) Ratio(xs ...float64) float64 { if len(xs) < 2 { return -1 }; return xs[0] / xs[1] }\nfunc (p *P) Wrap(xs ...byte) byte { return xs[0] + xs[1] }\nfunc (p *P) Sum(xs ...int) int { t := p.V; for _, x := range xs { t += x }; return t }\n" +
		"func (p *P) Cat(pre string, xs ...string) string { for _, x := range xs { pre += x }; return pre }\nfunc dbl(a int) int { return a * 2 }\nvar gfn func(int) int\nfunc ratio(xs ...float64) float64 { return xs[0] / xs[1] }\nfunc wrap(xs ...byte) byte { return xs[0] + xs[1] }\nvar gp = &P{V: 1}\n"
	locals := "a, b := 7, 3; f := 1.5; var u8 uint8 = 255; var i8 int8 = 100; var u32 uint32 = 0; s := \"s\"; sl := []int{1, 2, 3}; m := map[string]int{\"k\": 1}; mi := map[uint32]int{1: 1}; p := &P{V: 5, N: &P{V: 6}}; var nm map[string]int; var ns []int; x := 0; _ = x"
	dump := "fmt.Println(a, b, f, u8, i8, u32, s, sl, len(m), m[\"k\"], m[\"z\"], len(mi), mi[3000000000], p.V, p.N.V, len(nm), len(ns))"
	stmt := strings.ReplaceAll(shape, "x :=", "x =")
	switch position {
	case 0: // inside a function: locals
		return hdr + "func run() {\n\t" + strings.ReplaceAll(locals, "; ", "\n\t") + "\n\t" + strings.ReplaceAll(stmt, " ;; ", "\n\t") + "\n\tfmt.Println(x)\n\t" + dump + "\n}\nrun()\n"
	case 1: // at top level: globals
		return hdr + strings.ReplaceAll(locals, "; ", "\n") + "\n" + strings.ReplaceAll(stmt, " ;; ", "\n") + "\nfmt.Println(x)\n" + dump + "\n"
	default: // inside nested blocks of a function
		return hdr + "func run() {\n\t" + strings.ReplaceAll(locals, "; ", "\n\t") + "\n\tfor k := 0; k < 2; k++ {\n\t\tif k >= 0 && a > 0 || b > 100 {\n\t\t\tswitch k {\n\t\t\tcase 0, 1:\n\t\t\t\t" +
			strings.ReplaceAll(stmt, " ;; ", "\n\t\t\t\t") + "\n\t\t\t\tfmt.Println(x)\n\t\t\t}\n\t\t}\n\t}\n\t" + dump + "\n}\nrun()\n"
	}
}

// TestShapes runs every rule-matching statement shape in three positions (regression tier for the rule table).
func TestShapes(t *testing.T) {
	r := ev.R()
	r.Disjoint()
	for i, sh := range shapes {
		for pos := 0; pos < 3; pos++ {
			src := shapeSrc(sh, pos)
			on, off := runEval(src, true), runEval(src, false)
			r.Eval(1)
			if recordFusions(fusionsEval(src)) {
				r.NontrivialN(1)
			}
			if i%12 == 0 && pos == 0 {
				r.Sample(map[string]any{"shape": sh, "source": src})
			}
			if d := diff(on, off); d != "" {
				r.Fail(t, &ev.Failure{Kind: "eval", Case: map[string]string{"src": src}, Msg: fmt.Sprintf("statement shape %q: %s\n--- source\n%s", sh, d, src)})
				return
			}
			if on.Failed && !strings.Contains(sh, "a-a") {
				r.Note("shape %q fails in both modes: %s", sh, firstLine(on.Err))
			}
		}
	}
}

// ---- the repository's own test tables ---------------------------------------------------------

func tableStrings() ([]string, error) {
	files, _ := filepath.Glob("/repo/*_test.go")
	seen := map[string]bool{}
	var out []string
	for _, f := range files {
		fset := token.NewFileSet()
		af, err := parser.ParseFile(fset, f, nil, 0)
		if err != nil {
			return nil, err
		}
		ast.Inspect(af, func(n ast.Node) bool {
			if bl, ok := n.(*ast.BasicLit); ok && bl.Kind == token.STRING {
				if s, err := strconv.Unquote(bl.Value); err == nil && !seen[s] && strings.TrimSpace(s) != "" {
					seen[s] = true
					out = append(out, s)
				}
			}
			return true
		})
	}
	sort.Strings(out)
	return out, nil
}

func nondeterministic(s string) bool {
	for _, w := range []string{"rand.", "time.Now", "UnixMilli", "os.ReadFile", "os.WriteFile", "time.Sleep"} {
		if strings.Contains(s, w) {
			return true
		}
	}
	return false
}

func TestTables(t *testing.T) {
	r := ev.R()
	r.Disjoint()
	strs, err := tableStrings()
	if err != nil {
		r.Infra("cannot read the repository's test files: %v", err)
		t.Fatal(err)
	}
	if len(strs) < 500 {
		r.Infra("only %d string literals found in /repo/*_test.go", len(strs))
	}
	for i, s := range strs {
		if !r.Mine(i) {
			continue
		}
		if nondeterministic(s) {
			r.Class("table_string_skipped:nondeterministic_builtin")
			continue
		}
		on, off := runEval(s, true), runEval(s, false)
		r.Eval(1)
		if on.Budget || off.Budget {
			r.Class("discarded:budget")
			continue
		}
		switch {
		case strings.HasPrefix(on.Err, "error in tokenize"):
			r.Class("table_string:tokenize_error")
		case strings.HasPrefix(on.Err, "error in parse"):
			r.Class("table_string:parse_error")
		case on.Failed:
			r.Class("table_string:fails_later")
		default:
			r.Class("table_string:runs")
		}
		if recordFusions(fusionsEval(s)) {
			r.NontrivialN(1)
		}
		if i%300 == 7 {
			r.Sample(map[string]any{"test_table_string": s})
		}
		if d := diff(on, off); d != "" {
			r.Fail(t, &ev.Failure{Kind: "eval", Case: map[string]string{"src": s}, Msg: fmt.Sprintf("test-table input %q: %s", s, d)})
			return
		}
	}
	r.Note("%d distinct string literals extracted from /repo/*_test.go", len(strs))
}

func TestReplay(t *testing.T) {
	ev.R().RunReplays(t, map[string]ev.ReplayFunc{
		"program": func(raw json.RawMessage) *ev.Failure {
			var c Case
			if err := json.Unmarshal(raw, &c); err != nil {
				return &ev.Failure{Kind: "program", Case: string(raw), Msg: "bad replay: " + err.Error()}
			}
			return checkCase(&c)
		},
		"splice": func(raw json.RawMessage) *ev.Failure {
			var c SpliceCase
			json.Unmarshal(raw, &c)
			return checkSplice(&c)
		},
		"eval": func(raw json.RawMessage) *ev.Failure {
			var c map[string]string
			json.Unmarshal(raw, &c)
			on, off := runEval(c["src"], true), runEval(c["src"], false)
			if d := diff(on, off); d != "" {
				return &ev.Failure{Kind: "eval", Case: c, Msg: fmt.Sprintf("input %q: %s", c["src"], d)}
			}
			return nil
		},
	})
}

var _ = os.Getenv
