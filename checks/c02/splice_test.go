package c02

// Token-level variants: generated programs are edited at token level (deleted, duplicated, swapped, replaced and
// inserted tokens, splices of two programs); the variants that are still well-typed Go inside the supported subset (internal/gotype decides) are run in
// both optimizer modes. They are shapes no grammar-directed generator writes on purpose.

import (
	"fmt"
	"strings"
	"testing"

	"pgregory.net/rapid"

	"verif/internal/ev"
	"verif/internal/gen"
	"verif/internal/gotype"
	"verif/internal/rx"
	"verif/internal/tokmut"
)

type SpliceCase struct {
	Src     string `json:"src"`
	Package bool   `json:"package"` // a package file (Load + Main) instead of an Eval input
}

func genSplice(rt *rapid.T) *SpliceCase {
	ts := tokmut.TableStrings()
	p := gen.Profiles[rx.Uniform(rt, 4, "profile")]
	p.MaxStmts = 12
	prog, _ := gen.Program(rt, p)
	var other []string
	if rapid.Bool().Draw(rt, "otherIsProgram") {
		q := gen.Profiles[rx.Uniform(rt, 4, "profile2")]
		q.MaxStmts = 12
		prog2, _ := gen.Program(rt, q)
		other = tokmut.Tokens(prog2.Files["prog.go"])
	} else {
		other = tokmut.Tokens(ts[rx.Uniform(rt, len(ts), "other")])
	}
	return &SpliceCase{Package: true, Src: strings.Join(tokmut.Mutate(rt, tokmut.Tokens(prog.Files["prog.go"]), other), "")}
}

func checkSplice(c *SpliceCase) *ev.Failure {
	r := ev.R()
	if tokmut.Nondeterministic(c.Src) {
		r.Class("splice:skipped_nondeterministic")
		return nil
	}
	// the property quantifies over well-typed Go: variants that Go's type checker rejects are out of its domain
	if c.Package {
		if why := gotype.Check(c.Src); why != "" {
			if strings.HasPrefix(why, "subset:") {
				r.Class("splice:well_typed_but_outside_the_supported_subset")
			} else {
				r.Class("splice:not_well_typed_go")
			}
			return nil
		}
	}
	var on, off obs
	var fused map[string]int
	if c.Package {
		files := map[string]string{"prog/prog.go": c.Src}
		on, off = runFiles(files, "prog", "prog.Main", true), runFiles(files, "prog", "prog.Main", false)
		fused = fusionsLoad(files, "prog")
	} else {
		on, off = runEval(c.Src, true), runEval(c.Src, false)
		fused = fusionsEval(c.Src)
	}
	r.Eval(1)
	if on.Budget || off.Budget {
		r.Class("discarded:budget")
		return nil
	}
	switch {
	case strings.HasPrefix(on.Err, "error in tokenize"), strings.HasPrefix(on.Err, "error in parse"):
		r.Class("splice:rejected_by_parser")
	case strings.HasPrefix(on.Err, "error in compile"), strings.HasPrefix(on.Err, "error in load"):
		r.Class("splice:rejected_by_compiler")
	case on.Failed:
		r.Class("splice:fails_at_run_time")
	default:
		r.Class("splice:runs")
	}
	if len(fused) > 0 && !strings.HasPrefix(on.Err, "error in parse") && !strings.HasPrefix(on.Err, "error in tokenize") {
		recordFusions(fused)
		r.Nontrivial(ev.Hash(c.Src))
	}
	if d := diff(on, off); d != "" {
		return &ev.Failure{Kind: "splice", Case: c, Msg: fmt.Sprintf("token-level variant (package=%v): %s\n--- source\n%s", c.Package, d, clip(c.Src))}
	}
	return nil
}

func TestSplices(t *testing.T) {
	n := 0
	ev.R().RapidCheck(t, func(rt *rapid.T) *ev.Failure {
		c := genSplice(rt)
		n++
		if n%500 == 1 {
			ev.R().Sample(c)
		}
		return checkSplice(c)
	})
}

func clipTo(s string, n int) string {
	if len(s) > n {
		return s[:n] + "…"
	}
	return s
}
