package c14

// Struct types that were declared before. One VM evaluates a first declaration of T (some of the final fields, in an
// order of its own) and then the final declaration; an instance created afterwards renders its fields in the order of
// the declaration in force, like an instance on a VM that never saw the earlier one.

import (
	"encoding/json"
	"fmt"
	"strings"
	"testing"

	"pgregory.net/rapid"

	"verif/internal/ev"
	"verif/internal/goat"
	"verif/internal/rx"
)

type RDCase struct {
	Final []string `json:"final"` // field names of the final declaration, in order
	First []string `json:"first"` // field names of the earlier declaration (a subset, in its own order)
	Load  bool     `json:"load"`  // both declarations arrive through Load of a package (a reload) instead of Eval
}

func (c *RDCase) decl(names []string) string {
	var sb strings.Builder
	sb.WriteString("type T struct {\n")
	for _, n := range names {
		fmt.Fprintf(&sb, "\t%s int\n", n)
	}
	sb.WriteString("}\n")
	return sb.String()
}

func checkRedecl(c *RDCase) (f *ev.Failure) {
	mk := func(format string, a ...any) *ev.Failure {
		return &ev.Failure{Kind: "redeclared", Case: c, Msg: fmt.Sprintf(format, a...)}
	}
	defer func() {
		if r := recover(); r != nil {
			f = mk("host panic: %v", r)
		}
	}()
	var parts []string
	for i, n := range c.Final {
		parts = append(parts, fmt.Sprintf("%s:%d", n, i+1))
	}
	want := "&{" + strings.Join(parts, " ") + "}\n"
	var lit []string
	for i := len(c.Final) - 1; i >= 0; i-- { // the literal names the fields in reverse order
		lit = append(lit, fmt.Sprintf("%s: %d", c.Final[i], i+1))
	}
	use := "func Show() {\n\tu := &T{" + strings.Join(lit, ", ") + "}\n\tfmt.Println(u)\n}\n"
	vm := goat.New()
	var r goat.Result
	if c.Load {
		first := goat.FS(map[string]string{"app/app.go": "package app\n\nimport \"fmt\"\n\n" + c.decl(c.First) + "\nfunc Show() {\n\tfmt.Println(&T{})\n}\n"})
		if r = vm.Load(first, "app", goat.DefaultBudget); r.Failed() {
			return mk("loading the first version failed: %s", r.ErrString())
		}
		second := goat.FS(map[string]string{"app/app.go": "package app\n\nimport \"fmt\"\n\n" + c.decl(c.Final) + "\n" + use})
		if r = vm.Load(second, "app", goat.DefaultBudget); r.Failed() {
			return mk("loading the second version failed: %s", r.ErrString())
		}
		r = vm.Call("app.Show", 0, goat.DefaultBudget)
	} else {
		if r = vm.Eval(nil, c.decl(c.First)+"old := &T{}\n", goat.DefaultBudget); r.Failed() {
			return mk("the first declaration failed: %s", r.ErrString())
		}
		r = vm.Eval(nil, "import \"fmt\"\n"+c.decl(c.Final)+use+"Show()\n", goat.DefaultBudget)
	}
	if r.Failed() || r.Stdout != want {
		return mk("T was first declared with the fields %v and then with %v: a new instance prints %q %s, Go prints %q (fields in the order of the declaration in force)", c.First, c.Final, r.Stdout, r.ErrString(), want)
	}
	return nil
}

func TestRedeclaredStructs(t *testing.T) {
	r := ev.R()
	n := 0
	r.RapidCheck(t, func(rt *rapid.T) *ev.Failure {
		nf := rx.Range(rt, "nfields", 1, 9)
		var names []string
		for i := 0; i < nf; i++ {
			names = append(names, fmt.Sprintf("%c%d", 'A'+rx.Uniform(rt, 6, "letter"), i))
		}
		c := &RDCase{Final: names, Load: rapid.Bool().Draw(rt, "load")}
		for _, nme := range rapid.Permutation(names).Draw(rt, "firstorder") {
			if rx.Chance(rt, "infirst", 1, 2) {
				c.First = append(c.First, nme)
			}
		}
		r.Eval(1)
		if len(c.Final)-len(c.First) >= 2 {
			r.Nontrivial(ev.HashJSON(c))
			r.Class("redeclared_struct_gains_two_or_more_fields")
		}
		n++
		if n%300 == 1 {
			r.Sample(c)
		}
		return checkRedecl(c)
	})
}

func replayRedecl(raw json.RawMessage) *ev.Failure {
	var c RDCase
	if err := json.Unmarshal(raw, &c); err != nil {
		return &ev.Failure{Kind: "redeclared", Case: string(raw), Msg: "bad replay: " + err.Error()}
	}
	return checkRedecl(&c)
}
