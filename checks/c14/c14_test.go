// C14 — printed values look as Go prints them, and printing always terminates.
//
// Values are generated as typed trees (scalars, slices, single-entry maps, struct references), built both
// on the host side (constructors) and in scripts (literals), and rendered through Value.String, println,
// fmt.Println (1-4 operands), fmt.Print and fmt.Sprint. The oracle is fmt.Sprint of a native mirror value
// built by reflection (struct references use the property's own &{Field:value} form). Cyclic object graphs
// are rendered in a child process, where running out of stack is the violation.
package c14

import (
	"bytes"
	"encoding/json"
	"fmt"
	"math"
	"os"
	"os/exec"
	"reflect"
	"runtime/debug"
	"strconv"
	"strings"
	"testing"

	"github.com/philhassey/goatlang"
	"pgregory.net/rapid"

	"verif/internal/ev"
	"verif/internal/goat"
	"verif/internal/rx"
)

func TestMain(m *testing.M) {
	if os.Getenv("C14_CHILD") != "" {
		childMain()
		return
	}
	ev.Main(m, "C14")
}

// ---- typed value trees ------------------------------------------------------------------------

// V is a value tree.
type V struct {
	K      string  `json:"k"` // bool int8 uint8 int32 uint32 float64 string slice map struct any
	B      bool    `json:"b,omitempty"`
	I      int64   `json:"i,omitempty"`
	FBits  uint64  `json:"fbits,omitempty"`
	S      string  `json:"s,omitempty"`
	Elem   *T      `json:"elem,omitempty"`   // slice/map element type
	Key    *V      `json:"key,omitempty"`    // map: the single entry (nil = empty map)
	Items  []*V    `json:"items,omitempty"`  // slice elements / map value (Items[0]) / struct field values
	Struct int     `json:"struct,omitempty"` // struct type index
	Nil    bool    `json:"nil,omitempty"`    // nil slice / nil map
	// top-level maps only: further keys that were inserted (with value GoneVal) and deleted again before printing
	Gone    []*V `json:"gone,omitempty"`
	GoneVal *V   `json:"gone_val,omitempty"`
	// top-level slices in script forms only: the slice is printed once holding Prev (same length), then overwritten
	// element by element through Mut (0 a reslice of it, 1 copy, 2 a second variable holding it) and printed again
	Prev []*V `json:"prev,omitempty"`
	Mut  int  `json:"mut,omitempty"`
}

// T is a type.
type T struct {
	K      string `json:"k"`
	Elem   *T     `json:"elem,omitempty"`
	KeyK   string `json:"keyk,omitempty"`
	Struct int    `json:"struct,omitempty"`
}

// StructDef declares a struct type Tn with fields F0..Fk of the given types.
type StructDef struct {
	Fields []*T `json:"fields"`
}

var scalarKinds = []string{"bool", "int8", "uint8", "int32", "uint32", "float64", "string"}
var keyKinds = []string{"int32", "string", "uint8", "bool", "float64", "uint32", "int8"}

func (t *T) goName() string {
	switch t.K {
	case "slice":
		return "[]" + t.Elem.goName()
	case "map":
		return "map[" + t.KeyK + "]" + t.Elem.goName()
	case "struct":
		return fmt.Sprintf("*T%d", t.Struct)
	case "int32":
		return "int"
	}
	return t.K
}

func (t *T) container() bool { return t.K == "slice" || t.K == "map" || t.K == "struct" }

// depth is the number of nested container levels.
func (v *V) depth(defs []StructDef) int {
	switch v.K {
	case "slice", "struct":
		d := 0
		for _, it := range v.Items {
			if x := it.depth(defs); x > d {
				d = x
			}
		}
		return d + 1
	case "map":
		d := 0
		if v.Key != nil {
			d = v.Items[0].depth(defs)
		}
		return d + 1
	}
	return 0
}

var floatClasses = []float64{0, 1, -1, 0.5, 1.5, 2.25, 100, 1e6, 123456789, 1e20, 1e21, 1.5e21, 1e22, 1e-4, 1e-5, 0.00001234, 1e100, 1e-100, 1 << 53, 1<<53 + 2, 1<<53 - 1,
	math.MaxFloat64, math.SmallestNonzeroFloat64, 2.2250738585072014e-308, 0.1, 0.2, 0.30000000000000004, 1.0 / 3, 5e-324, 123456.789, 1e15, 1e16, 2.5e-7, 4000000000, 2147483648}

func genScalar(rt *rapid.T, k string, hostOnly bool) *V {
	v := &V{K: k}
	switch k {
	case "bool":
		v.B = rapid.Bool().Draw(rt, "b")
	case "int8":
		v.I = int64(rx.Pick(rt, "i8", int8(0), 1, -1, 127, -128, 7, -100))
	case "uint8":
		v.I = int64(rx.Pick(rt, "u8", uint8(0), 1, 127, 128, 255, 200))
	case "int32":
		v.I = int64(rx.Pick(rt, "i32", int32(0), 1, -1, 42, math.MaxInt32, math.MinInt32, 65536, -32769, 1000000))
	case "uint32":
		v.I = int64(rx.Pick(rt, "u32", uint32(0), 1, 2147483647, 2147483648, 4294967295, 3000000000, 65536))
	case "float64":
		var f float64
		switch rx.Uniform(rt, 10, "fclass") {
		case 0, 1, 2, 3, 4:
			f = rx.Pick(rt, "f", floatClasses...)
			if rapid.Bool().Draw(rt, "neg") {
				f = -f
			}
		case 5, 6:
			// short decimals
			f = float64(rapid.IntRange(-100000, 100000).Draw(rt, "fn")) / float64(rx.Pick(rt, "fd", 1, 2, 4, 8, 10, 100, 1000))
		default:
			f = math.Float64frombits(rapid.Uint64().Draw(rt, "fbits"))
			if math.IsNaN(f) || math.IsInf(f, 0) {
				if !hostOnly {
					f = 1.25
				}
			}
		}
		if hostOnly && rx.Chance(rt, "special", 1, 12) {
			f = rx.Pick(rt, "fs", math.Inf(1), math.Inf(-1), math.NaN(), math.Copysign(0, -1))
		}
		if !hostOnly && f == 0 {
			f = 0 // no negative zero literal
		}
		v.FBits = math.Float64bits(f)
	case "string":
		v.S = rx.Pick(rt, "s", "", "a", "hello world", "é€", "x y", "\t", "quote\"s", "[1 2]", "map[a:1]", "nil", "0", "a\nb", "50%", "%d", "100%% %s", "%v%", "%!(x)")
	}
	return v
}

type genCtx struct {
	defs     []StructDef
	maxDepth int
	hostOnly bool
}

func (g *genCtx) genType(rt *rapid.T, depth int) *T {
	if depth >= g.maxDepth || rx.Chance(rt, "scalar", 2, 5) {
		return &T{K: rx.Pick(rt, "kind", scalarKinds...)}
	}
	switch rx.Weighted(rt, "ctype", 5, 3, 3) {
	case 0:
		return &T{K: "slice", Elem: g.genType(rt, depth+1)}
	case 1:
		return &T{K: "map", KeyK: rx.Pick(rt, "keyk", keyKinds...), Elem: g.genType(rt, depth+1)}
	default:
		// a new struct type whose fields fit in the remaining depth
		n := rx.Range(rt, "nfields", 0, 5)
		def := StructDef{}
		idx := len(g.defs)
		g.defs = append(g.defs, def)
		for i := 0; i < n; i++ {
			def.Fields = append(def.Fields, g.genType(rt, depth+1))
		}
		g.defs[idx] = def
		return &T{K: "struct", Struct: idx}
	}
}

func (g *genCtx) genValue(rt *rapid.T, t *T, top bool) *V {
	switch t.K {
	case "slice":
		v := &V{K: "slice", Elem: t.Elem}
		if top && rx.Chance(rt, "nilslice", 1, 10) {
			v.Nil = true
			return v
		}
		n := rx.Range(rt, "n", 0, 3)
		for i := 0; i < n; i++ {
			v.Items = append(v.Items, g.genValue(rt, t.Elem, false))
		}
		return v
	case "map":
		v := &V{K: "map", Elem: t.Elem, S: t.KeyK}
		shape := rx.Uniform(rt, 6, "mapshape")
		if shape == 0 && !top {
			shape = 1
		}
		switch shape {
		case 0:
			v.Nil = true
		case 1:
		default:
			v.Key = genScalar(rt, t.KeyK, false)
			if t.KeyK == "float64" && (math.IsNaN(math.Float64frombits(v.Key.FBits))) {
				v.Key.FBits = math.Float64bits(2.5)
			}
			v.Items = []*V{g.genValue(rt, t.Elem, false)}
		}
		return v
	case "struct":
		v := &V{K: "struct", Struct: t.Struct}
		for _, ft := range g.defs[t.Struct].Fields {
			v.Items = append(v.Items, g.genValue(rt, ft, false))
		}
		return v
	}
	return genScalar(rt, t.K, g.hostOnly)
}

// ---- reference rendering ----------------------------------------------------------------------

func (v *V) float() float64 { return math.Float64frombits(v.FBits) }

func scalarGo(v *V) any {
	switch v.K {
	case "bool":
		return v.B
	case "int8":
		return int8(v.I)
	case "uint8":
		return uint8(v.I)
	case "int32":
		return int32(v.I)
	case "uint32":
		return uint32(v.I)
	case "float64":
		return v.float()
	case "string":
		return v.S
	}
	panic("scalar " + v.K)
}

func typeHasStruct(t *T) bool {
	return t != nil && (t.K == "struct" || typeHasStruct(t.Elem))
}

func hasStruct(v *V) bool {
	if v.K == "struct" || typeHasStruct(v.Elem) {
		return true
	}
	for _, it := range v.Items {
		if hasStruct(it) {
			return true
		}
	}
	return false
}

// fieldName names field j of struct type n (k fields): the names F0..Fk-1 rotated by n, so that different types list
// the same names in different orders and a later type's first field may be a name an earlier type used last.
func fieldName(n, j, k int) string {
	if k == 0 {
		return "F0"
	}
	return fmt.Sprintf("F%d", (j+n)%k)
}

func goType(t *T) reflect.Type {
	switch t.K {
	case "slice":
		return reflect.SliceOf(goType(t.Elem))
	case "map":
		return reflect.MapOf(goType(&T{K: t.KeyK}), goType(t.Elem))
	case "bool":
		return reflect.TypeOf(false)
	case "int8":
		return reflect.TypeOf(int8(0))
	case "uint8":
		return reflect.TypeOf(uint8(0))
	case "int32":
		return reflect.TypeOf(int32(0))
	case "uint32":
		return reflect.TypeOf(uint32(0))
	case "float64":
		return reflect.TypeOf(float64(0))
	case "string":
		return reflect.TypeOf("")
	case "any":
		return reflect.TypeOf((*any)(nil)).Elem()
	}
	panic("gotype " + t.K)
}

func typeOf(v *V) *T {
	switch v.K {
	case "slice":
		return &T{K: "slice", Elem: v.Elem}
	case "map":
		return &T{K: "map", KeyK: v.S, Elem: v.Elem}
	case "struct":
		return &T{K: "struct", Struct: v.Struct}
	}
	return &T{K: v.K}
}

// goValue builds the real Go value (struct-free trees only).
func goValue(v *V) reflect.Value {
	t := typeOf(v)
	switch v.K {
	case "slice":
		if v.Nil {
			return reflect.Zero(goType(t))
		}
		s := reflect.MakeSlice(goType(t), 0, len(v.Items))
		for _, it := range v.Items {
			s = reflect.Append(s, goValue(it))
		}
		return s
	case "map":
		if v.Nil {
			return reflect.Zero(goType(t))
		}
		m := reflect.MakeMap(goType(t))
		if v.Key != nil {
			m.SetMapIndex(reflect.ValueOf(scalarGo(v.Key)), goValue(v.Items[0]))
		}
		return m
	}
	return reflect.ValueOf(scalarGo(v))
}

// render is the model of the rendering the property prescribes: Go's %v for everything Go prints that way,
// &{Field:value ...} in declaration order for struct references.
func render(v *V) string {
	switch v.K {
	case "slice":
		parts := make([]string, len(v.Items))
		for i, it := range v.Items {
			parts[i] = render(it)
		}
		return "[" + strings.Join(parts, " ") + "]"
	case "map":
		if v.Key == nil {
			return "map[]"
		}
		return "map[" + render(v.Key) + ":" + render(v.Items[0]) + "]"
	case "struct":
		parts := make([]string, len(v.Items))
		for i, it := range v.Items {
			parts[i] = fmt.Sprintf("%s:%s", fieldName(v.Struct, i, len(v.Items)), render(it))
		}
		return "&{" + strings.Join(parts, " ") + "}"
	}
	return fmt.Sprint(scalarGo(v))
}

// expected returns the reference rendering; for struct-free trees it is fmt.Sprint of the real Go value and the
// model renderer must agree with it (model self-check).
func expected(v *V) (string, error) {
	m := render(v)
	if !hasStruct(v) {
		g := fmt.Sprint(goValue(v).Interface())
		if g != m {
			return "", fmt.Errorf("model renderer %q disagrees with fmt.Sprint %q", m, g)
		}
	}
	return m, nil
}

// ---- building the value in goatlang -----------------------------------------------------------

var goatT = map[string]goatlang.Type{"bool": goatlang.TypeBool, "int8": goatlang.TypeInt8, "uint8": goatlang.TypeUint8, "int32": goatlang.TypeInt32, "uint32": goatlang.TypeUint32, "float64": goatlang.TypeFloat64, "string": goatlang.TypeString}

func structDecls(defs []StructDef) string {
	var sb strings.Builder
	for i, d := range defs {
		fmt.Fprintf(&sb, "type T%d struct {", i)
		for j, f := range d.Fields {
			if j > 0 {
				sb.WriteString(";")
			}
			fmt.Fprintf(&sb, " %s %s", fieldName(i, j, len(d.Fields)), f.goName())
		}
		sb.WriteString(" }\n")
	}
	return sb.String()
}

// literal spells the value as a Go composite literal / constant expression.
func literal(v *V, typed bool) string {
	t := typeOf(v)
	switch v.K {
	case "slice":
		if v.Nil {
			return t.goName() + "(nil)"
		}
		parts := make([]string, len(v.Items))
		for i, it := range v.Items {
			parts[i] = literal(it, false)
		}
		return t.goName() + "{" + strings.Join(parts, ", ") + "}"
	case "map":
		if v.Nil {
			return t.goName() + "(nil)"
		}
		if v.Key == nil {
			return t.goName() + "{}"
		}
		return t.goName() + "{" + literal(v.Key, false) + ": " + literal(v.Items[0], false) + "}"
	case "struct":
		parts := make([]string, len(v.Items))
		for i, it := range v.Items {
			parts[i] = fmt.Sprintf("%s: %s", fieldName(v.Struct, i, len(v.Items)), literal(it, false))
		}
		return fmt.Sprintf("&T%d{%s}", v.Struct, strings.Join(parts, ", "))
	case "bool":
		return fmt.Sprint(v.B)
	case "string":
		return strconv.Quote(v.S)
	case "float64":
		s := strconv.FormatFloat(v.float(), 'g', -1, 64)
		if !strings.ContainsAny(s, ".e") {
			s += ".0"
		}
		if typed {
			return "float64(" + s + ")"
		}
		return s
	}
	if typed {
		return t.goName() + "(" + fmt.Sprint(v.I) + ")"
	}
	return fmt.Sprint(v.I)
}

// usesNilLiteral reports whether the literal needs the T(nil) conversion form (not in the supported subset: use var instead).
func needsDecl(v *V) bool { return (v.K == "slice" || v.K == "map") && v.Nil }

func hostValue(vm *goat.VM, v *V) goatlang.Value {
	switch v.K {
	case "slice":
		et := hostType(vm, v.Elem)
		if v.Nil {
			// a typed nil slice, as a script variable holds it
			r := vm.Eval(nil, "var nilv "+typeOf(v).goName(), goat.DefaultBudget)
			_ = r
			return vm.Get("main.nilv")
		}
		items := make([]goatlang.Value, len(v.Items))
		for i, it := range v.Items {
			items[i] = hostValue(vm, it)
		}
		return goatlang.NewSlice(et, items)
	case "map":
		if v.Nil {
			vm.Eval(nil, "var nilm "+typeOf(v).goName(), goat.DefaultBudget)
			return vm.Get("main.nilm")
		}
		var in []goatlang.Value
		if v.Key != nil {
			in = append(in, hostValue(vm, v.Key), hostValue(vm, v.Items[0]))
		}
		m := goatlang.NewMap(goatT[v.S], hostType(vm, v.Elem), in)
		for _, k := range v.Gone {
			m.Set(hostValue(vm, k), hostValue(vm, v.GoneVal))
		}
		for _, k := range v.Gone {
			m.Delete(hostValue(vm, k))
		}
		return m
	case "struct":
		base := vm.Get(fmt.Sprintf("main.T%d", v.Struct))
		var data []goatlang.Value
		for i, it := range v.Items {
			data = append(data, goatlang.String(fieldName(v.Struct, i, len(v.Items))), hostValue(vm, it))
		}
		return goatlang.NewStruct(base, data)
	case "bool":
		return goatlang.Bool(v.B)
	case "int8":
		return goatlang.Int8(int8(v.I))
	case "uint8":
		return goatlang.Uint8(uint8(v.I))
	case "int32":
		return goatlang.Int32(int32(v.I))
	case "uint32":
		return goatlang.Uint32(uint32(v.I))
	case "float64":
		return goatlang.Float64(v.float())
	}
	return goatlang.String(v.S)
}

// hostType gives the element type tag for NewSlice/NewMap: scalars have public tags; for containers the tag is
// taken from a zero value created by a script declaration (the host API has no constructor for composite tags).
func hostType(vm *goat.VM, t *T) goatlang.Type {
	if gt, ok := goatT[t.K]; ok {
		return gt
	}
	return goatlang.TypeNil // untyped element slot: values keep their own dynamic type
}

// ---- case -------------------------------------------------------------------------------------

type Case struct {
	Defs   []StructDef `json:"defs"`
	Vals   []*V        `json:"vals"` // 1-4 operands
	Form   string      `json:"form"` // host_string host_global println fmt.Println fmt.Print fmt.Sprint
	InFunc bool        `json:"in_func"`
}

func maxContainerDepth() int {
	if ev.KnownOpen("C14", "c14-deep-nesting-elided") != nil {
		return 2
	}
	return 5
}

func genCase(rt *rapid.T) *Case {
	form := rx.Pick(rt, "form", "host_string", "host_global", "println", "fmt.Println", "fmt.Println", "fmt.Print", "fmt.Sprint")
	g := &genCtx{maxDepth: 5, hostOnly: form == "host_string" || form == "host_global"}
	deepAllowed := maxContainerDepth()
	c := &Case{Form: form, InFunc: rapid.Bool().Draw(rt, "inFunc")}
	n := 1
	if form == "fmt.Println" || form == "println" {
		n = rx.Range(rt, "noperands", 1, 4)
	}
	for i := 0; i < n; i++ {
		var v *V
		for try := 0; ; try++ {
			g.maxDepth = rx.Range(rt, "maxdepth", 0, 5)
			save := len(g.defs)
			t := g.genType(rt, 0)
			v = g.genValue(rt, t, true)
			if v.depth(g.defs) <= deepAllowed || try > 20 {
				if v.depth(g.defs) > deepAllowed {
					v = genScalar(rt, "int32", false)
					g.defs = g.defs[:save]
				}
				break
			}
			ev.R().Class("excluded_by_known_finding:c14-deep-nesting-elided")
			g.defs = g.defs[:save]
		}
		if !g.hostOnly && rx.Chance(rt, "anyslice", 1, 12) {
			// a slice of any without elements, nil or empty: both print as []
			v = &V{K: "slice", Elem: &T{K: "any"}, Nil: rapid.Bool().Draw(rt, "anynil")}
		}
		if v.K == "map" && !v.Nil && rapid.Bool().Draw(rt, "maphistory") {
			// the map has a past: other keys were inserted and deleted again
			v.GoneVal = g.genValue(rt, v.Elem, false)
			seen := map[string]bool{}
			if v.Key != nil {
				seen[literal(v.Key, true)] = true
			}
			for j := rx.Range(rt, "ngone", 1, 3); j > 0; j-- {
				k := genScalar(rt, v.S, false)
				if k.K == "float64" && math.IsNaN(k.float()) {
					continue
				}
				if !seen[literal(k, true)] {
					seen[literal(k, true)] = true
					v.Gone = append(v.Gone, k)
				}
			}
			if v.GoneVal.depth(g.defs)+1 > deepAllowed {
				v.Gone, v.GoneVal = nil, nil
			}
		}
		if i == 0 && !g.hostOnly && v.K == "slice" && len(v.Items) > 0 && rx.Chance(rt, "again", 1, 3) {
			for range v.Items {
				v.Prev = append(v.Prev, g.genValue(rt, v.Elem, false))
			}
			v.Mut = rx.Uniform(rt, 3, "mut")
			if (&V{K: "slice", Elem: v.Elem, Items: v.Prev}).depth(g.defs) > deepAllowed {
				v.Prev = nil
			}
		}
		c.Vals = append(c.Vals, v)
	}
	c.Defs = g.defs
	return c
}

func (c *Case) expected() (string, error) {
	parts := make([]string, len(c.Vals))
	first := ""
	for i, v := range c.Vals {
		s, err := expected(v)
		if err != nil {
			return "", err
		}
		parts[i] = s
	}
	end := ""
	if c.Form != "fmt.Print" && c.Form != "host_string" {
		end = "\n"
	}
	if len(c.Vals[0].Prev) > 0 {
		s, err := expected(&V{K: "slice", Elem: c.Vals[0].Elem, Items: c.Vals[0].Prev})
		if err != nil {
			return "", err
		}
		first = strings.Join(append([]string{s}, parts[1:]...), " ") + end
	}
	return first + strings.Join(parts, " ") + end, nil
}

func (c *Case) script() string {
	var sb strings.Builder
	sb.WriteString("import \"fmt\"\n")
	sb.WriteString(structDecls(c.Defs))
	ind := ""
	if c.InFunc {
		sb.WriteString("func run() {\n")
		ind = "\t"
	}
	var names []string
	for i, v := range c.Vals {
		name := fmt.Sprintf("v%d", i)
		names = append(names, name)
		if needsDecl(v) {
			fmt.Fprintf(&sb, "%svar %s %s\n", ind, name, typeOf(v).goName())
		} else if len(v.Prev) > 0 {
			fmt.Fprintf(&sb, "%s%s := %s\n", ind, name, literal(&V{K: "slice", Elem: v.Elem, Items: v.Prev}, true))
		} else if typeOf(v).container() {
			fmt.Fprintf(&sb, "%s%s := %s\n", ind, name, literal(v, true))
		} else {
			fmt.Fprintf(&sb, "%svar %s %s = %s\n", ind, name, typeOf(v).goName(), literal(v, false))
		}
	}
	for i, v := range c.Vals {
		for _, k := range v.Gone {
			fmt.Fprintf(&sb, "%sv%d[%s] = %s\n", ind, i, literal(k, false), literal(v.GoneVal, false))
		}
		for _, k := range v.Gone {
			fmt.Fprintf(&sb, "%sdelete(v%d, %s)\n", ind, i, literal(k, false))
		}
	}
	args := strings.Join(names, ", ")
	emit := func(k int) {
		switch c.Form {
		case "println":
			fmt.Fprintf(&sb, "%sprintln(%s)\n", ind, args)
		case "fmt.Println":
			fmt.Fprintf(&sb, "%sfmt.Println(%s)\n", ind, args)
		case "fmt.Print":
			fmt.Fprintf(&sb, "%sfmt.Print(%s)\n", ind, args)
		case "fmt.Sprint":
			fmt.Fprintf(&sb, "%ss%d := fmt.Sprint(%s)\n%sfmt.Println(s%d)\n", ind, k, args, ind, k)
		}
	}
	if v := c.Vals[0]; len(v.Prev) > 0 {
		emit(0)
		switch v.Mut {
		case 0:
			fmt.Fprintf(&sb, "%sw0 := v0[0:]\n", ind)
		case 2:
			fmt.Fprintf(&sb, "%sw0 := v0\n", ind)
		}
		if v.Mut == 1 {
			fmt.Fprintf(&sb, "%scopy(v0, %s)\n", ind, literal(v, true))
		} else {
			for i, it := range v.Items {
				fmt.Fprintf(&sb, "%sw0[%d] = %s\n", ind, i, literal(it, false))
			}
		}
	}
	emit(1)
	if c.InFunc {
		sb.WriteString("}\nrun()\n")
	}
	return sb.String()
}

func check(c *Case) (f *ev.Failure) {
	want, err := c.expected()
	if err != nil {
		ev.R().Infra("C14 model self-check failed on %s: %v", mustJSON(c), err)
		return nil
	}
	mk := func(got, extra string) *ev.Failure {
		return &ev.Failure{Kind: "print", Case: c, Msg: fmt.Sprintf("%s renders %q, Go renders %q%s", c.Form, got, want, extra)}
	}
	defer func() {
		if r := recover(); r != nil {
			f = mk("HOST PANIC: "+fmt.Sprint(r), "")
		}
	}()
	switch c.Form {
	case "host_string", "host_global":
		vm := goat.New()
		if r := vm.Eval(nil, "import \"fmt\"\n"+structDecls(c.Defs), goat.DefaultBudget); r.Failed() {
			return mk("error: "+r.ErrString(), "")
		}
		hv := hostValue(vm, c.Vals[0])
		if c.Form == "host_string" {
			if got := hv.String(); got != want {
				return mk(got, "")
			}
			return nil
		}
		vm.Set("main.hv", hv)
		r := vm.Eval(nil, "fmt.Println(hv)", goat.DefaultBudget, goatlang.WithEvalImports(map[string]string{"fmt": "fmt"}))
		if r.Failed() || r.Stdout != want {
			return mk(r.Stdout+r.ErrString(), "")
		}
		return nil
	}
	src := c.script()
	r := goat.EvalOnce(src)
	if r.Failed() || r.Stdout != want {
		return mk(r.Stdout+r.ErrString(), "\n--- script\n"+src)
	}
	return nil
}

func mustJSON(v any) string { b, _ := json.Marshal(v); return string(b) }

func nontrivial(c *Case) bool {
	for _, v := range c.Vals {
		if v.depth(c.Defs) >= 2 {
			return true
		}
		if scanNontrivial(v) {
			return true
		}
	}
	return false
}

func scanNontrivial(v *V) bool {
	switch v.K {
	case "float64":
		f := math.Abs(v.float())
		return f != 0 && (f < 1e-4 || f >= 1e20) || math.IsNaN(f)
	case "uint32":
		return v.I >= 1<<31
	}
	for _, it := range v.Items {
		if scanNontrivial(it) {
			return true
		}
	}
	return v.Key != nil && scanNontrivial(v.Key)
}

func TestValues(t *testing.T) {
	r := ev.R()
	r.RapidCheck(t, func(rt *rapid.T) *ev.Failure {
		c := genCase(rt)
		r.Eval(1)
		r.Class("form=" + c.Form)
		md := 0
		for _, v := range c.Vals {
			if d := v.depth(c.Defs); d > md {
				md = d
			}
		}
		r.Class(fmt.Sprintf("container_depth=%d", md))
		if len(c.Vals[0].Prev) > 0 {
			r.Class(fmt.Sprintf("printed_changed_printed_again_mut=%d", c.Vals[0].Mut))
		}
		if nontrivial(c) {
			r.Nontrivial(ev.HashJSON(c))
		}
		want, _ := c.expected()
		r.Sample(map[string]any{"form": c.Form, "go_renders": want, "script": c.script()})
		return check(c)
	})
}

// ---- cyclic graphs and deep nesting: termination and well-formedness ---------------------------

type cyc struct {
	Name string `json:"name"`
	Src  string `json:"src"`
}

func cyclicScripts() []cyc {
	var res []cyc
	prints := []struct{ n, call string }{{"fmt.Println", "fmt.Println(%s)"}, {"println", "println(%s)"}, {"fmt.Sprint", "fmt.Println(fmt.Sprint(%s))"}, {"fmt.Print", "fmt.Print(%s)"}, {"top-level expression", "%s"}}
	shapes := []struct{ n, setup, v string }{
		{"struct pointing to itself", "type N struct { V int; Next *N }\na := &N{V: 1}\na.Next = a\n", "a"},
		{"two structs pointing at each other", "type N struct { V int; Next *N }\na := &N{V: 1}\nb := &N{V: 2, Next: a}\na.Next = b\n", "a"},
		{"three-cycle of structs", "type N struct { V int; Next *N }\na := &N{V: 1}\nb := &N{V: 2, Next: a}\nc := &N{V: 3, Next: b}\na.Next = c\n", "b"},
		{"slice of any containing itself", "s := []any{1, 2}\ns[0] = s\n", "s"},
		{"map whose value is the slice that contains it", "m := map[string]any{}\ns := []any{m}\nm[\"k\"] = s\n", "m"},
		{"struct with a slice of itself", "type N struct { V int; Kids []*N }\na := &N{V: 1}\na.Kids = append(a.Kids, a, a)\n", "a"},
		{"struct in map in struct", "type N struct { V int; M map[string]*N }\na := &N{V: 1, M: map[string]*N{}}\na.M[\"self\"] = a\n", "a"},
		{"long chain (depth 200, acyclic)", "type N struct { V int; Next *N }\nvar a *N\nfor i := 0; i < 200; i++ { a = &N{V: i, Next: a} }\n", "a"},
		{"deep slice nesting (acyclic)", "s := [][][][][]int{{{{{1, 2}}}}}\n", "s"},
		{"slice of any nested 50 deep (acyclic)", "var s []any\nfor i := 0; i < 50; i++ { s = []any{s, i} }\n", "s"},
	}
	for _, sh := range shapes {
		for _, p := range prints {
			res = append(res, cyc{Name: sh.n + " via " + p.n, Src: "import \"fmt\"\n" + sh.setup + fmt.Sprintf(p.call, sh.v) + "\n"})
		}
	}
	return res
}

func wellFormed(s string) string {
	if len(s) > 1<<20 {
		return fmt.Sprintf("output of %d bytes", len(s))
	}
	depth := 0
	for _, ch := range s {
		switch ch {
		case '[', '{':
			depth++
		case ']', '}':
			depth--
			if depth < 0 {
				return "unbalanced brackets"
			}
		}
	}
	if depth != 0 {
		return "unbalanced brackets"
	}
	return ""
}

// childMain runs one script in this (child) process with a small stack limit and reports on stdout.
func childMain() {
	debug.SetMaxStack(32 << 20)
	src, _ := os.ReadFile(os.Getenv("C14_CHILD"))
	vm := goat.New()
	r := vm.Eval(nil, string(src), 2_000_000)
	out := r.Stdout
	for _, v := range r.Rets {
		out += v.String()
	}
	res := map[string]any{"out": out, "err": r.ErrString(), "panic": r.Panic != nil}
	b, _ := json.Marshal(res)
	os.Stdout.Write(b)
	os.Exit(0)
}

func runChild(src string) (out string, errs string, died string) {
	f, err := os.CreateTemp("", "c14-*.txt")
	if err != nil {
		return "", "", ""
	}
	defer os.Remove(f.Name())
	f.WriteString(src)
	f.Close()
	cmd := exec.Command(os.Args[0])
	cmd.Env = append(os.Environ(), "C14_CHILD="+f.Name())
	var so, se bytes.Buffer
	cmd.Stdout, cmd.Stderr = &so, &se
	if err := cmd.Run(); err != nil {
		tail := se.String()
		if i := strings.Index(tail, "\n\n"); i > 0 {
			tail = tail[:i]
		}
		if len(tail) > 400 {
			tail = tail[:400]
		}
		return "", "", fmt.Sprintf("%v: %s", err, tail)
	}
	var res struct {
		Out   string `json:"out"`
		Err   string `json:"err"`
		Panic bool   `json:"panic"`
	}
	if json.Unmarshal(so.Bytes(), &res) != nil {
		return "", "", "child produced no result: " + so.String()
	}
	if res.Panic {
		return res.Out, res.Err, "host panic: " + res.Err
	}
	return res.Out, res.Err, ""
}

func checkCyclic(c cyc) *ev.Failure {
	out, errs, died := runChild(c.Src)
	mk := func(msg string) *ev.Failure {
		return &ev.Failure{Kind: "cyclic", Case: c, Msg: fmt.Sprintf("%s: %s\n--- script\n%s", c.Name, msg, c.Src)}
	}
	if died != "" {
		return mk("rendering did not terminate normally (child process: " + died + ")")
	}
	if errs != "" {
		return mk("script failed: " + errs)
	}
	if msg := wellFormed(out); msg != "" {
		return mk(msg + ": " + out[:min(len(out), 300)])
	}
	if strings.TrimSpace(out) == "" {
		return mk("nothing was printed")
	}
	return nil
}

func min(a, b int) int {
	if a < b {
		return a
	}
	return b
}

func TestCyclic(t *testing.T) {
	r := ev.R()
	r.Disjoint()
	for i, c := range cyclicScripts() {
		if !r.Mine(i) {
			continue
		}
		r.Eval(1)
		r.NontrivialN(1)
		r.Class("cyclic_or_deep")
		if i%7 == 0 {
			r.Sample(c)
		}
		if f := checkCyclic(c); f != nil {
			r.Fail(t, f)
		}
	}
}

func TestReplay(t *testing.T) {
	ev.R().RunReplays(t, map[string]ev.ReplayFunc{
		"redeclared": replayRedecl,
		"print": func(raw json.RawMessage) *ev.Failure {
			var c Case
			if err := json.Unmarshal(raw, &c); err != nil {
				return &ev.Failure{Kind: "print", Case: string(raw), Msg: "bad replay: " + err.Error()}
			}
			return check(&c)
		},
		"script_expect": func(raw json.RawMessage) *ev.Failure {
			var c struct {
				Src  string `json:"src"`
				Want string `json:"want"`
			}
			json.Unmarshal(raw, &c)
			r := goat.EvalOnce(c.Src)
			if r.Failed() || r.Stdout != c.Want {
				return &ev.Failure{Kind: "script_expect", Case: c, Msg: fmt.Sprintf("script prints %q%s, Go prints %q\n--- script\n%s", r.Stdout, r.ErrString(), c.Want, c.Src)}
			}
			return nil
		},
		"cyclic": func(raw json.RawMessage) *ev.Failure {
			var c cyc
			json.Unmarshal(raw, &c)
			return checkCyclic(c)
		},
	})
}
