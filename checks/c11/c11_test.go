// C11 — slices alias, grow and copy as Go slices do.
//
// Histories over a pool of four slice variables; the generator tracks backing array, offset, length and what
// is known about the capacity, and only emits operations whose observable result is the same for every
// capacity a growth policy could choose. The reference is an explicit array-sharing model which is itself
// cross-checked against real Go slices on every history.
package c11

import (
	"encoding/json"
	"fmt"
	"strings"
	"testing"

	"pgregory.net/rapid"

	"verif/internal/ev"
	"verif/internal/goat"
	"verif/internal/rx"
)

func TestMain(m *testing.M) { ev.Main(m, "C11") }

const nVars = 4

// Op is one step. Vars are indexes into the pool s0..s3.
type Op struct {
	Op   string  `json:"op"` // make lit nil sub set append spread copy copystr copyn len range
	Dst  int     `json:"dst"`
	Src  int     `json:"src,omitempty"`
	Src2 int     `json:"src2,omitempty"`
	N    int     `json:"n,omitempty"`
	I    int     `json:"i,omitempty"`
	J    int     `json:"j,omitempty"`
	Form int     `json:"form,omitempty"` // sub: 0 s[i:j] 1 s[i:] 2 s[:j] 3 s[:] 4 plain assignment
	Vals []int32 `json:"vals,omitempty"`
	Str  string  `json:"str,omitempty"`
	Oob  bool    `json:"oob,omitempty"` // the step is expected to fail with a run-time error
	ViaVar bool  `json:"via_var,omitempty"` // index passed through a variable instead of a constant
	ViaFunc bool `json:"via_func,omitempty"` // append done by a helper function: return append(s, ...)
	Fn   int     `json:"fn,omitempty"` // lit: the literal is the result of calling fixed<Fn>(), a function returning a constant literal
}

// the constant literals returned by fixed1() and fixed2(): every call yields a new slice
var fixedVals = [][]int32{nil, {1, 2, 3}, {4, 5}}

type History struct {
	Elem   string `json:"elem"` // int, byte, string
	InFunc bool   `json:"in_func"`
	Ops    []Op   `json:"ops"`
}

// ---- model ------------------------------------------------------------------------------------

type arr struct{ data []int32 }

type sl struct {
	a        *arr
	off, n   int
	capacity int  // exact capacity, or a lower bound when !exact
	exact    bool
	isNil    bool
}

type model struct {
	v [nVars]sl
}

func (s sl) get() []int32 {
	if s.a == nil {
		return nil
	}
	return s.a.data[s.off : s.off+s.n]
}

func (m *model) owners(a *arr) int {
	c := 0
	for _, s := range m.v {
		if s.a == a && a != nil {
			c++
		}
	}
	return c
}

func newModel() *model {
	m := &model{}
	for i := range m.v {
		m.v[i] = sl{isNil: true, exact: true}
	}
	return m
}

// appendTo appends vals to s; undetermined reports that the outcome depends on the growth policy.
func (m *model) appendTo(s sl, vals []int32, dstIsSrc bool) (res sl, undetermined bool) {
	need := s.n + len(vals)
	if s.a != nil && need <= s.capacity {
		// fits in the capacity we know of: written in place, whatever the policy
		for len(s.a.data) < s.off+need {
			s.a.data = append(s.a.data, 0)
		}
		copy(s.a.data[s.off+s.n:], vals)
		return sl{a: s.a, off: s.off, n: need, capacity: s.capacity, exact: s.exact}, false
	}
	if len(vals) == 0 {
		return s, false // append(s) returns s
	}
	if s.a != nil && !s.exact {
		// may or may not reallocate: only determined if nobody else can observe the difference
		if m.owners(s.a) > 1 || !dstIsSrc {
			return sl{}, true
		}
	}
	// reallocation (certain when the capacity was exact; unobservable otherwise): fresh array, capacity only bounded from below
	na := &arr{data: make([]int32, need)}
	copy(na.data, s.get())
	copy(na.data[s.n:], vals)
	return sl{a: na, off: 0, n: need, capacity: need, exact: false}, false
}

// ---- generation -------------------------------------------------------------------------------

func genHistory(rt *rapid.T) *History {
	h := &History{Elem: rx.Pick(rt, "elem", "int", "int", "byte", "string", "float64"), InFunc: rapid.Bool().Draw(rt, "inFunc")}
	m := newModel()
	steps := rx.Range(rt, "steps", 1, 40)
	var nextVal int32 = 10
	vals := func(n int) []int32 {
		var v []int32
		for i := 0; i < n; i++ {
			nextVal++
			v = append(v, nextVal)
		}
		return v
	}
	for step := 0; step < steps; step++ {
		dst := rx.Uniform(rt, nVars, "dst")
		src := rx.Uniform(rt, nVars, "src")
		var op Op
		ok := false
		for try := 0; try < 8 && !ok; try++ {
			c := rx.Uniform(rt, 1000, "kind")
			s := m.v[src]
			switch {
			case c < 60:
				op, ok = Op{Op: "make", Dst: dst, N: rapid.IntRange(0, 6).Draw(rt, "n")}, true
			case c < 200:
				op, ok = Op{Op: "lit", Dst: dst, Vals: vals(rapid.IntRange(0, 5).Draw(rt, "nlit"))}, true
				if rx.Chance(rt, "litfn", 1, 3) {
					op.Fn = rx.Range(rt, "fixedfn", 1, 2)
					op.Vals = append([]int32(nil), fixedVals[op.Fn]...)
				}
			case c < 215:
				op, ok = Op{Op: "nil", Dst: dst}, true
			case c < 450:
				form := rapid.IntRange(0, 4).Draw(rt, "form") // 4: a plain assignment, the slice header is copied
				i := rx.Range(rt, "i", 0, s.n)
				hi := s.n
				if !s.isNil && s.capacity > s.n && (form == 0 || form == 2) && rx.Chance(rt, "extend", 1, 2) {
					// the upper bound of a slice expression is limited by the capacity, not the length: a slice
					// that was once longer can be extended again and shows what the array holds there
					hi = s.capacity
				}
				j := rx.Range(rt, "j", i, hi)
				if form == 1 || form == 3 || form == 4 {
					j = s.n
				}
				if form == 2 || form == 3 || form == 4 {
					i = 0
				}
				if s.isNil && (i != 0 || j != 0) {
					continue
				}
				op, ok = Op{Op: "sub", Dst: dst, Src: src, I: i, J: j, Form: form}, true
			case c < 650:
				if s.n == 0 {
					continue
				}
				op, ok = Op{Op: "set", Dst: src, I: rx.Range(rt, "i", 0, s.n-1), Vals: vals(1), ViaVar: rapid.Bool().Draw(rt, "viaVar")}, true
			case c < 800:
				op = Op{Op: "append", Dst: dst, Src: src, Vals: vals(rx.Range(rt, "nappend", 1, 3)), ViaFunc: rx.Chance(rt, "viaFunc", 1, 4)}
				if h.Elem == "byte" && rx.Chance(rt, "appendstring", 1, 3) {
					// append(bytes, s...): the special form that appends the bytes of a string
					op.Str = rapid.SampledFrom([]string{"a", "hey", "hé", "€uro"}).Draw(rt, "appstr")
					op.Vals, op.ViaFunc = nil, false
					for k := 0; k < len(op.Str); k++ {
						op.Vals = append(op.Vals, int32(op.Str[k]))
					}
				}
				if _, und := m.appendTo(s, op.Vals, dst == src); und {
					op.Dst = src
					if _, und2 := m.appendTo(s, op.Vals, true); und2 {
						continue
					}
				}
				ok = true
			case c < 860:
				src2 := rx.Uniform(rt, nVars, "src2")
				op = Op{Op: "spread", Dst: dst, Src: src, Src2: src2, ViaFunc: rx.Chance(rt, "viaFunc", 1, 4)}
				v2 := append([]int32(nil), m.v[src2].get()...)
				if _, und := m.appendTo(s, v2, dst == src); und {
					op.Dst = src
					if _, und2 := m.appendTo(s, v2, true); und2 {
						continue
					}
				}
				ok = true
			case c < 920:
				op, ok = Op{Op: "copy", Dst: dst, Src: src}, true
			case c < 935:
				if h.Elem != "byte" {
					continue
				}
				op, ok = Op{Op: "copystr", Dst: dst, Str: rapid.SampledFrom([]string{"", "a", "hey", "héllo wörld"}).Draw(rt, "str")}, true
			case c < 950:
				op, ok = Op{Op: "copyn", Dst: dst, Src: src}, true
			case c < 975:
				op, ok = Op{Op: "range", Dst: src}, true
			case c < 982:
				// planted: index out of range
				op, ok = Op{Op: "set", Dst: src, I: s.n + rapid.IntRange(0, 2).Draw(rt, "beyond"), Vals: vals(1), Oob: true, ViaVar: rapid.Bool().Draw(rt, "viaVar")}, true
			case c < 989:
				// planted: slice bounds out of range (beyond any possible capacity is not knowable; use i > j through variables, or j > exact capacity)
				if rapid.IntRange(0, 2).Draw(rt, "negativebound") == 0 {
					// a bound that is negative at run time (through variables: a negative constant does not compile)
					op, ok = Op{Op: "sub", Dst: dst, Src: src, I: 0, J: -1 - rapid.IntRange(0, 1).Draw(rt, "below"), Form: 0, Oob: true, ViaVar: true}, true
				} else if s.exact && !s.isNil {
					op, ok = Op{Op: "sub", Dst: dst, Src: src, I: 0, J: s.capacity + 1 + rapid.IntRange(0, 2).Draw(rt, "beyond"), Form: 0, Oob: true}, true
				} else if s.n >= 1 {
					op, ok = Op{Op: "sub", Dst: dst, Src: src, I: s.n, J: s.n - 1, Form: 0, Oob: true, ViaVar: true}, true
				}
			default:
				op, ok = Op{Op: "len", Dst: src}, true
			}
		}
		if !ok {
			op = Op{Op: "len", Dst: src}
		}
		h.Ops = append(h.Ops, op)
		if m.apply(op) {
			break // the history ends at the run-time error
		}
	}
	return h
}

// apply executes one op on the model; it returns true if the op is a run-time panic in Go.
func (m *model) apply(op Op) (panics bool) {
	if op.Oob {
		return true
	}
	switch op.Op {
	case "make":
		m.v[op.Dst] = sl{a: &arr{data: make([]int32, op.N)}, n: op.N, capacity: op.N, exact: true}
	case "lit":
		d := append([]int32(nil), op.Vals...)
		m.v[op.Dst] = sl{a: &arr{data: d}, n: len(d), capacity: len(d), exact: true}
	case "nil":
		m.v[op.Dst] = sl{isNil: true, exact: true}
	case "sub":
		s := m.v[op.Src]
		if s.isNil {
			m.v[op.Dst] = sl{isNil: true, exact: true}
			break
		}
		m.v[op.Dst] = sl{a: s.a, off: s.off + op.I, n: op.J - op.I, capacity: s.capacity - op.I, exact: s.exact}
	case "set":
		s := m.v[op.Dst]
		s.a.data[s.off+op.I] = op.Vals[0]
	case "append":
		r, und := m.appendTo(m.v[op.Src], op.Vals, op.Dst == op.Src)
		if und {
			panic("generator emitted a policy-dependent append")
		}
		m.v[op.Dst] = r
	case "spread":
		v2 := append([]int32(nil), m.v[op.Src2].get()...)
		r, und := m.appendTo(m.v[op.Src], v2, op.Dst == op.Src)
		if und {
			panic("generator emitted a policy-dependent append")
		}
		if m.v[op.Src].isNil && len(v2) == 0 {
			r = sl{isNil: true, exact: true}
		}
		m.v[op.Dst] = r
	case "copy", "copyn":
		copy(m.v[op.Dst].get(), append([]int32(nil), m.v[op.Src].get()...)) // memmove semantics: source read first
	case "copystr":
		d := m.v[op.Dst].get()
		for i := 0; i < len(d) && i < len(op.Str); i++ {
			d[i] = int32(op.Str[i])
		}
	}
	return false
}

// ---- rendering --------------------------------------------------------------------------------

func (h *History) goType() string { return h.Elem }

func (h *History) lit(v int32) string {
	switch h.Elem {
	case "string":
		return fmt.Sprintf("%q", fmt.Sprintf("v%d", v))
	case "byte":
		return fmt.Sprint(uint8(v))
	}
	return fmt.Sprint(v)
}

func (h *History) show(v int32) string {
	switch h.Elem {
	case "string":
		if v == 0 {
			return ""
		}
		return fmt.Sprintf("v%d", v)
	case "byte":
		return fmt.Sprint(uint8(v))
	}
	return fmt.Sprint(v)
}

// probeExpr is an expression over the range value v whose result depends on v having the slice's element type;
// probe is what Go prints for it.
func (h *History) probeExpr() string {
	switch h.Elem {
	case "string":
		return `v + "!"`
	case "byte":
		return "v + 200 + 100"
	}
	return "v / 2"
}

func (h *History) probe(v int32) string {
	switch h.Elem {
	case "string":
		return h.show(v) + "!"
	case "byte":
		return fmt.Sprint(uint8(v) + 200 + 100)
	case "float64":
		return fmt.Sprint(float64(v) / 2)
	}
	return fmt.Sprint(v / 2)
}

func (h *History) showSlice(s []int32) string {
	parts := make([]string, len(s))
	for i, v := range s {
		parts[i] = h.show(v)
	}
	return "[" + strings.Join(parts, " ") + "]"
}

func (h *History) litList(vs []int32) string {
	parts := make([]string, len(vs))
	for i, v := range vs {
		parts[i] = h.lit(v)
	}
	return strings.Join(parts, ", ")
}

func (h *History) script() string {
	var sb strings.Builder
	T := h.goType()
	sb.WriteString("import \"fmt\"\n")
	fmt.Fprintf(&sb, "func app1(s []%s, a %s) []%s { return append(s, a) }\n", T, T, T)
	fmt.Fprintf(&sb, "func app2(s []%s, a %s, b %s) []%s { return append(s, a, b) }\n", T, T, T, T)
	fmt.Fprintf(&sb, "func app3(s []%s, a, b, c %s) []%s { t := append(s, a, b, c); return t }\n", T, T, T)
	fmt.Fprintf(&sb, "func apps(s []%s, t []%s) []%s { return append(s, t...) }\n", T, T, T)
	fmt.Fprintf(&sb, "func cpy(d []%s, s []%s) int { return copy(d, s) }\n", T, T)
	for k := 1; k < len(fixedVals); k++ {
		fmt.Fprintf(&sb, "func fixed%d() []%s {\n\treturn []%s{%s}\n}\n", k, T, T, h.litList(fixedVals[k]))
	}
	ind := ""
	if h.InFunc {
		sb.WriteString("func run() {\n")
		ind = "\t"
	}
	for i := 0; i < nVars; i++ {
		if i%2 == 1 { // the same declaration with the zero value written out
			fmt.Fprintf(&sb, "%svar s%d []%s = nil\n", ind, i, T)
			continue
		}
		fmt.Fprintf(&sb, "%svar s%d []%s\n", ind, i, T)
	}
	fmt.Fprintf(&sb, "%sia, ib := 0, 0\n%s_ = ia\n%s_ = ib\n", ind, ind, ind)
	dump := fmt.Sprintf("%sfmt.Println(len(s0), s0, len(s1), s1, len(s2), s2, len(s3), s3, 0)\n", ind)
	if h.Elem == "byte" {
		// after every step each slice also goes to a string and back: the bytes it has now, however they were written
		dump += fmt.Sprintf("%sfmt.Println(\"str\", []byte(string(s0)), []byte(string(s1)), []byte(string(s2)), []byte(string(s3)))\n", ind)
	}
	for n, op := range h.Ops {
		fmt.Fprintf(&sb, "%sfmt.Println(\"step\", %d)\n", ind, n)
		switch op.Op {
		case "make":
			fmt.Fprintf(&sb, "%ss%d = make([]%s, %d)\n", ind, op.Dst, T, op.N)
		case "lit":
			if op.Fn > 0 {
				fmt.Fprintf(&sb, "%ss%d = fixed%d()\n", ind, op.Dst, op.Fn)
				break
			}
			fmt.Fprintf(&sb, "%ss%d = []%s{%s}\n", ind, op.Dst, T, h.litList(op.Vals))
		case "nil":
			fmt.Fprintf(&sb, "%ss%d = nil\n", ind, op.Dst)
		case "sub":
			i, j := fmt.Sprint(op.I), fmt.Sprint(op.J)
			if op.ViaVar {
				fmt.Fprintf(&sb, "%sia, ib = %d, %d\n", ind, op.I, op.J)
				i, j = "ia", "ib"
			}
			var e string
			switch op.Form {
			case 0:
				e = fmt.Sprintf("s%d[%s:%s]", op.Src, i, j)
			case 1:
				e = fmt.Sprintf("s%d[%s:]", op.Src, i)
			case 2:
				e = fmt.Sprintf("s%d[:%s]", op.Src, j)
			case 4:
				e = fmt.Sprintf("s%d", op.Src)
			default:
				e = fmt.Sprintf("s%d[:]", op.Src)
			}
			fmt.Fprintf(&sb, "%ss%d = %s\n", ind, op.Dst, e)
		case "set":
			if op.ViaVar {
				fmt.Fprintf(&sb, "%sia = %d\n%ss%d[ia] = %s\n", ind, op.I, ind, op.Dst, h.lit(op.Vals[0]))
			} else {
				fmt.Fprintf(&sb, "%ss%d[%d] = %s\n", ind, op.Dst, op.I, h.lit(op.Vals[0]))
			}
		case "append":
			if op.Str != "" {
				fmt.Fprintf(&sb, "%ss%d = append(s%d, %q...)\n", ind, op.Dst, op.Src, op.Str)
			} else if op.ViaFunc {
				fmt.Fprintf(&sb, "%ss%d = app%d(s%d, %s)\n", ind, op.Dst, len(op.Vals), op.Src, h.litList(op.Vals))
			} else {
				fmt.Fprintf(&sb, "%ss%d = append(s%d, %s)\n", ind, op.Dst, op.Src, h.litList(op.Vals))
			}
		case "spread":
			if op.ViaFunc {
				fmt.Fprintf(&sb, "%ss%d = apps(s%d, s%d)\n", ind, op.Dst, op.Src, op.Src2)
			} else {
				fmt.Fprintf(&sb, "%ss%d = append(s%d, s%d...)\n", ind, op.Dst, op.Src, op.Src2)
			}
		case "copy":
			fmt.Fprintf(&sb, "%scopy(s%d, s%d)\n", ind, op.Dst, op.Src)
		case "copyn":
			if n%2 == 1 { // the count is the result of a function that returns the call of copy
				fmt.Fprintf(&sb, "%sn%d := cpy(s%d, s%d)\n%sfmt.Println(\"copied\", n%d)\n", ind, n, op.Dst, op.Src, ind, n)
				break
			}
			fmt.Fprintf(&sb, "%sn%d := copy(s%d, s%d)\n%sfmt.Println(\"copied\", n%d)\n", ind, n, op.Dst, op.Src, ind, n)
		case "copystr":
			fmt.Fprintf(&sb, "%scopy(s%d, %q)\n", ind, op.Dst, op.Str)
		case "len":
			fmt.Fprintf(&sb, "%sfmt.Println(\"len\", len(s%d))\n", ind, op.Dst)
			if h.Elem == "byte" {
				// the bytes as a string and back: the current bytes, however they were written
				fmt.Fprintf(&sb, "%sfmt.Println(\"str\", []byte(string(s%d)))\n", ind, op.Dst)
			}
		case "range":
			fmt.Fprintf(&sb, "%sfor i, v := range s%d {\n%s\tfmt.Println(\"r\", i, v, %s)\n%s}\n", ind, op.Dst, ind, h.probeExpr(), ind)
		}
		sb.WriteString(dump)
	}
	if h.InFunc {
		sb.WriteString("}\nrun()\n")
	}
	return sb.String()
}

// expected renders what Go prints for the history (from the model) and whether it ends in a run-time panic.
func (h *History) expected() (out string, panics bool) {
	m := newModel()
	var sb strings.Builder
	for n, op := range h.Ops {
		fmt.Fprintf(&sb, "step %d\n", n)
		// observations made before the mutation of this step
		switch op.Op {
		case "copyn":
			d, s := m.v[op.Dst].n, m.v[op.Src].n
			if s < d {
				d = s
			}
			if m.apply(op) {
				return sb.String(), true
			}
			fmt.Fprintf(&sb, "copied %d\n", d)
		default:
			if m.apply(op) {
				return sb.String(), true
			}
		}
		switch op.Op {
		case "len":
			fmt.Fprintf(&sb, "len %d\n", m.v[op.Dst].n)
			if h.Elem == "byte" {
				fmt.Fprintf(&sb, "str %s\n", h.showSlice(m.v[op.Dst].get()))
			}
		case "range":
			for i, v := range m.v[op.Dst].get() {
				fmt.Fprintf(&sb, "r %d %s %s\n", i, h.show(v), h.probe(v))
			}
		}
		for i := 0; i < nVars; i++ {
			fmt.Fprintf(&sb, "%d %s ", m.v[i].n, h.showSlice(m.v[i].get()))
		}
		sb.WriteString("0\n")
		if h.Elem == "byte" {
			sb.WriteString("str")
			for i := 0; i < nVars; i++ {
				sb.WriteString(" " + h.showSlice(m.v[i].get()))
			}
			sb.WriteString("\n")
		}
	}
	return sb.String(), false
}

// goSlices runs the history on real Go slices: a self-check of the model (the permitted operations do not
// depend on the growth policy, so Go's own result must be the model's).
func (h *History) goSlices() (out string, panicked bool) {
	var v [nVars][]int32
	var sb strings.Builder
	defer func() {
		if r := recover(); r != nil {
			out, panicked = sb.String(), true
		}
	}()
	for n, op := range h.Ops {
		fmt.Fprintf(&sb, "step %d\n", n)
		switch op.Op {
		case "make":
			v[op.Dst] = make([]int32, op.N)
		case "lit":
			v[op.Dst] = append(make([]int32, 0, len(op.Vals)), op.Vals...)
		case "nil":
			v[op.Dst] = nil
		case "sub":
			i, j := op.I, op.J
			switch op.Form {
			case 0:
				v[op.Dst] = v[op.Src][i:j]
			case 1:
				v[op.Dst] = v[op.Src][i:]
			case 2:
				v[op.Dst] = v[op.Src][:j]
			case 4:
				v[op.Dst] = v[op.Src]
			default:
				v[op.Dst] = v[op.Src][:]
			}
		case "set":
			v[op.Dst][op.I] = op.Vals[0]
		case "append":
			v[op.Dst] = append(v[op.Src], op.Vals...)
		case "spread":
			v[op.Dst] = append(v[op.Src], v[op.Src2]...)
		case "copy":
			copy(v[op.Dst], v[op.Src])
		case "copyn":
			fmt.Fprintf(&sb, "copied %d\n", copy(v[op.Dst], v[op.Src]))
		case "copystr":
			b := make([]byte, len(v[op.Dst]))
			for i := range b {
				b[i] = byte(v[op.Dst][i])
			}
			copy(b, op.Str)
			for i := range b {
				v[op.Dst][i] = int32(b[i])
			}
		case "len":
			fmt.Fprintf(&sb, "len %d\n", len(v[op.Dst]))
			if h.Elem == "byte" {
				fmt.Fprintf(&sb, "str %s\n", h.showSlice(v[op.Dst]))
			}
		case "range":
			for i, x := range v[op.Dst] {
				fmt.Fprintf(&sb, "r %d %s %s\n", i, h.show(x), h.probe(x))
			}
		}
		for i := 0; i < nVars; i++ {
			fmt.Fprintf(&sb, "%d %s ", len(v[i]), h.showSlice(v[i]))
		}
		sb.WriteString("0\n")
		if h.Elem == "byte" {
			sb.WriteString("str")
			for i := 0; i < nVars; i++ {
				sb.WriteString(" " + h.showSlice(v[i]))
			}
			sb.WriteString("\n")
		}
	}
	return sb.String(), false
}

// ---- check ------------------------------------------------------------------------------------

func skip(id string) bool {
	if ev.KnownOpen("C11", id) == nil {
		return false
	}
	ev.R().Class("excluded_by_known_finding:" + id)
	return true
}

func aliasEvents(h *History) int {
	m := newModel()
	n := 0
	for _, op := range h.Ops {
		switch op.Op {
		case "set":
			if !op.Oob && m.owners(m.v[op.Dst].a) > 1 {
				n++
			}
		case "append", "spread":
			s := m.v[op.Src]
			if s.a != nil && m.owners(s.a) > 1 && s.n+len(op.Vals) <= s.capacity && len(op.Vals) > 0 {
				n++
			}
		case "copy":
			if m.v[op.Dst].a != nil && m.owners(m.v[op.Dst].a) > 1 {
				n++
			}
		}
		if m.apply(op) {
			break
		}
	}
	return n
}

func check(h *History) *ev.Failure {
	want, panics := h.expected()
	src := h.script()
	r := goat.EvalOnce(src)
	mk := func(msg string) *ev.Failure {
		return &ev.Failure{Kind: "history", Case: h, Msg: fmt.Sprintf("[]%s history: %s\n--- script\n%s--- goatlang output\n%s--- Go output\n%s", h.Elem, msg, src, r.Stdout, want)}
	}
	if r.Panic != nil {
		return mk("host panic: " + r.ErrString())
	}
	if panics {
		if r.Err == nil {
			return mk("Go panics at the last step (index or slice bounds out of range); goatlang reported no error")
		}
		if r.Stdout != want {
			return mk("output before the run-time error differs")
		}
		return nil
	}
	if r.Err != nil {
		return mk("goatlang failed: " + r.Err.Error())
	}
	if r.Stdout != want {
		return mk("outputs differ")
	}
	return nil
}

func genChecked(rt *rapid.T) *History {
	h := genHistory(rt)
	for i := range h.Ops {
		if h.Ops[i].Op == "copyn" && skip("c11-copy-result") {
			h.Ops[i].Op = "copy"
		}
		if h.Ops[i].Oob && h.Ops[i].Op == "sub" && h.Ops[i].ViaVar && skip("c11-slice-inverted-bounds") {
			h.Ops[i] = Op{Op: "len", Dst: h.Ops[i].Src}
		}
	}
	return h
}

func TestHistories(t *testing.T) {
	r := ev.R()
	r.RapidCheck(t, func(rt *rapid.T) *ev.Failure {
		h := genChecked(rt)
		// model self-check against real Go slices
		want, wp := h.expected()
		gout, gp := h.goSlices()
		if want != gout || wp != gp {
			r.Infra("model disagrees with real Go slices on %s:\nmodel:\n%s\ngo:\n%s", mustJSON(h), want, gout)
			return nil
		}
		r.Eval(1)
		r.Class("elem=" + h.Elem)
		if n := aliasEvents(h); n > 0 {
			r.Nontrivial(ev.HashJSON(h))
			r.Class("histories_with_write_through_alias")
		}
		if wp {
			r.Class("ends_in_planted_run_time_error")
		}
		r.Class(fmt.Sprintf("steps_%02d_%02d", len(h.Ops)/10*10, len(h.Ops)/10*10+9))
		for _, op := range h.Ops {
			r.Class("op=" + op.Op)
		}
		r.Sample(h)
		return check(h)
	})
}

func mustJSON(v any) string { b, _ := json.Marshal(v); return string(b) }

func TestReplay(t *testing.T) {
	ev.R().RunReplays(t, map[string]ev.ReplayFunc{
		"history": func(raw json.RawMessage) *ev.Failure {
			var h History
			if err := json.Unmarshal(raw, &h); err != nil {
				return &ev.Failure{Kind: "history", Case: string(raw), Msg: "bad replay: " + err.Error()}
			}
			return check(&h)
		},
		"script_expect": func(raw json.RawMessage) *ev.Failure {
			var c struct {
				Src  string `json:"src"`
				Want string `json:"want"`
			}
			if err := json.Unmarshal(raw, &c); err != nil {
				return &ev.Failure{Kind: "script_expect", Case: string(raw), Msg: "bad replay: " + err.Error()}
			}
			if res := goat.EvalOnce(c.Src); res.Failed() || res.Stdout != c.Want {
				return &ev.Failure{Kind: "script_expect", Case: c, Msg: fmt.Sprintf("goatlang printed %q %s, Go prints %q\n--- script\n%s", res.Stdout, res.ErrString(), c.Want, c.Src)}
			}
			return nil
		},
	})
}
