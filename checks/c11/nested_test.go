package c11

// Slices of slices made by make: the elements are nil slices of the element type, so that appending to one of them
// and computing with what was appended happens in that type.

import (
	"fmt"
	"testing"

	"verif/internal/ev"
	"verif/internal/goat"
)

func TestNestedMake(t *testing.T) {
	r := ev.R()
	r.Disjoint()
	type row struct{ T, c, d, want string }
	rows := []row{
		{"int", "7", "2", "7 3 9"},
		{"float64", "7", "2", "7 3.5 9"},
		{"byte", "200", "100", "200 100 44"},
		{"int8", "100", "100", "100 50 -56"},
		{"uint32", "4000000000", "1000000000", "4000000000 2000000000 705032704"},
		{"string", "\"a\"", "\"b\"", ""},
	}
	for i, w := range rows {
		for _, inFunc := range []bool{false, true} {
			if !r.Mine(2*i + map[bool]int{false: 0, true: 1}[inFunc]) {
				continue
			}
			var body, want string
			if w.T == "string" {
				body = fmt.Sprintf("g := make([][]string, 2)\nfmt.Println(len(g), len(g[0]), g[1] == nil)\ng[0] = append(g[0], %s)\ng[1] = append(g[1], g[0][0]+%s)\nfmt.Println(g[0][0], g[1][0], len(g[1]), g)\n", w.c, w.d)
				want = "2 0 true\na ab 1 [[a] [ab]]\n"
			} else {
				body = fmt.Sprintf("g := make([][]%s, 2)\nfmt.Println(len(g), len(g[0]), g[1] == nil)\ng[0] = append(g[0], %s)\nh := g[0][0] / 2\ng[1] = append(g[1], %s)\ng[1][0] += g[0][0]\nfmt.Println(g[0][0], h, g[1][0])\n", w.T, w.c, w.d)
				want = "2 0 true\n" + w.want + "\n"
			}
			src := "import \"fmt\"\n" + body
			if inFunc {
				src = "import \"fmt\"\nfunc run() {\n" + body + "}\nrun()\n"
			}
			r.Eval(1)
			r.NontrivialN(1)
			res := goat.EvalOnce(src)
			if res.Failed() || res.Stdout != want {
				r.Fail(t, &ev.Failure{Kind: "script_expect", Case: map[string]any{"src": src, "want": want}, Msg: fmt.Sprintf("make([][]%s, 2), append to its elements and compute: goatlang printed %q %s, Go prints %q\n--- script\n%s", w.T, res.Stdout, res.ErrString(), want, src)})
				return
			}
		}
	}
	r.Exhaustive("make([][]T, 2) for six element types, at top level and in a function: nil elements of the element type, append, type-sensitive arithmetic on what was appended", true)
}
