// C17 — reloading swaps code in place and keeps state.
//
// Histories of (load version k, call entry point) over a generated package whose versions differ only in function
// and method bodies. A model in the harness knows which version is loaded, what every captured function value,
// bound method and function-typed field refers to, and the running values of package-level variables.
package c17

import (
	"encoding/json"
	"fmt"
	"strings"
	"testing"

	"github.com/philhassey/goatlang"
	"pgregory.net/rapid"

	"verif/internal/ev"
	"verif/internal/goat"
	"verif/internal/rx"
)

func TestMain(m *testing.M) { ev.Main(m, "C17") }

type Op struct {
	Op   string `json:"op"` // load capture direct saved method field bump show makept showpt
	K    int    `json:"k,omitempty"`    // load: version
	Fn   int    `json:"fn,omitempty"`   // function / method index
	Slot int    `json:"slot,omitempty"` // saved slot
	Arg  int    `json:"arg,omitempty"`
	Bad  int    `json:"bad,omitempty"` // load: version Bad, whose last package-level initialiser fails, is loaded first (and fails)
}

type History struct {
	NFuncs  int  `json:"nfuncs"`
	NMeths  int  `json:"nmeths"`
	Ops     []Op `json:"ops"`
}

const nSlots = 3

// source renders version k of the package.
func (h *History) source(k int) string {
	var sb strings.Builder
	sb.WriteString("package app\n\nimport \"fmt\"\nimport \"host\"\nimport \"lib\"\n\n")
	sb.WriteString("type Obj struct {\n\tN int\n\tF func(int) int\n}\n\ntype Pt struct {\n\tX, Y int\n\tName string\n}\n\n")
	sb.WriteString("var counter int\nvar initd int = 10\nvar label = \"fresh\"\nvar inst *Obj\nvar pt *Pt\n")
	for s := 0; s < nSlots; s++ {
		fmt.Fprintf(&sb, "var savedFn%d func(int) int\nvar savedM%d func(int) int\n", s, s)
	}
	// package-level variables of every kind of type, all declared without an initialiser: a reload keeps their values
	sb.WriteString("type Shaper interface {\n\tArea() int\n}\n\nfunc (p *Pt) Area() int {\n\treturn p.X * p.Y\n}\n\n")
	sb.WriteString("var shape Shaper\nvar anyv any\nvar nums []int\nvar tab map[string]int\nvar ratio float64\nvar flag bool\nvar name string\nvar small int8\nvar bt byte\nvar u32 uint32\n")
	sb.WriteString("\n")
	pad := func() string {
		// version-dependent filler so that code lengths differ between versions
		var p strings.Builder
		for i := 0; i < k%4; i++ {
			fmt.Fprintf(&p, "\tz%d := a + %d\n\tz%d++\n\t_ = z%d\n", i, i, i, i)
		}
		return p.String()
	}
	for i := 0; i < h.NFuncs; i++ {
		fmt.Fprintf(&sb, "func work%d(a int) int {\n%s\tcounter += %d\n\treturn a*1000 + %d*100 + %d\n}\n\n", i, pad(), i+1, i, k)
	}
	for i := 0; i < h.NMeths; i++ {
		fmt.Fprintf(&sb, "func (o *Obj) Meth%d(a int) int {\n%s\to.N += %d\n\treturn a*1000 + %d*100 + 50 + %d\n}\n\n", i, pad(), i+1, i, k)
	}
	// the version number is a named constant: a reload gives the name a new value, and code compiled by the reload reads it
	fmt.Fprintf(&sb, "const version = %d\n\nfunc Tag() int {\n\treturn version\n}\n\n", k)
	// a function-valued package variable WITH an initialiser: every load re-initialises it, so after a reload both the
	// host (Call by name, Func of the value read now) and script code reach the new literal
	fmt.Fprintf(&sb, "var stepv = func(a int) int {\n\treturn a*1000 + 900 + %d\n}\n\nfunc CallStepv(a int) {\n\tfmt.Println(\"stepv\", stepv(a))\n}\n\n", k)
	// entry points (their bodies are the same in every version)
	for i := 0; i < h.NFuncs; i++ {
		for s := 0; s < nSlots; s++ {
			fmt.Fprintf(&sb, "func CaptureFn%d_%d() {\n\tsavedFn%d = work%d\n}\n\n", i, s, s, i)
		}
		fmt.Fprintf(&sb, "func Direct%d(a int) {\n\tfmt.Println(\"direct\", work%d(a), Tag())\n}\n\n", i, i)
		fmt.Fprintf(&sb, "func SetField%d() {\n\tinst.F = work%d\n}\n\n", i, i)
	}
	for i := 0; i < h.NMeths; i++ {
		for s := 0; s < nSlots; s++ {
			fmt.Fprintf(&sb, "func CaptureM%d_%d() {\n\tsavedM%d = inst.Meth%d\n}\n\n", i, s, s, i)
		}
		fmt.Fprintf(&sb, "func DirectM%d(a int) {\n\tfmt.Println(\"dmethod\", inst.Meth%d(a), inst.N)\n}\n\n", i, i)
	}
	for s := 0; s < nSlots; s++ {
		fmt.Fprintf(&sb, "func Saved%d(a int) {\n\tfmt.Println(\"saved\", savedFn%d(a))\n}\n\n", s, s)
		fmt.Fprintf(&sb, "func SavedM%d(a int) {\n\tfmt.Println(\"smethod\", savedM%d(a), inst.N)\n}\n\n", s, s)
	}
	sb.WriteString("func NewInst() {\n\tinst = &Obj{N: 0}\n}\n\nfunc Field(a int) {\n\tfmt.Println(\"field\", inst.F(a))\n}\n\n")
	sb.WriteString("func Bump() {\n\tcounter += 5\n\tinitd += 7\n\tlabel = label + \"+\"\n}\n\nfunc Show() {\n\tfmt.Println(\"state\", counter, initd, label)\n}\n\n")
	sb.WriteString("func Fill(a int) {\n\tshape = &Pt{X: a, Y: 2}\n\tanyv = a\n\tnums = append(nums, a)\n\tif tab == nil {\n\t\ttab = map[string]int{}\n\t}\n\ttab[\"k\"] = a\n\tratio = float64(a) / 2\n\tflag = true\n\tname = name + \"n\"\n\tsmall += 100\n\tbt += 200\n\tu32 += 4000000000\n}\n\n")
	sb.WriteString("func ShowAll() {\n\tif shape != nil {\n\t\tfmt.Println(\"shape\", shape.Area())\n\t}\n\tif anyv != nil {\n\t\tfmt.Println(\"any\", anyv)\n\t}\n\tfmt.Println(\"all\", shape == nil, anyv == nil, nums, len(nums), len(tab), tab[\"k\"], ratio, flag, name, small, bt, u32)\n}\n\n")
	// an imported script package is reloaded with the package that imports it
	sb.WriteString("func LibShow() {\n\tfmt.Println(\"lib\", lib.Ver(), lib.Level, lib.Count)\n}\n\nfunc LibRaise() {\n\tlib.Raise()\n}\n\n")
	// a reload requested by the running script itself (the host function loads the next version while Live is active):
	// the rest of Live runs on, reading and writing the package's variables as they are after the reload
	sb.WriteString("func Live(next int) {\n\tbefore := counter\n\thost.reload(next)\n\tcounter += 100\n\tfmt.Println(\"live\", before, counter, initd, label, Tag())\n}\n\n")
	// every version mentions a few hundred constants no earlier version had: the VM's table of names grows
	fmt.Fprintf(&sb, "func Pad() int {\n\tt := 0\n\tfor _, v := range []string{")
	for i := 0; i < 150; i++ {
		fmt.Fprintf(&sb, "\"pad-%d-%d\", ", k, i)
	}
	sb.WriteString("} {\n\t\tt += len(v)\n\t}\n\treturn t\n}\n\n")
	sb.WriteString("func MakePt() {\n\tpt = &Pt{X: 1, Y: 2, Name: \"p\"}\n}\n\nfunc ShowPt() {\n\tfmt.Println(pt, pt.X+pt.Y)\n}\n")
	return sb.String()
}

// files is version k of the whole tree: the package and the script package it imports.
func (h *History) files(k int) map[string]string {
	return map[string]string{
		"app/app.go": h.source(k),
		"lib/lib.go": fmt.Sprintf("package lib\n\nvar Level = 10\nvar Count int\n\nfunc Ver() int {\n\treturn %d\n}\n\nfunc Raise() {\n\tLevel++\n\tCount++\n}\n", k),
	}
}

func genHistory(rt *rapid.T) *History {
	h := &History{NFuncs: rx.Range(rt, "nfuncs", 1, 3), NMeths: rx.Range(rt, "nmeths", 1, 2)}
	k := 1
	h.Ops = append(h.Ops, Op{Op: "load", K: 1})
	hasInst, hasPt, fieldSet := false, false, false
	slotFn, slotM := map[int]bool{}, map[int]bool{}
	n := rx.Range(rt, "steps", 3, 40)
	for i := 0; i < n; i++ {
		arg := rx.Range(rt, "arg", 1, 9)
		switch rx.Weighted(rt, "op", 6, 5, 5, 5, 4, 4, 4, 3, 3, 3, 2, 2, 2, 3, 3) {
		case 13:
			if rapid.Bool().Draw(rt, "stepv") {
				h.Ops = append(h.Ops, Op{Op: rx.Pick(rt, "stepvvia", "stepv_call", "stepv_call", "stepv_func", "stepv_script"), Arg: arg})
				continue
			}
			h.Ops = append(h.Ops, Op{Op: "fill", Arg: arg})
			continue
		case 14:
			switch rx.Uniform(rt, 4, "extra") {
			case 0:
				h.Ops = append(h.Ops, Op{Op: "libraise"})
			case 1:
				h.Ops = append(h.Ops, Op{Op: "libshow"})
			case 2:
				k++
				h.Ops = append(h.Ops, Op{Op: "live", K: k})
			default:
				h.Ops = append(h.Ops, Op{Op: "showall"})
			}
			continue
		}
		switch rx.Weighted(rt, "op2", 6, 5, 5, 5, 4, 4, 4, 3, 3, 3, 2, 2, 2) {
		case 0:
			if rx.Chance(rt, "sameversion", 1, 4) {
				h.Ops = append(h.Ops, Op{Op: "load", K: k}) // identical source
			} else if rx.Chance(rt, "afterfailed", 1, 4) {
				// a version that fails while it initialises, then a good one (the same version without the failing line, or the next)
				k++
				bad := k
				if rapid.Bool().Draw(rt, "nextgood") {
					k++
				}
				h.Ops = append(h.Ops, Op{Op: "load", K: k, Bad: bad})
			} else {
				k++
				h.Ops = append(h.Ops, Op{Op: "load", K: k})
			}
		case 1:
			s := rx.Uniform(rt, nSlots, "slot")
			h.Ops = append(h.Ops, Op{Op: "capturefn", Fn: rx.Uniform(rt, h.NFuncs, "fn"), Slot: s})
			slotFn[s] = true
		case 2:
			h.Ops = append(h.Ops, Op{Op: "direct", Fn: rx.Uniform(rt, h.NFuncs, "fn"), Arg: arg})
		case 3:
			if len(slotFn) == 0 {
				continue
			}
			s := rx.Uniform(rt, nSlots, "slot")
			if !slotFn[s] {
				continue
			}
			h.Ops = append(h.Ops, Op{Op: "saved", Slot: s, Arg: arg})
		case 4:
			h.Ops = append(h.Ops, Op{Op: "newinst"})
			hasInst, fieldSet = true, false
		case 5:
			if !hasInst {
				continue
			}
			s := rx.Uniform(rt, nSlots, "slot")
			h.Ops = append(h.Ops, Op{Op: "capturem", Fn: rx.Uniform(rt, h.NMeths, "meth"), Slot: s})
			slotM[s] = true
		case 6:
			if !hasInst {
				continue
			}
			s := rx.Uniform(rt, nSlots, "slot")
			if !slotM[s] {
				continue
			}
			h.Ops = append(h.Ops, Op{Op: "savedm", Slot: s, Arg: arg})
		case 7:
			if !hasInst {
				continue
			}
			h.Ops = append(h.Ops, Op{Op: "directm", Fn: rx.Uniform(rt, h.NMeths, "meth"), Arg: arg})
		case 8:
			if !hasInst {
				continue
			}
			h.Ops = append(h.Ops, Op{Op: "setfield", Fn: rx.Uniform(rt, h.NFuncs, "fn")})
			fieldSet = true
		case 9:
			if !hasInst || !fieldSet {
				continue
			}
			h.Ops = append(h.Ops, Op{Op: "field", Arg: arg})
		case 10:
			h.Ops = append(h.Ops, Op{Op: "bump"})
		case 11:
			h.Ops = append(h.Ops, Op{Op: "show"})
		default:
			if hasPt && rapid.Bool().Draw(rt, "showpt") {
				h.Ops = append(h.Ops, Op{Op: "showpt"})
			} else {
				h.Ops = append(h.Ops, Op{Op: "makept"})
				hasPt = true
			}
		}
	}
	h.Ops = append(h.Ops, Op{Op: "show"}, Op{Op: "showall"})
	return h
}

func goatInt(x int) goatlang.Value { return goatlang.Int(x) }

// model state
type inst struct{ n int }

type model struct {
	k        int
	counter  int
	initd    int
	label    string
	cur      *inst
	fieldFn  map[*inst]int
	savedFn  [nSlots]int
	savedM   [nSlots]struct {
		o *inst
		m int
	}
	fills []int // arguments of the Fill calls so far
	filledAt int // version loaded at the last Fill
	stepvCalledAt int // version loaded when the host last called stepv by name
	libLevel, libCount int // the imported package's variables: Level has an initialiser, Count has none
}

func check(h *History) (f *ev.Failure) {
	vm := goat.New()
	m := &model{fieldFn: map[*inst]int{}, libLevel: 10}
	var reloadErr error
	vm.Set("host.reload", goatlang.NewFunc(1, 0, func(_ *goatlang.VM, args []goatlang.Value) {
		// the reload is done on the VM the script is running on, as the CLI's live mode does from its yield hook
		reloadErr = vm.VM.Load(goat.FS(h.files(args[0].Int())), "app")
	}))
	nontrivial := false
	captureVersion := map[string]int{}
	fail := func(i int, msg string) *ev.Failure {
		return &ev.Failure{Kind: "history", Case: h, Msg: fmt.Sprintf("step %d (%+v), version %d loaded: %s", i, h.Ops[i], m.k, msg)}
	}
	defer func() {
		if r := recover(); r != nil {
			f = &ev.Failure{Kind: "history", Case: h, Msg: fmt.Sprintf("host panic: %v", r)}
		}
	}()
	for i, op := range h.Ops {
		var r goat.Result
		want := ""
		call := func(name string, args ...int) {
			switch len(args) {
			case 0:
				r = vm.Call("app."+name, 0, goat.DefaultBudget)
			default:
				r = vm.Call("app."+name, 0, goat.DefaultBudget, goatInt(args[0]))
			}
		}
		switch op.Op {
		case "load":
			if op.Bad > 0 {
				files := h.files(op.Bad)
				files["app/app.go"] += fmt.Sprintf("\nfunc failInit(d int) int {\n\tfmt.Println(\"about to fail\", \"only-in-the-failing-version-%d\")\n\treturn 1 / d\n}\n\nvar failedInit = failInit(0)\n", op.Bad)
				br := vm.Load(goat.FS(files), "app", goat.DefaultBudget)
				if br.Panic != nil || br.Err == nil || !strings.Contains(br.Err.Error(), "divide by zero") {
					return fail(i, "the version whose last initialiser divides by zero should fail with that error, got: "+br.ErrString())
				}
				vm.Out.Reset()
				nontrivial = true
				ev.R().Class("good_load_after_a_load_that_failed_in_an_initialiser")
			}
			r = vm.Load(goat.FS(h.files(op.K)), "app", goat.DefaultBudget)
			m.k = op.K
			m.initd = 10 // variables with an initialiser are re-initialised, the others keep their values
			m.label = "fresh"
			m.libLevel = 10
		case "live":
			before := m.counter
			call("Live", op.K)
			if reloadErr != nil {
				return fail(i, "the reload requested by the running script failed: "+reloadErr.Error())
			}
			m.k = op.K
			m.initd, m.label, m.libLevel = 10, "fresh", 10
			m.counter += 100
			want = fmt.Sprintf("live %d %d %d %s %d\n", before, m.counter, m.initd, m.label, m.k)
			nontrivial = true
			ev.R().Class("reload_requested_by_the_running_script")
		case "libraise":
			call("LibRaise")
			m.libLevel++
			m.libCount++
		case "libshow":
			call("LibShow")
			want = fmt.Sprintf("lib %d %d %d\n", m.k, m.libLevel, m.libCount)
		case "capturefn":
			call(fmt.Sprintf("CaptureFn%d_%d", op.Fn, op.Slot))
			m.savedFn[op.Slot] = op.Fn
			captureVersion[fmt.Sprint("fn", op.Slot)] = m.k
		case "direct":
			call(fmt.Sprintf("Direct%d", op.Fn), op.Arg)
			m.counter += op.Fn + 1
			want = fmt.Sprintf("direct %d %d\n", op.Arg*1000+op.Fn*100+m.k, m.k)
		case "saved":
			call(fmt.Sprintf("Saved%d", op.Slot), op.Arg)
			fn := m.savedFn[op.Slot]
			m.counter += fn + 1
			want = fmt.Sprintf("saved %d\n", op.Arg*1000+fn*100+m.k)
			if captureVersion[fmt.Sprint("fn", op.Slot)] < m.k {
				nontrivial = true
			}
		case "newinst":
			call("NewInst")
			m.cur = &inst{}
		case "capturem":
			call(fmt.Sprintf("CaptureM%d_%d", op.Fn, op.Slot))
			m.savedM[op.Slot].o, m.savedM[op.Slot].m = m.cur, op.Fn
			captureVersion[fmt.Sprint("m", op.Slot)] = m.k
		case "savedm":
			call(fmt.Sprintf("SavedM%d", op.Slot), op.Arg)
			sm := m.savedM[op.Slot]
			sm.o.n += sm.m + 1
			want = fmt.Sprintf("smethod %d %d\n", op.Arg*1000+sm.m*100+50+m.k, m.cur.n)
			if captureVersion[fmt.Sprint("m", op.Slot)] < m.k {
				nontrivial = true
			}
		case "directm":
			call(fmt.Sprintf("DirectM%d", op.Fn), op.Arg)
			m.cur.n += op.Fn + 1
			want = fmt.Sprintf("dmethod %d %d\n", op.Arg*1000+op.Fn*100+50+m.k, m.cur.n)
		case "setfield":
			call(fmt.Sprintf("SetField%d", op.Fn))
			m.fieldFn[m.cur] = op.Fn
			captureVersion[fmt.Sprintf("field%p", m.cur)] = m.k
		case "field":
			call("Field", op.Arg)
			fn := m.fieldFn[m.cur]
			m.counter += fn + 1
			want = fmt.Sprintf("field %d\n", op.Arg*1000+fn*100+m.k)
			if captureVersion[fmt.Sprintf("field%p", m.cur)] < m.k {
				nontrivial = true
			}
		case "bump":
			call("Bump")
			m.counter += 5
			m.initd += 7
			m.label += "+"
		case "show":
			call("Show")
			want = fmt.Sprintf("state %d %d %s\n", m.counter, m.initd, m.label)
		case "stepv_call", "stepv_func":
			if op.Op == "stepv_call" {
				r = vm.Call("app.stepv", 1, goat.DefaultBudget, goatInt(op.Arg))
			} else {
				r = vm.Func(vm.Get("app.stepv"), 1, goat.DefaultBudget, goatInt(op.Arg))
			}
			if !r.Failed() {
				if len(r.Rets) != 1 || r.Rets[0].Int() != op.Arg*1000+900+m.k {
					return fail(i, fmt.Sprintf("the host called the function variable stepv (initialised by version %d's literal): got %v, expected %d", m.k, r.RetStrings(), op.Arg*1000+900+m.k))
				}
			}
			if m.stepvCalledAt > 0 && m.stepvCalledAt < m.k {
				nontrivial = true
				ev.R().Class("function_variable_with_initialiser_called_by_name_before_and_after_a_reload")
			}
			m.stepvCalledAt = m.k
		case "stepv_script":
			call("CallStepv", op.Arg)
			want = fmt.Sprintf("stepv %d\n", op.Arg*1000+900+m.k)
		case "fill":
			call("Fill", op.Arg)
			m.fills = append(m.fills, op.Arg)
			m.filledAt = m.k
		case "showall":
			call("ShowAll")
			if n := len(m.fills); n > 0 {
				a := m.fills[n-1]
				want = fmt.Sprintf("shape %d\nany %d\n", a*2, a)
				want += fmt.Sprintln("all", false, false, m.fills, n, 1, a, float64(a)/2, true, strings.Repeat("n", n), int8(100*n), uint8(200*n), uint32(4000000000*uint64(n)))
				if m.filledAt < m.k {
					nontrivial = true
					ev.R().Class("uninitialised_globals_of_all_types_read_after_reload")
				}
			} else {
				want = fmt.Sprintln("all", true, true, []int{}, 0, 0, 0, float64(0), false, "", int8(0), uint8(0), uint32(0))
			}
		case "makept":
			call("MakePt")
		case "showpt":
			call("ShowPt")
			want = "&{X:1 Y:2 Name:p} 3\n"
		}
		if r.Panic != nil {
			return fail(i, fmt.Sprintf("Go panic escaped: %v", r.Panic))
		}
		if r.Err != nil {
			return fail(i, "failed: "+r.Err.Error())
		}
		if r.Stdout != want {
			return fail(i, fmt.Sprintf("printed %q, expected %q", r.Stdout, want))
		}
	}
	rr := ev.R()
	rr.Eval(1)
	if nontrivial {
		rr.Nontrivial(ev.HashJSON(h))
		rr.Class("captured_value_invoked_after_reload")
	}
	return nil
}

func TestReload(t *testing.T) {
	n := 0
	ev.R().RapidCheck(t, func(rt *rapid.T) *ev.Failure {
		h := genHistory(rt)
		n++
		if n%300 == 1 {
			ev.R().Sample(map[string]any{"history": h.Ops, "version_1_source": h.source(1)})
		}
		return check(h)
	})
}

func TestReplay(t *testing.T) {
	ev.R().RunReplays(t, map[string]ev.ReplayFunc{
		"history": func(raw json.RawMessage) *ev.Failure {
			var h History
			if err := json.Unmarshal(raw, &h); err != nil {
				return &ev.Failure{Kind: "history", Case: string(raw), Msg: "bad replay: " + err.Error()}
			}
			return check(&h)
		},
	})
}
