// C06 — break, continue and return always reach the target Go specifies.
//
// Control skeletons (trees of trace / if-else chains / for in three forms / range / switch / break / continue /
// return) are enumerated exhaustively for small sizes and sampled beyond; each is a Go function whose printed
// trace must be identical under the Go toolchain (GOARCH=386) and goatlang.
package c06

import (
	"encoding/json"
	"fmt"
	"strings"
	"testing"

	"pgregory.net/rapid"

	"verif/internal/diffgo"
	"verif/internal/ev"
	"verif/internal/goat"
	"verif/internal/oracle"
	"verif/internal/rx"
)

func TestMain(m *testing.M) { ev.Main(m, "C06") }

// Node is one statement of a skeleton.
type Node struct {
	K     string  `json:"k"` // t if for cond inf range switch break continue return
	ID    int     `json:"id"`
	Cond  int     `json:"cond,omitempty"`  // index of a condition template
	CK    int     `json:"ck,omitempty"`    // constant used by the condition
	Body  []*Node `json:"body,omitempty"`  // then-branch / loop body
	Else  []*Node `json:"else,omitempty"`  // else branch (nil = none)
	ElIf  *Node   `json:"elif,omitempty"`  // else-if chain (an "if" node)
	N     int     `json:"n,omitempty"`     // loop bound (1..3) / range length
	Post  int     `json:"post,omitempty"`  // for: 0 i++, 1 i = inc(i, id), 2 i += one(id)
	Over  int     `json:"over,omitempty"`  // range: 0 slice, 1 map with one entry, 2 string
	Tag   int     `json:"tag,omitempty"`   // switch: 0 tagged on a counter, 1 tagless, 2 tagless with a call in the case expression
	Cases []*Case `json:"cases,omitempty"`
	Def   []*Node `json:"def,omitempty"`    // default body
	HasDef bool   `json:"has_def,omitempty"`
	DefPos int    `json:"def_pos,omitempty"` // position of default among the cases
	Dead  bool    `json:"dead,omitempty"`   // jump statements: followed by a (dead) trace in the same block
	Fill  int     `json:"fill,omitempty"`   // trace statements: 0 none, else a filler statement (see fillers) follows the trace
	Same  bool    `json:"same,omitempty"`   // for: the counter is called i, like the counters of other such loops around it
}

// fillers are straight-line statements placed between the control constructs. They do not change where control goes;
// they change what the compiler and its peephole optimizer see inside the blocks whose lengths the jump offsets are
// computed from (constant folding, in-place updates, indexed stores), and their effect is visible in every later trace.
var fillers = []string{"",
	"acc += 1 + 2", "acc -= 2 - 1", "zs[1+1] = acc", "acc = acc*2 + 1", "acc++", "acc += zs[0+1]", "acc = 1 + 2 - 3 + acc", "acc = 10 - 1 - acc",
	"zs[acc&3] += 1 + 1", "acc -= 0", "acc = -acc", "acc ^= 1 + 4", "acc, zs[0] = zs[0], acc", "acc += len(zs) - 1", "zs = append(zs[:2+1], acc)", "acc--",
}

type Case struct {
	Vals []int   `json:"vals"`
	Body []*Node `json:"body"`
}

type Skel struct {
	Body []*Node `json:"body"`
}

// ---- printing ---------------------------------------------------------------------------------

type printer struct {
	sb      strings.Builder
	counters []string // in-scope integer variables usable in conditions
	loopDepth int
	depth   int
	jumps   map[int]int // id of jump trace -> nesting depth
}

func (p *printer) line(depth int, format string, a ...any) {
	p.sb.WriteString(strings.Repeat("\t", depth))
	fmt.Fprintf(&p.sb, format, a...)
	p.sb.WriteString("\n")
}

func (p *printer) counterSum() string {
	if len(p.counters) == 0 {
		return "p"
	}
	return "p + " + strings.Join(p.counters, " + ")
}

func (p *printer) v(k int) string {
	all := append([]string{"p"}, p.counters...)
	return all[len(all)-1-k%len(all)]
}

func (p *printer) cond(n *Node) string {
	a, b := p.v(0), p.v(1)
	switch n.Cond % 9 {
	case 7: // the right operand of && ends in a negation
		return fmt.Sprintf("%s != %d && !(%s < 2)", a, n.CK%3, b)
	case 8:
		return fmt.Sprintf("%s < %d || !(%s == 2)", a, n.CK%3, b)
	case 0:
		return fmt.Sprintf("%s%%2 == 0", a)
	case 1:
		return fmt.Sprintf("%s == %d", a, n.CK%3)
	case 2:
		return fmt.Sprintf("%s > %d", a, n.CK%3)
	case 3:
		return fmt.Sprintf("%s+%s == %d", a, b, n.CK%4)
	case 4:
		return fmt.Sprintf("%s != %d && %s < 2", a, n.CK%3, b)
	case 5:
		return "true"
	default:
		return fmt.Sprintf("%s < %d || %s == 2", a, n.CK%3, b)
	}
}

func (p *printer) block(ns []*Node, d int, nest int) {
	for _, n := range ns {
		p.node(n, d, nest)
	}
}

func (p *printer) node(n *Node, d int, nest int) {
	switch n.K {
	case "t":
		p.line(d, "fmt.Println(\"t\", %d, %s, acc, zs[0])", n.ID, p.counterSum())
		if n.Fill > 0 {
			p.line(d, "%s", fillers[n.Fill%len(fillers)])
		}
	case "if":
		p.ifChain(n, d, nest, "if")
	case "for":
		v := fmt.Sprintf("i%d", n.ID)
		if n.Same {
			v = "i" // every such loop declares its own i: nested ones shadow the enclosing loop's counter
		}
		post := v + "++"
		init := v + " := 0"
		emptyCond, emptyPost := false, false
		postKind := n.Post % 9
		if n.Same && postKind == 7 {
			postKind = 0 // two sibling loops cannot both declare i in the enclosing block
		}
		switch postKind {
		case 6: // no condition: the body's first statement leaves the loop
			emptyCond = true
		case 7: // no init statement: the counter is declared before the loop
			p.line(d, "%s := 0", v)
			init = ""
		case 8: // no post statement: the body's first statement advances the counter
			init = v + " := -1"
			emptyPost = true
		case 5: // the step is a constant expression
			post = v + " += 2 - 1"
		case 1:
			post = fmt.Sprintf("%s = inc(%s, %d)", v, v, n.ID)
		case 2:
			post = fmt.Sprintf("%s += one(%d)", v, n.ID)
		case 3: // the counter is an element of a package-level slice, the post statement is a bare call
			v = fmt.Sprintf("ws[%d]", n.ID%64)
			init, post = v+" = 0", fmt.Sprintf("step(%d)", n.ID%64)
		case 4: // init and post statements are both bare calls
			v = fmt.Sprintf("ws[%d]", n.ID%64)
			init, post = fmt.Sprintf("reset(%d)", n.ID%64), fmt.Sprintf("step(%d)", n.ID%64)
		}
		switch {
		case emptyCond:
			p.line(d, "for %s; ; %s {", init, post)
			p.line(d+1, "if %s >= %d {", v, n.N)
			p.line(d+2, "break")
			p.line(d+1, "}")
		case emptyPost:
			p.line(d, "for %s; %s < %d; {", init, v, n.N-1)
			p.line(d+1, "%s++", v)
		default:
			p.line(d, "for %s; %s < %d; %s {", init, v, n.N, post)
		}
		if (n.ID+n.N)%3 == 0 && !strings.HasPrefix(v, "ws[") {
			// the body declares its own copy of the loop variable: the post statement still advances the loop's one
			p.line(d+1, "%s := %s", v, v)
			p.line(d+1, "%s += 0", v)
		}
		p.counters = append(p.counters, v)
		p.block(n.Body, d+1, nest+1)
		p.counters = p.counters[:len(p.counters)-1]
		p.line(d, "}")
	case "cond":
		v := fmt.Sprintf("c%d", n.ID)
		p.line(d, "%s := 0", v)
		if (n.ID+n.N)%2 == 0 {
			p.line(d, "for lt(%s, %d) {", v, n.N) // the condition is a bare call
		} else {
			p.line(d, "for %s < %d {", v, n.N)
		}
		p.line(d+1, "%s++", v)
		p.counters = append(p.counters, v)
		p.block(n.Body, d+1, nest+1)
		p.counters = p.counters[:len(p.counters)-1]
		p.line(d, "}")
		p.line(d, "fmt.Println(\"after\", %d, %s)", n.ID, v)
	case "inf":
		v := fmt.Sprintf("g%d", n.ID)
		p.line(d, "%s := 0", v)
		p.line(d, "for {")
		p.line(d+1, "%s++", v)
		p.line(d+1, "if %s > %d {", v, n.N)
		p.line(d+2, "break")
		p.line(d+1, "}")
		p.counters = append(p.counters, v)
		p.block(n.Body, d+1, nest+1)
		p.counters = p.counters[:len(p.counters)-1]
		p.line(d, "}")
		p.line(d, "fmt.Println(\"after\", %d, %s)", n.ID, v)
	case "range":
		k, v := fmt.Sprintf("k%d", n.ID), fmt.Sprintf("v%d", n.ID)
		if n.Over%6 == 5 {
			// the same range statement runs twice in one frame: first over a slice with elements, left by break after the
			// first one, then over the same variable set to nil (no pass at all)
			rq, ps := fmt.Sprintf("rq%d", n.ID), fmt.Sprintf("ps%d", n.ID)
			p.line(d, "%s := []int{10, 20, 30}", rq)
			p.line(d, "for %s := 0; %s < 2; %s++ {", ps, ps, ps)
			p.line(d+1, "for %s, %s := range %s {", k, v, rq)
			p.line(d+2, "fmt.Println(\"r\", %d, %s, %s, %s)", n.ID, ps, k, v)
			p.counters = append(p.counters, ps)
			p.block(n.Body, d+2, nest+2)
			p.counters = p.counters[:len(p.counters)-1]
			p.line(d+2, "if %s >= 0 {", k)
			p.line(d+3, "break")
			p.line(d+2, "}")
			p.line(d+1, "}")
			p.line(d+1, "%s = nil", rq)
			p.line(d, "}")
			p.line(d, "fmt.Println(\"after\", %d, len(%s))", n.ID, rq)
			break
		}
		if n.Over%6 == 4 {
			// a loop that empties the map it ranges over: every entry is deleted when it is visited, so each is visited
			// exactly once whatever the order, and the pass counter is the only thing the body sees of the iteration
			md, cnt := fmt.Sprintf("md%d", n.ID), fmt.Sprintf("dn%d", n.ID)
			var entries []string
			for i := 0; i < 2*n.N+2; i++ {
				entries = append(entries, fmt.Sprintf("%d: %d", i*7+1, i))
			}
			p.line(d, "%s := map[int]int{%s}", md, strings.Join(entries, ", "))
			p.line(d, "%s := 0", cnt)
			p.line(d, "for %s := range %s {", k, md)
			p.line(d+1, "delete(%s, %s)", md, k)
			p.line(d+1, "%s++", cnt)
			p.counters = append(p.counters, cnt)
			p.block(n.Body, d+1, nest+1)
			p.counters = p.counters[:len(p.counters)-1]
			p.line(d, "}")
			p.line(d, "fmt.Println(\"after\", %d, %s, len(%s))", n.ID, cnt, md)
			break
		}
		var over string
		switch n.Over % 6 {
		case 3: // the function's slice variable itself: nested loops of this kind iterate over the same slice value
			over = "rs"
		case 0:
			over = "[]int{10, 20, 30}[:" + fmt.Sprint(n.N) + "]"
		case 1:
			over = "map[int]int{1: 2}"
		default:
			over = fmt.Sprintf("%q", "ab€"[:n.N])
		}
		p.line(d, "for %s, %s := range %s {", k, v, over)
		p.line(d+1, "fmt.Println(\"r\", %d, %s, %s)", n.ID, k, v)
		p.counters = append(p.counters, k)
		p.block(n.Body, d+1, nest+1)
		p.counters = p.counters[:len(p.counters)-1]
		p.line(d, "}")
	case "switch":
		tag := p.v(0)
		switch n.Tag % 5 {
		case 0, 3:
			p.line(d, "switch %s {", tag)
		case 4: // the tag is a package-level variable that the case expressions change while they are evaluated
			p.line(d, "gt = %s", tag)
			p.line(d, "switch gt {")
		default:
			p.line(d, "switch {")
		}
		emitDefault := func() {
			p.line(d, "default:")
			p.block(n.Def, d+1, nest+1)
		}
		for ci, c := range n.Cases {
			if n.HasDef && n.DefPos == ci {
				emitDefault()
			}
			var vs []string
			for vi, x := range c.Vals {
				switch n.Tag % 5 {
				case 4:
					vs = append(vs, fmt.Sprintf("setTag(gt+1, %d)", x))
				case 3: // alternatives that are local variables (kv0..kv5 hold 0..5), mixed with constants
					if (vi+ci)%3 == 2 {
						vs = append(vs, fmt.Sprint(x))
					} else {
						vs = append(vs, fmt.Sprintf("kv%d", x))
					}
				case 0:
					vs = append(vs, fmt.Sprint(x))
				case 1:
					vs = append(vs, fmt.Sprintf("%s == %d", tag, x))
				default:
					vs = append(vs, fmt.Sprintf("is(%s, %d)", tag, x))
				}
			}
			p.line(d, "case %s:", strings.Join(vs, ", "))
			p.block(c.Body, d+1, nest+1)
		}
		if n.HasDef && n.DefPos >= len(n.Cases) {
			emitDefault()
		}
		p.line(d, "}")
	case "break", "continue", "return":
		p.line(d, "fmt.Println(\"j\", %d)", n.ID)
		p.jumps[n.ID] = nest
		p.line(d, "%s", n.K)
		if n.Dead {
			p.line(d, "fmt.Println(\"dead\", %d)", n.ID)
		}
	}
}

func (p *printer) ifChain(n *Node, d int, nest int, kw string) {
	p.line(d, "%s %s {", kw, p.cond(n))
	p.block(n.Body, d+1, nest+1)
	switch {
	case n.ElIf != nil:
		p.sb.WriteString(strings.Repeat("\t", d))
		p.sb.WriteString("} else ")
		// render the chained if on the same line
		sub := &printer{counters: p.counters, jumps: p.jumps}
		sub.ifChain(n.ElIf, d, nest, "if")
		s := sub.sb.String()
		p.sb.WriteString(strings.TrimLeft(s, "\t"))
	case n.Else != nil:
		p.line(d, "} else {")
		p.block(n.Else, d+1, nest+1)
		p.line(d, "}")
	default:
		p.line(d, "}")
	}
}

// Source renders the whole program.
func (s *Skel) Source() (string, map[int]int) {
	p := &printer{jumps: map[int]int{}}
	p.block(s.Body, 1, 0)
	var sb strings.Builder
	sb.WriteString("package prog\n\nimport \"fmt\"\n\n")
	sb.WriteString("func inc(i int, id int) int {\n\tfmt.Println(\"post\", id)\n\treturn i + 1\n}\n\n")
	sb.WriteString("func one(id int) int {\n\tfmt.Println(\"post\", id)\n\treturn 1\n}\n\n")
	sb.WriteString("func is(a int, b int) bool {\n\treturn a == b\n}\n\n")
	sb.WriteString("func lt(a int, b int) bool {\n\treturn a < b\n}\n\n")
	sb.WriteString("var gt int\n\nfunc setTag(v int, ret int) int {\n\tgt = v\n\treturn ret\n}\n\n")
	sb.WriteString("var ws = make([]int, 64)\n\nfunc step(k int) {\n\tfmt.Println(\"post\", k)\n\tws[k]++\n}\n\nfunc reset(k int) int {\n\tws[k] = 0\n\treturn k\n}\n\n")
	sb.WriteString("func f(p int) {\n\tacc := p\n\tzs := []int{1, 2, 3, 4}\n\trs := []int{10, 20, 30}\n\t_ = rs\n\tkv0, kv1, kv2, kv3, kv4, kv5 := 0, 1, 2, 3, 4, 5\n\t_, _, _, _, _, _ = kv0, kv1, kv2, kv3, kv4, kv5\n")
	sb.WriteString(p.sb.String())
	sb.WriteString("\tfmt.Println(\"end\", p, acc, zs)\n}\n\n")
	sb.WriteString("func Main() {\n\tfor p := 0; p < 3; p++ {\n\t\tfmt.Println(\"call\", p)\n\t\tf(p)\n\t}\n\tfmt.Println(inc(1, 0), one(0), is(1, 1))\n}\n")
	return sb.String(), p.jumps
}

// ---- known findings ---------------------------------------------------------------------------

func skip(id string) bool {
	if ev.KnownOpen("C06", id) == nil {
		return false
	}
	ev.R().Class("excluded_by_known_finding:" + id)
	return true
}

// ---- random generation ------------------------------------------------------------------------

type genState struct {
	rt      *rapid.T
	id      int
	budget  int
	maxDepth int
}

func (g *genState) nextID() int { g.id++; return g.id }

func (g *genState) stmts(depth int, inLoop, inSwitch bool, max int) []*Node {
	n := rx.Range(g.rt, "nstmts", 1, max)
	var out []*Node
	for i := 0; i < n && g.budget > 0; i++ {
		out = append(out, g.stmt(depth, inLoop, inSwitch))
	}
	if len(out) == 0 {
		out = append(out, &Node{K: "t", ID: g.nextID()})
	}
	return out
}

func (g *genState) stmt(depth int, inLoop, inSwitch bool) *Node {
	g.budget--
	rt := g.rt
	w := []int{20, 12, 8, 4, 3, 5, 9, 4, 4, 4} // t if for cond inf range switch break continue return
	if depth >= g.maxDepth {
		w[1], w[2], w[3], w[4], w[5], w[6] = 0, 0, 0, 0, 0, 0
	}
	if !inLoop && !inSwitch {
		w[7] = 0
	}
	if !inLoop {
		w[8] = 0
	}
	switch rx.Weighted(rt, "stmt", w...) {
	case 0:
		n := &Node{K: "t", ID: g.nextID()}
		if rapid.Bool().Draw(rt, "filled") {
			n.Fill = 1 + rx.Uniform(rt, len(fillers)-1, "fill")
		}
		return n
	case 1:
		n := &Node{K: "if", ID: g.nextID(), Cond: rx.Uniform(rt, 9, "cond"), CK: rx.Uniform(rt, 4, "ck")}
		n.Body = g.stmts(depth+1, inLoop, inSwitch, 3)
		cur := n
		for rx.Chance(rt, "elif", 1, 3) && g.budget > 0 {
			e := &Node{K: "if", ID: g.nextID(), Cond: rx.Uniform(rt, 9, "cond"), CK: rx.Uniform(rt, 4, "ck")}
			e.Body = g.stmts(depth+1, inLoop, inSwitch, 2)
			cur.ElIf = e
			cur = e
		}
		if rx.Chance(rt, "else", 1, 2) {
			cur.Else = g.stmts(depth+1, inLoop, inSwitch, 2)
		}
		return n
	case 2:
		n := &Node{K: "for", ID: g.nextID(), N: rx.Range(rt, "bound", 1, 3), Post: rx.Uniform(rt, 9, "post"), Same: rx.Chance(rt, "samename", 1, 3)}
		n.Body = g.stmts(depth+1, true, false, 4)
		return n
	case 3:
		n := &Node{K: "cond", ID: g.nextID(), N: rx.Range(rt, "bound", 1, 3)}
		n.Body = g.stmts(depth+1, true, false, 4)
		return n
	case 4:
		n := &Node{K: "inf", ID: g.nextID(), N: rx.Range(rt, "bound", 1, 3)}
		n.Body = g.stmts(depth+1, true, false, 4)
		return n
	case 5:
		n := &Node{K: "range", ID: g.nextID(), N: rx.Range(rt, "bound", 1, 3), Over: rx.Uniform(rt, 6, "over")}
		n.Body = g.stmts(depth+1, true, false, 4)
		return n
	case 6:
		n := &Node{K: "switch", ID: g.nextID(), Tag: rx.Uniform(rt, 5, "tag")}
		nc := rx.Range(rt, "ncases", 0, 3)
		used := map[int]bool{}
		for i := 0; i < nc; i++ {
			c := &Case{}
			nv := 1
			if rx.Chance(rt, "caselist", 1, 4) && !skip("c06-case-list") {
				nv = 2
			}
			if t := n.Tag % 5; i > 0 && (t == 1 || t == 2 || t == 4) && rx.Chance(rt, "overlap", 1, 3) {
				// case expressions that are not constants may repeat: the first clause that matches runs, alone,
				// even when its body is empty
				prev := n.Cases[rx.Uniform(rt, len(n.Cases), "overlapwith")].Vals
				c.Vals = append(c.Vals, prev[rx.Uniform(rt, len(prev), "overlapval")])
				nv = 0
			}
			for j := 0; j < nv; j++ {
				for v := 0; v < 6; v++ {
					x := (rx.Uniform(rt, 4, "caseval") + v) % 6
					if !used[x] {
						used[x] = true
						c.Vals = append(c.Vals, x)
						break
					}
				}
			}
			if len(c.Vals) == 0 {
				break
			}
			if !rx.Chance(rt, "emptycase", 1, 6) {
				c.Body = g.stmts(depth+1, inLoop, true, 3)
			}
			n.Cases = append(n.Cases, c)
		}
		if rx.Chance(rt, "default", 2, 3) {
			n.HasDef = true
			n.DefPos = rx.Uniform(rt, len(n.Cases)+1, "defpos")
			n.Def = g.stmts(depth+1, inLoop, true, 3)
		}
		return n
	case 7:
		return &Node{K: "break", ID: g.nextID(), Dead: rx.Chance(rt, "dead", 1, 4)}
	case 8:
		return &Node{K: "continue", ID: g.nextID(), Dead: rx.Chance(rt, "dead", 1, 4)}
	default:
		return &Node{K: "return", ID: g.nextID(), Dead: rx.Chance(rt, "dead", 1, 4)}
	}
}

func genSkel(rt *rapid.T) *Skel {
	g := &genState{rt: rt, budget: rx.Range(rt, "budget", 4, 30), maxDepth: rx.Range(rt, "maxdepth", 2, 6)}
	return &Skel{Body: g.stmts(0, false, false, 5)}
}

// ---- exhaustive enumeration -------------------------------------------------------------------

// enumerate yields every skeleton with exactly n nodes from a reduced alphabet (one representative per construct
// and per position-relevant variation), nesting depth <= 3.
func enumerate(n int, visit func(s *Skel)) {
	id := 0
	var lists func(budget, depth int, inLoop, inSwitch bool) [][]*Node
	var single func(budget, depth int, inLoop, inSwitch bool) []*Node
	memo := map[string][][]*Node{}
	lists = func(budget, depth int, inLoop, inSwitch bool) [][]*Node {
		key := fmt.Sprint(budget, depth, inLoop, inSwitch)
		if r, ok := memo[key]; ok {
			return r
		}
		var res [][]*Node
		if budget == 0 {
			res = [][]*Node{nil}
		} else {
			for first := 1; first <= budget; first++ {
				for _, head := range single(first, depth, inLoop, inSwitch) {
					for _, tail := range lists(budget-first, depth, inLoop, inSwitch) {
						l := append([]*Node{head}, tail...)
						res = append(res, l)
					}
				}
			}
		}
		memo[key] = res
		return res
	}
	single = func(budget, depth int, inLoop, inSwitch bool) []*Node {
		var res []*Node
		if budget == 1 {
			res = append(res, &Node{K: "t"})
			if inLoop || inSwitch {
				res = append(res, &Node{K: "break"})
			}
			if inLoop {
				res = append(res, &Node{K: "continue"})
			}
			res = append(res, &Node{K: "return"})
			return res
		}
		if depth >= 3 {
			return nil
		}
		inner := budget - 1
		// if (cond 0: parity of innermost counter), with and without else
		for _, b := range lists(inner, depth+1, inLoop, inSwitch) {
			if len(b) > 0 {
				res = append(res, &Node{K: "if", Cond: 0, Body: b})
			}
		}
		for split := 1; split < inner; split++ {
			for _, b := range lists(split, depth+1, inLoop, inSwitch) {
				for _, e := range lists(inner-split, depth+1, inLoop, inSwitch) {
					res = append(res, &Node{K: "if", Cond: 1, CK: 1, Body: b, Else: e})
				}
			}
		}
		// loops: three-clause with a tracing post statement, and range over a slice
		for _, b := range lists(inner, depth+1, true, false) {
			if len(b) > 0 {
				res = append(res, &Node{K: "for", N: 2, Post: 1, Body: b})
				res = append(res, &Node{K: "for", N: 2, Post: 1, Same: true, Body: b}) // counter named i: nested ones shadow
				res = append(res, &Node{K: "for", N: 2, Post: 4, Body: b})
				res = append(res, &Node{K: "range", N: 2, Over: 0, Body: b})
			}
		}
		// switch on the innermost counter: one case [0] plus default before or after it, or two cases without default
		for split := 0; split <= inner; split++ {
			for _, cb := range lists(split, depth+1, inLoop, true) {
				for _, db := range lists(inner-split, depth+1, inLoop, true) {
					for _, pos := range []int{0, 1} {
						res = append(res, &Node{K: "switch", Tag: 0, Cases: []*Case{{Vals: []int{0}, Body: cb}}, HasDef: true, DefPos: pos, Def: db})
					}
					if len(db) > 0 {
						res = append(res, &Node{K: "switch", Tag: 1, Cases: []*Case{{Vals: []int{0}, Body: cb}, {Vals: []int{1}, Body: db}}})
					}
				}
			}
		}
		return res
	}
	serial := 0
	for _, body := range lists(n, 0, false, false) {
		id = 0
		sk := &Skel{Body: cloneNumbered(body, &id)}
		// decorate: every other skeleton gets a filler after each trace, chosen by position and serial number
		serial++
		if serial%2 == 0 {
			decorate(sk.Body, serial/2)
		}
		visit(sk)
	}
}

func decorate(ns []*Node, salt int) {
	for _, n := range ns {
		if n.K == "t" {
			n.Fill = 1 + (salt+n.ID*5)%(len(fillers)-1)
		}
		if n.K == "range" && (salt+n.ID)%2 == 1 {
			n.Over = 3
		}
		if n.K == "switch" && n.Tag == 0 && (salt+n.ID)%3 != 2 {
			n.Tag = 3 + (salt+n.ID)%3
		}
		if n.K == "for" && n.Post == 1 && !n.Same && (salt+n.ID)%3 == 0 {
			n.Post = 5 + (salt+n.ID)%4 // constant step, or one of the three clauses empty
		}
		decorate(n.Body, salt)
		decorate(n.Else, salt)
		decorate(n.Def, salt)
		for _, c := range n.Cases {
			decorate(c.Body, salt)
		}
	}
}

func cloneNumbered(ns []*Node, id *int) []*Node {
	var out []*Node
	for _, n := range ns {
		c := *n
		*id++
		c.ID = *id
		c.Body = cloneNumbered(n.Body, id)
		c.Else = cloneNumbered(n.Else, id)
		c.Def = cloneNumbered(n.Def, id)
		if n.Else != nil && c.Else == nil {
			c.Else = []*Node{}
		}
		c.Cases = nil
		for _, cs := range n.Cases {
			c.Cases = append(c.Cases, &Case{Vals: cs.Vals, Body: cloneNumbered(cs.Body, id)})
		}
		out = append(out, &c)
	}
	return out
}

// ---- checking ---------------------------------------------------------------------------------

func prog(s *Skel) *oracle.Program {
	src, _ := s.Source()
	return oracle.Single(src)
}

func checkSkel(s *Skel) *ev.Failure {
	r := ev.R()
	p := prog(s)
	v := diffgo.Compare(p, goat.DefaultBudget)
	r.Eval(1)
	if v.Skip != "" {
		r.Class("skipped:" + v.Skip)
		if v.Skip == "go_rejected" {
			r.Note("Go rejected a generated skeleton: %s", v.Msg)
		}
		return nil
	}
	_, jumps := s.Source()
	deep := false
	for id, depth := range jumps {
		if depth >= 2 && strings.Contains(v.Go.Stdout, fmt.Sprintf("j %d\n", id)) {
			deep = true
		}
	}
	if deep {
		r.Nontrivial(ev.Hash(p.Key()))
		r.Class("jump_executed_at_depth>=2")
	}
	if v.OK {
		return nil
	}
	return &ev.Failure{Kind: "skeleton", Case: s, Msg: v.Msg + "\n" + diffgo.Show(p, v)}
}

func TestSampled(t *testing.T) {
	n := 0
	diffgo.TwoPass(t, genSkel, func(s *Skel) []*oracle.Program { return []*oracle.Program{prog(s)} }, func(s *Skel) *ev.Failure {
		n++
		if n%40 == 1 {
			src, _ := s.Source()
			ev.R().Sample(map[string]any{"source": src})
		}
		return checkSkel(s)
	})
}

func runEnum(t *testing.T, sizes []int) {
	r := ev.R()
	r.Disjoint()
	var all []*Skel
	idx := 0
	for _, n := range sizes {
		enumerate(n, func(s *Skel) {
			idx++
			if r.Mine(idx) {
				all = append(all, s)
			}
		})
	}
	var progs []*oracle.Program
	for _, s := range all {
		progs = append(progs, prog(s))
	}
	if err := diffgo.O.Fill(progs); err != nil {
		r.Infra("Go oracle: %v", err)
		t.Fatal(err)
	}
	fails := 0
	for i, s := range all {
		if i%500 == 0 {
			src, _ := s.Source()
			r.Sample(map[string]any{"source": src})
		}
		if f := checkSkel(s); f != nil {
			r.Fail(t, f)
			fails++
			if fails >= 3 {
				return
			}
		}
	}
	r.Note("enumerated skeletons of sizes %v: %d in this shard", sizes, len(all))
	r.Exhaustive(fmt.Sprintf("all control skeletons with %v nodes over the reduced alphabet (depth <= 3)", sizes), fails == 0)
}

func TestEnumSmall(t *testing.T) { runEnum(t, []int{1, 2, 3}) }
func TestEnum4(t *testing.T)     { runEnum(t, []int{4}) }
func TestEnum5(t *testing.T)     { runEnum(t, []int{5}) }

func TestReplay(t *testing.T) {
	ev.R().RunReplays(t, map[string]ev.ReplayFunc{
		"skeleton": func(raw json.RawMessage) *ev.Failure {
			var s Skel
			if err := json.Unmarshal(raw, &s); err != nil {
				return &ev.Failure{Kind: "skeleton", Case: string(raw), Msg: "bad replay: " + err.Error()}
			}
			return checkSkel(&s)
		},
		"source": func(raw json.RawMessage) *ev.Failure {
			var c struct {
				Src string `json:"src"`
			}
			json.Unmarshal(raw, &c)
			p := oracle.Single(c.Src)
			v := diffgo.Compare(p, goat.DefaultBudget)
			if v.OK || v.Skip != "" {
				return nil
			}
			return &ev.Failure{Kind: "source", Case: c, Msg: v.Msg + "\n" + diffgo.Show(p, v)}
		},
	})
}
