// vcheck is the single entry point behind every MANIFEST command:
//
//	vcheck <ID> quick|thorough      run the check for property ID
//	vcheck <ID> --replay <file>     re-execute one saved case
//
// It rebuilds the check's test binary (and with it goatlang from /repo's working tree, tag verif),
// runs the units listed in checks/<id>/plan.json as separate processes (sharded), merges their
// shard files into evidence/<ID>.json and turns the result into the exit code:
// 0 held / 1 VIOLATION / 2 infrastructure trouble (not a verdict).
package main

import (
	"bytes"
	"context"
	"encoding/binary"
	"encoding/json"
	"fmt"
	"os"
	"os/exec"
	"path/filepath"
	"regexp"
	"runtime"
	"sort"
	"strconv"
	"strings"
	"sync"
	"time"
)

type tierInt struct {
	Quick    int `json:"quick"`
	Thorough int `json:"thorough"`
}

func (t tierInt) get(tier string, d int) int {
	v := t.Quick
	if tier == "thorough" {
		v = t.Thorough
	}
	if v == 0 {
		return d
	}
	return v
}

type unit struct {
	Test     string   `json:"test"`
	Kind     string   `json:"kind"` // plain | rapid | fuzz
	Tiers    []string `json:"tiers,omitempty"`
	Checks   tierInt  `json:"checks"`
	Shards   tierInt  `json:"shards"`
	TimeoutS tierInt  `json:"timeout_s"`
	FuzzS    tierInt  `json:"fuzz_s"`
	ReplayOnly bool   `json:"replay_only,omitempty"`
}

type plan struct {
	Property    string   `json:"property"`
	Level       string   `json:"level"`
	Rule        string   `json:"rule"`
	Assumptions []string `json:"assumptions"`
	Units       []unit   `json:"units"`
}

type violation struct {
	Replay string `json:"replay"`
	Kind   string `json:"kind"`
	Msg    string `json:"msg"`
}

type shard struct {
	Property    string           `json:"property"`
	Unit        string           `json:"unit"`
	Evaluations int64            `json:"evaluations"`
	Nontrivial  int64            `json:"nontrivial"`
	Counted     int64            `json:"counted"`
	HashFile    string           `json:"hash_file"`
	Disjoint    bool             `json:"disjoint"`
	Classes     map[string]int64 `json:"classes"`
	Samples     []any            `json:"samples"`
	Violations  []violation      `json:"violations"`
	Known       []string         `json:"known"`
	Exhaustive  map[string]bool  `json:"exhaustive"`
	Notes       []string         `json:"notes"`
	Infra       []string         `json:"infra"`
	Completed   bool             `json:"completed"`
}

type job struct {
	u        unit
	shardN   int
	shards   int
	out      string
	log      string
	exit     int
	timedOut bool
	dur      time.Duration
}

func splitmix(x uint64) uint64 {
	x += 0x9e3779b97f4a7c15
	z := x
	z = (z ^ (z >> 30)) * 0xbf58476d1ce4e5b9
	z = (z ^ (z >> 27)) * 0x94d049bb133111eb
	return z ^ (z >> 31)
}

func main() {
	os.Exit(run())
}

func infra(format string, a ...any) int {
	fmt.Printf("INFRA: "+format+"\n", a...)
	return 2
}

func run() int {
	if len(os.Args) < 3 {
		fmt.Println("usage: vcheck <ID> quick|thorough | vcheck <ID> --replay <file>")
		return 2
	}
	root := os.Getenv("VERIF_ROOT")
	if root == "" {
		root = "/verif"
	}
	id := strings.ToUpper(os.Args[1])
	lid := strings.ToLower(id)
	tier := os.Args[2]
	replay := ""
	if tier == "--replay" {
		if len(os.Args) < 4 {
			return infra("missing replay file")
		}
		replay, _ = filepath.Abs(os.Args[3])
		tier = "quick"
	}
	if tier != "quick" && tier != "thorough" {
		return infra("unknown tier %q", tier)
	}
	if t := os.Getenv("VERIF_TIER"); replay == "" && (t == "quick" || t == "thorough") && len(os.Args) >= 3 && os.Args[2] == "auto" {
		tier = t
	}
	seed := int64(1)
	if s := os.Getenv("VERIF_SEED"); s != "" {
		if n, err := strconv.ParseInt(s, 10, 64); err == nil {
			seed = n
		}
	}
	os.Setenv("GOFLAGS", "-mod=mod")
	os.Setenv("GOPROXY", "off")
	os.Setenv("GOSUMDB", "off")
	os.Setenv("GOTOOLCHAIN", "local")
	os.Setenv("VERIF_ROOT", root)
	start := time.Now()

	pb, err := os.ReadFile(filepath.Join(root, "checks", lid, "plan.json"))
	if err != nil {
		return infra("no plan for %s: %v", id, err)
	}
	var p plan
	if err := json.Unmarshal(pb, &p); err != nil {
		return infra("plan.json: %v", err)
	}
	if p.Level == "" {
		p.Level = "exploration"
	}

	// build (recompiles goatlang from /repo's working tree because of the replace directive)
	os.MkdirAll(filepath.Join(root, ".bin"), 0o755)
	bin := filepath.Join(root, ".bin", lid+".test")
	build := exec.Command("go", "test", "-tags", "verif", "-c", "-o", bin, "./checks/"+lid)
	build.Dir = root
	if out, err := build.CombinedOutput(); err != nil {
		fmt.Printf("%s\n", out)
		return infra("build of check %s (or of /repo with -tags verif) failed: %v", id, err)
	}

	runDir, err := os.MkdirTemp("", "vcheck-"+lid+"-")
	if err != nil {
		return infra("tmp dir: %v", err)
	}
	defer os.RemoveAll(runDir)

	var jobs []*job
	only := os.Getenv("VERIF_ONLY") // development aid: run only the named units (comma-separated); never set by registered commands
	for _, u := range p.Units {
		if only != "" && !strings.Contains(","+only+",", ","+u.Test+",") {
			continue
		}
		if replay != "" && !u.ReplayOnly && u.Test != "TestReplay" {
			continue
		}
		if replay == "" && u.ReplayOnly {
			continue
		}
		if len(u.Tiers) > 0 && replay == "" {
			ok := false
			for _, t := range u.Tiers {
				ok = ok || t == tier
			}
			if !ok {
				continue
			}
		}
		n := u.Shards.get(tier, 1)
		if replay != "" {
			n = 1
		}
		for s := 0; s < n; s++ {
			jobs = append(jobs, &job{u: u, shardN: s, shards: n,
				out: filepath.Join(runDir, fmt.Sprintf("%s-%d.json", u.Test, s)),
				log: filepath.Join(runDir, fmt.Sprintf("%s-%d.log", u.Test, s))})
		}
	}
	if len(jobs) == 0 {
		return infra("nothing to run for %s %s", id, tier)
	}

	par := runtime.NumCPU()
	if v := os.Getenv("VERIF_PAR"); v != "" {
		if n, err := strconv.Atoi(v); err == nil && n > 0 {
			par = n
		}
	}
	sem := make(chan struct{}, par)
	var wg sync.WaitGroup
	for _, j := range jobs {
		wg.Add(1)
		go func(j *job) {
			defer wg.Done()
			sem <- struct{}{}
			defer func() { <-sem }()
			runJob(root, bin, id, tier, seed, replay, runDir, j)
		}(j)
	}
	wg.Wait()

	// merge
	type agg struct {
		evals      int64
		nontrivial int64
	}
	total := agg{}
	classes := map[string]int64{}
	perUnit := map[string]map[string]any{}
	var samples []any
	var viols []violation
	var known []string
	var infraMsgs []string
	var notes []string
	exhaustive := map[string]bool{}
	hashSet := map[uint64]struct{}{}
	for _, j := range jobs {
		b, err := os.ReadFile(j.out)
		var sh shard
		if inflight, ierr := os.ReadFile(j.out + ".inflight"); ierr == nil && len(inflight) > 0 && !j.timedOut && j.exit != 0 {
			// the unit died while a case was in flight (a fatal Go error cannot be recovered): that case is the finding
			lg, _ := os.ReadFile(j.log)
			var rf map[string]any
			if json.Unmarshal(inflight, &rf) == nil && strings.Contains(string(lg), "fatal error") {
				os.MkdirAll(filepath.Join(root, "out", id), 0o755)
				dst := filepath.Join(root, "out", id, fmt.Sprintf("crash-%016x.json", fnv64(inflight)))
				os.WriteFile(dst, inflight, 0o644)
				first := ""
				for _, l := range strings.Split(string(lg), "\n") {
					if strings.Contains(l, "fatal error") {
						first = l
						break
					}
				}
				viols = append(viols, violation{Replay: dst, Kind: "crash", Msg: fmt.Sprintf("unit %s: the process running the case died (%s)\n%v", j.u.Test, first, rf["msg"])})
			}
		}
		if err != nil || json.Unmarshal(b, &sh) != nil {
			lg, _ := os.ReadFile(j.log)
			infraMsgs = append(infraMsgs, fmt.Sprintf("unit %s shard %d wrote no shard file (exit %d, timed out %v): %s", j.u.Test, j.shardN, j.exit, j.timedOut, tail(string(lg), 1500)))
			continue
		}
		if j.timedOut {
			infraMsgs = append(infraMsgs, fmt.Sprintf("unit %s shard %d hit the harness watchdog after %v", j.u.Test, j.shardN, j.dur))
		}
		if !sh.Completed && !j.timedOut {
			lg, _ := os.ReadFile(j.log)
			infraMsgs = append(infraMsgs, fmt.Sprintf("unit %s shard %d died before completing (exit %d): %s", j.u.Test, j.shardN, j.exit, tail(string(lg), 1500)))
		}
		if j.exit != 0 && len(sh.Violations) == 0 && len(sh.Infra) == 0 && sh.Completed {
			lg, _ := os.ReadFile(j.log)
			infraMsgs = append(infraMsgs, fmt.Sprintf("unit %s shard %d failed without recording a violation (exit %d): %s", j.u.Test, j.shardN, j.exit, tail(string(lg), 3000)))
		}
		total.evals += sh.Evaluations
		if sh.Disjoint || sh.HashFile == "" {
			total.nontrivial += sh.Nontrivial
		} else {
			total.nontrivial += sh.Counted
			hb, _ := os.ReadFile(sh.HashFile)
			for i := 0; i+8 <= len(hb); i += 8 {
				hashSet[binary.LittleEndian.Uint64(hb[i:])] = struct{}{}
			}
		}
		for k, v := range sh.Classes {
			classes[k] += v
		}
		pu := perUnit[sh.Unit]
		if pu == nil {
			pu = map[string]any{"evaluations": int64(0), "shards": 0, "wall_s": 0.0}
			perUnit[sh.Unit] = pu
		}
		pu["evaluations"] = pu["evaluations"].(int64) + sh.Evaluations
		pu["shards"] = pu["shards"].(int) + 1
		if d := j.dur.Seconds(); d > pu["wall_s"].(float64) {
			pu["wall_s"] = float64(int(d*10)) / 10
		}
		for _, s := range sh.Samples {
			if len(samples) < 12 {
				samples = append(samples, map[string]any{"unit": sh.Unit, "case": s})
			}
		}
		viols = append(viols, sh.Violations...)
		known = append(known, sh.Known...)
		infraMsgs = append(infraMsgs, sh.Infra...)
		notes = append(notes, sh.Notes...)
		for k, v := range sh.Exhaustive {
			if old, ok := exhaustive[k]; ok {
				exhaustive[k] = old && v
			} else {
				exhaustive[k] = v
			}
		}
	}
	total.nontrivial += int64(len(hashSet))

	known = uniq(known)
	notes = uniq(notes)
	seen := map[string]bool{}
	var uv []violation
	for _, v := range viols {
		if !seen[v.Replay] {
			seen[v.Replay] = true
			uv = append(uv, v)
		}
	}
	viols = uv

	allExh := len(exhaustive) > 0
	var exhSpaces []string
	for k, v := range exhaustive {
		if v {
			exhSpaces = append(exhSpaces, k)
		}
	}
	sort.Strings(exhSpaces)
	_ = allExh

	cov := map[string]any{
		"evaluations":         total.evals,
		"distinct_nontrivial": total.nontrivial,
		"rule":                p.Rule,
		"samples":             samples,
		"classes":             classes,
		"units":               perUnit,
		"known_findings":      known,
	}
	if len(exhSpaces) > 0 {
		cov["exhaustive"] = true
		cov["exhaustive_spaces"] = exhSpaces
	}
	if len(notes) > 0 {
		cov["notes"] = notes
	}
	if len(infraMsgs) > 0 {
		cov["infrastructure_trouble"] = infraMsgs
	}
	if replay != "" {
		cov["replay_of"] = replay
	}
	evd := map[string]any{
		"property_id": id,
		"tier":        tier,
		"seed":        seed,
		"level":       p.Level,
		"coverage":    cov,
		"assumptions": p.Assumptions,
		"wall_s":      float64(int(time.Since(start).Seconds()*10)) / 10,
		"violations":  len(viols),
	}
	if replay == "" {
		os.MkdirAll(filepath.Join(root, "evidence"), 0o755)
		eb, _ := json.MarshalIndent(evd, "", " ")
		if err := os.WriteFile(filepath.Join(root, "evidence", id+".json"), append(eb, '\n'), 0o644); err != nil {
			infraMsgs = append(infraMsgs, "writing evidence: "+err.Error())
		}
	}

	for _, k := range known {
		fmt.Printf("KNOWN-FINDING: %s\n", k)
	}
	for _, v := range viols {
		fmt.Printf("VIOLATION property=%s replay=%s\n", id, v.Replay)
		fmt.Printf("  %s\n", strings.ReplaceAll(tail(v.Msg, 1500), "\n", "\n  "))
	}
	for _, m := range infraMsgs {
		fmt.Printf("INFRA: %s\n", m)
	}
	fmt.Printf("%s %s seed=%d: %d evaluations, %d distinct non-trivial, %d violation(s), %d known finding(s), %.1fs\n",
		id, tier, seed, total.evals, total.nontrivial, len(viols), len(known), time.Since(start).Seconds())
	if len(viols) > 0 {
		return 1
	}
	if len(infraMsgs) > 0 {
		return 2
	}
	if total.evals == 0 {
		return infra("no case was evaluated")
	}
	return 0
}

func uniq(in []string) []string {
	m := map[string]bool{}
	var out []string
	for _, s := range in {
		if !m[s] {
			m[s] = true
			out = append(out, s)
		}
	}
	sort.Strings(out)
	return out
}

func tail(s string, n int) string {
	if len(s) <= n {
		return s
	}
	return "…" + s[len(s)-n:]
}

func runJob(root, bin, id, tier string, seed int64, replay, runDir string, j *job) {
	u := j.u
	unitSeed := splitmix(uint64(seed)*1000003 + hashStr(u.Test)*31 + uint64(j.shardN)*7919)
	rseed := unitSeed >> 1 // rapid: keep it positive and non-zero
	if rseed == 0 {
		rseed = 1
	}
	timeout := time.Duration(u.TimeoutS.get(tier, map[string]int{"quick": 900, "thorough": 5400}[tier])) * time.Second
	var args []string
	switch u.Kind {
	case "rapid":
		checks := u.Checks.get(tier, 100)
		args = []string{"-test.run", "^" + u.Test + "$", "-test.timeout", "0", "-test.count", "1",
			"-rapid.checks", strconv.Itoa(checks), "-rapid.seed", strconv.FormatUint(rseed, 10),
			"-rapid.nofailfile", "-rapid.shrinktime", "45s"}
	case "fuzz":
		// native fuzzing needs a coverage-instrumented binary
		fbin := strings.TrimSuffix(bin, ".test") + ".fuzz.test"
		build := exec.Command("go", "test", "-tags", "verif", "-c", "-fuzz", ".", "-o", fbin, "./checks/"+strings.ToLower(id))
		build.Dir = root
		if out, err := build.CombinedOutput(); err != nil {
			os.WriteFile(j.log, out, 0o644)
			j.exit = 2
			return
		}
		bin = fbin
		fs := u.FuzzS.get(tier, 60)
		cache := filepath.Join(runDir, "fuzzcache-"+u.Test)
		os.MkdirAll(cache, 0o755)
		args = []string{"-test.run", "^$", "-test.fuzz", "^" + u.Test + "$", "-test.fuzztime", fmt.Sprintf("%ds", fs),
			"-test.fuzzcachedir", cache, "-test.timeout", "0"}
		if timeout < time.Duration(fs+600)*time.Second {
			timeout = time.Duration(fs+600) * time.Second
		}
	default:
		args = []string{"-test.run", "^" + u.Test + "$", "-test.timeout", "0", "-test.count", "1"}
	}
	ctx, cancel := context.WithTimeout(context.Background(), timeout)
	defer cancel()
	// an address-space limit turns a runaway allocation into a visible "out of memory" of that unit instead of an
	// invisible kill by the kernel
	memKB := 16000000
	if v := os.Getenv("VERIF_MEM_KB"); v != "" {
		if n, err := strconv.Atoi(v); err == nil {
			memKB = n
		}
	}
	shArgs := append([]string{"-c", fmt.Sprintf("ulimit -v %d 2>/dev/null; exec \"$0\" \"$@\"", memKB), bin}, args...)
	cmd := exec.CommandContext(ctx, "/bin/sh", shArgs...)
	cmd.Dir = filepath.Join(root, "checks", strings.ToLower(id))
	if u.Kind == "fuzz" {
		cmd.Dir = runDir // crashers (testdata/fuzz/...) land in the run directory, which is removed afterwards
	}
	cmd.Env = append(os.Environ(),
		"VERIF_UNIT="+u.Test,
		"VERIF_TIER="+tier,
		"VERIF_SEED="+strconv.FormatInt(seed, 10),
		"VERIF_UNIT_SEED="+strconv.FormatUint(unitSeed, 10),
		"VERIF_SHARD="+strconv.Itoa(j.shardN),
		"VERIF_SHARDS="+strconv.Itoa(j.shards),
		"VERIF_CHECKS="+strconv.Itoa(u.Checks.get(tier, 100)),
		"VERIF_OUT="+j.out,
		"VERIF_REPLAY="+replay,
		"VERIF_RUNDIR="+runDir,
	)
	var buf bytes.Buffer
	cmd.Stdout = &buf
	cmd.Stderr = &buf
	cmd.WaitDelay = 5 * time.Second
	t0 := time.Now()
	err := cmd.Run()
	j.dur = time.Since(t0)
	if ctx.Err() != nil {
		j.timedOut = true
	}
	if err != nil {
		j.exit = 1
		if ee, ok := err.(*exec.ExitError); ok {
			j.exit = ee.ExitCode()
		}
	}
	os.WriteFile(j.log, buf.Bytes(), 0o644)
	if u.Kind == "fuzz" {
		// the fuzz coordinator does not run the recorder; build the shard file here
		sh := shard{Property: id, Unit: u.Test, Completed: !j.timedOut, Classes: map[string]int64{}}
		if m := regexp.MustCompile(`execs: (\d+)`).FindAllStringSubmatch(buf.String(), -1); len(m) > 0 {
			n, _ := strconv.ParseInt(m[len(m)-1][1], 10, 64)
			sh.Evaluations = n
			sh.Classes["native_fuzz_execs:"+u.Test] = n
		}
		if j.exit != 0 {
			// the fuzz target writes every failing input as out/<ID>/fuzz-*.json; report the smallest new one
			files, _ := filepath.Glob(filepath.Join(root, "out", id, "fuzz-*.json"))
			best, bestSize := "", int64(0)
			for _, f := range files {
				if st, err := os.Stat(f); err == nil && st.ModTime().After(t0) && (best == "" || st.Size() < bestSize) {
					best, bestSize = f, st.Size()
				}
			}
			if best != "" {
				sh.Violations = append(sh.Violations, violation{Replay: best, Kind: "input", Msg: "native fuzzing found a failing input: " + tail(buf.String(), 1200)})
			} else {
				sh.Infra = append(sh.Infra, "native fuzzing of "+u.Test+" failed without a saved input: "+tail(buf.String(), 1500))
			}
		}
		b, _ := json.Marshal(sh)
		os.WriteFile(j.out, b, 0o644)
	}
	if os.Getenv("VERIF_VERBOSE") != "" {
		fmt.Printf("--- %s shard %d (exit %d, %v)\n%s\n", u.Test, j.shardN, j.exit, j.dur, tail(buf.String(), 6000))
	}
}

func hashStr(s string) uint64 {
	var h uint64 = 1469598103934665603
	for i := 0; i < len(s); i++ {
		h ^= uint64(s[i])
		h *= 1099511628211
	}
	return h
}

func fnv64(b []byte) uint64 {
	h := uint64(14695981039346656037)
	for _, c := range b {
		h ^= uint64(c)
		h *= 1099511628211
	}
	return h
}
