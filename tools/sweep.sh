#!/bin/sh
# usage: tools/sweep.sh <tier> <seed>...   runs every claimed check at the given seeds on the current tree; prints anything but clean passes
tier=$1; shift
cd "$(dirname "$0")/.." || exit 2
for s in "$@"; do
  for c in C01 C02 C03 C04 C05 C06 C07 C08 C09 C10 C11 C12 C13 C14 C15 C16 C17 C18 C19 C20; do
    VERIF_SEED=$s ./vcheck $c $tier > /tmp/sweep.log 2>&1; e=$?
    line=$(tail -1 /tmp/sweep.log | cut -c1-160)
    if [ $e -ne 0 ]; then echo "EXIT $e seed=$s $c: $line"; grep -a "VIOL\|INFRA" /tmp/sweep.log | head -4 | cut -c1-500; else echo "ok   $line"; fi
  done
done
