#!/usr/bin/env python3
"""Regenerates /verif/MANIFEST.json from tools/manifest_table.json (one entry per claimed property)."""
import json, os, subprocess
root = os.path.dirname(os.path.dirname(os.path.abspath(__file__)))
table = json.load(open(os.path.join(root, "tools", "manifest_table.json")))
props = [json.loads(l) for l in open(os.path.join(root, "properties.jsonl")) if l.strip()]
ids = [p["id"] for p in props]
hooks_commits = table["hook_commits"]
checks = []
for pid in ids:
    e = table["checks"].get(pid)
    if not e:
        continue
    checks.append({
        "property_id": pid,
        "quick_cmd": f"./vcheck {pid} quick",
        "thorough_cmd": f"./vcheck {pid} thorough",
        "evidence_file": f"/verif/evidence/{pid}.json",
        "replay_cmd_template": f"./vcheck {pid} --replay {{path}}",
        "engine": e.get("engine", "rapid+native-model"),
        "level_claimed": {"category": "exploration", "text": e["level_text"], "design_ref": e.get("design_ref", f"DESIGN.md section 2, {pid}")},
        "level_note": e["level_note"],
        "technique": e["technique"],
    })
na = [{"property_id": pid, "reason": table["not_applicable"][pid]} for pid in ids if pid not in table["checks"]]
m = {
    "version": 1,
    "setup_cmd": "./setup.sh",
    "hooks": {
        "guard": "verif",
        "enable": "go build tag: every check builds /repo with `go test -tags verif` through the replace directive in /verif/go.mod",
        "baseline_off_cmd": "cd /repo && GOFLAGS=-mod=mod GOPROXY=off GOSUMDB=off go test -vet=off -count=1 -timeout 25m ./...",
        "source_commits": hooks_commits,
        "add_only": True,
    },
    "engines": table["engines"],
    "checks": checks,
    "notes": table["notes"],
    "not_applicable": na,
}
json.dump(m, open(os.path.join(root, "MANIFEST.json"), "w"), indent=1)
print("checks:", len(checks), "not_applicable:", len(na))
