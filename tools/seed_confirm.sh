#!/bin/sh
# usage: tools/seed_confirm.sh <outdir-with-patch.diff-and-demo_test.go>
# Confirms a seeded change in a fresh scratch worktree: the pinned suite passes with it, the demo fails with it
# and passes without it. Prints a summary; removes the worktree.
set -u
OUT="$1"
export GOFLAGS=-mod=mod GOPROXY=off GOSUMDB=off GOTOOLCHAIN=local
WT=$(mktemp -d /tmp/seedconfirm-XXXXXX)
git -C /repo worktree add -q --detach "$WT" HEAD || exit 2
cd "$WT" || exit 2
cp "$OUT/demo_test.go" ./zz_demo_test.go 2>/dev/null
base_demo=$(go test -vet=off -count=1 -run 'Demo' . 2>&1 | tail -1)
rm -f zz_demo_test.go
if ! git apply "$OUT/patch.diff"; then echo "PATCH DOES NOT APPLY"; cd /; git -C /repo worktree remove --force "$WT"; exit 3; fi
suite=$(go test -vet=off -count=1 . 2>&1 | tail -1)
cp "$OUT/demo_test.go" ./zz_demo_test.go 2>/dev/null
patched_demo=$(go test -vet=off -count=1 -run 'Demo' . 2>&1 | tail -1)
echo "suite with patch : $suite"
echo "demo without patch: $base_demo"
echo "demo with patch   : $patched_demo"
cd /; git -C /repo worktree remove --force "$WT"; rm -rf "$WT"
