#!/usr/bin/env python3
"""usage: tools/addcheck.py CNN 'technique' 'level_text' 'level_note' [engine]  — registers a check in manifest_table.json and regenerates MANIFEST.json"""
import json, sys, os, subprocess
root = os.path.dirname(os.path.dirname(os.path.abspath(__file__)))
p = os.path.join(root, 'tools', 'manifest_table.json'); t = json.load(open(p))
pid, tech, text, note = sys.argv[1:5]
e = {"technique": tech, "level_text": text, "level_note": note}
if len(sys.argv) > 5: e["engine"] = sys.argv[5]
t['checks'][pid] = e
t['not_applicable'].pop(pid, None)
for en in t['engines']:
    if en['name'] in ('vcheck', 'rapid'):
        en['serves_properties'] = sorted(set(en['serves_properties'] + [pid]))
json.dump(t, open(p, 'w'), indent=1)
subprocess.run([os.path.join(root, 'tools', 'mkmanifest.py')])
