#!/usr/bin/env python3
"""Runs every stored seeded change (seeded/*/patch.diff) that applies to /repo HEAD against the check named in its
meta.json (own property first, then the checks its detection text names) through tools/mutant.py, quick tier.
usage: tools/regress_seeds.py [prefix]   (e.g. s5-); writes one line per change to /tmp/regress-seeds.log
Do not edit /repo, internal/gen or the checks while it runs (about 40 minutes for 140 changes)."""
import json, os, re, subprocess, sys
os.environ.update(GOFLAGS="-mod=mod", GOPROXY="off", GOSUMDB="off", GOTOOLCHAIN="local")
root='/verif/seeded'
out=open('/tmp/regress-seeds.log','w')
for sid in sorted(os.listdir(root)):
    if len(sys.argv) > 1 and not sid.startswith(sys.argv[1]): continue
    m=json.load(open(f'{root}/{sid}/meta.json'))
    if m.get('applies_to_repo_commit'):
        print(sid, 'SKIP (applies to', m['applies_to_repo_commit']+')', file=out, flush=True); continue
    det=m.get('detection','') or ''
    if isinstance(det, dict): det=json.dumps(det)
    cands=[]
    # checks named with VIOLATION in detection text, in order; own property first if mentioned
    for part in re.split(r';', det):
        if 'VIOLATION' in part or 'caught' in part.lower():
            cands += re.findall(r'C\d\d', part)
    prop=m.get('property')
    order=[]
    for c in ([prop] if prop in cands else []) + cands + [prop]:
        if c and c not in order: order.append(c)
    res='MISSED'
    for c in order[:3]:
        r=subprocess.run(['python3','tools/mutant.py','--patch',f'{root}/{sid}/patch.diff',c,'quick'],capture_output=True,text=True,cwd='/verif',errors='replace')
        line=r.stdout.splitlines()[0] if r.stdout else r.stderr[:100]
        if 'exit=1' in line:
            res=f'caught by {c}'; break
        if 'cannot apply' in r.stdout: res='DOES NOT APPLY'; break
    print(sid, res, file=out, flush=True)
print('done', file=out, flush=True)
