#!/usr/bin/env python3
"""Sensitivity runs: apply one textual mutant from tools/mutants.json to /repo's working tree, run a check, undo.
usage: tools/mutant.py <mutant-id> [<CNN> [tier]]      (CNN defaults to the mutant's property)
The working tree of /repo is restored with `git checkout -- .` afterwards, whatever happens."""
import json, subprocess, sys, os, time
root = os.path.dirname(os.path.dirname(os.path.abspath(__file__)))
muts = {m["id"]: m for m in json.load(open(os.path.join(root, "tools", "mutants.json")))}
mid = sys.argv[1]
revert = None
if mid == "--revert":   # tools/mutant.py --revert <fix-commit> <CNN> [tier]: undo one fix: commit in the working tree
    revert = sys.argv[2]; sys.argv = sys.argv[1:]; mid = "revert-" + revert
    m = {"property": None, "edits": [], "negative_control": False}
elif mid == "--patch":  # tools/mutant.py --patch <file.diff> <CNN> [tier]: apply a seeded change
    revert = None; patch = os.path.abspath(sys.argv[2]); sys.argv = sys.argv[1:]; mid = "patch-" + os.path.basename(os.path.dirname(patch) or patch)
    m = {"property": None, "edits": [], "negative_control": False, "patch": patch}
else:
    m = muts[mid]
prop = sys.argv[2] if len(sys.argv) > 2 else m["property"]
tier = sys.argv[3] if len(sys.argv) > 3 else "quick"
st = subprocess.run(["git", "-C", "/repo", "status", "--porcelain"], capture_output=True, text=True).stdout.strip()
if st:
    print("refusing: /repo has uncommitted changes:\n" + st); sys.exit(3)
evp = os.path.join(root, "evidence", f"{prop}.json")
saved_ev = open(evp).read() if os.path.exists(evp) else None
try:
    if revert:
        d = subprocess.run(["git", "-C", "/repo", "show", revert], capture_output=True, text=True).stdout
        r = subprocess.run(["git", "-C", "/repo", "apply", "-R", "--3way"], input=d, text=True, capture_output=True)
        if r.returncode != 0:
            r = subprocess.run(["git", "-C", "/repo", "apply", "-R"], input=d, text=True, capture_output=True)
        if r.returncode != 0:
            print("cannot revert", revert, r.stderr); sys.exit(4)
        subprocess.run(["git", "-C", "/repo", "reset", "-q"])
    if m.get("patch"):
        r = subprocess.run(["git", "-C", "/repo", "apply", m["patch"]], capture_output=True, text=True)
        if r.returncode != 0:
            print("cannot apply", m["patch"], r.stderr); sys.exit(4)
    for e in m["edits"]:
        p = os.path.join("/repo", e["file"]); s = open(p).read()
        if s.count(e["old"]) < 1:
            print(f"mutant {mid}: pattern not found in {e['file']}: {e['old']!r}"); sys.exit(4)
        s = s.replace(e["old"], e["new"], 1 if not e.get("all") else -1)
        open(p, "w").write(s)
    t0 = time.time()
    r = subprocess.run([os.path.join(root, "vcheck"), prop, tier], capture_output=True, text=True, errors="replace")
    out = r.stdout + r.stderr
    viol = [l for l in out.splitlines() if l.startswith("VIOLATION")]
    print(f"mutant={mid} check={prop} tier={tier} exit={r.returncode} violations={len(viol)} wall={time.time()-t0:.1f}s negative_control={m.get('negative_control', False)}")
    for l in out.splitlines()[:6]:
        print("   ", l[:300])
    print("   ...", out.splitlines()[-1][:300] if out.splitlines() else "")
finally:
    if saved_ev is not None:
        open(evp, "w").write(saved_ev)
    subprocess.run(["git", "-C", "/repo", "reset", "-q", "--hard", "HEAD"])
    subprocess.run(["git", "-C", "/repo", "clean", "-fdq"])
