#!/bin/sh
# Run once after a fresh restore, offline: builds the driver and every check binary from files on disk.
cd "$(dirname "$0")" || exit 2
export GOFLAGS=-mod=mod GOPROXY=off GOSUMDB=off GOTOOLCHAIN=local
mkdir -p .bin evidence out
go build -o .bin/vcheck ./cmd/vcheck || exit 1
for d in checks/*/; do
  id=$(basename "$d")
  go test -tags verif -c -o ".bin/$id.test" "./checks/$id" || exit 1
done
# a build cache holding the GOARCH=386 standard library; the oracle copies it for every batch build
rm -rf .cache/std386 && mkdir -p .cache/std386
GOCACHE="$(pwd)/.cache/std386" GOARCH=386 CGO_ENABLED=0 go build -o /dev/null ./internal/oracle/warm || echo "warning: could not warm the 386 cache (the oracle then builds from a cold cache)"
echo setup ok
