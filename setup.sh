#!/bin/sh
# Run once after a fresh restore, offline: builds the driver and every check binary from files on disk.
cd "$(dirname "$0")" || exit 2
export GOFLAGS=-mod=mod GOPROXY=off GOSUMDB=off GOTOOLCHAIN=local
mkdir -p .bin evidence out
go build -o .bin/vcheck ./cmd/vcheck || exit 1
for d in checks/*/; do
  id=$(basename "$d")
  go test -tags verif -c -o ".bin/$id.test" "./checks/$id" || exit 1
done
# warm the build cache for the 32-bit Go oracle (standard library for GOARCH=386)
GOARCH=386 go build -o /dev/null ./internal/oracle/warm 2>/dev/null || true
echo setup ok
